#!/bin/bash
# run every thorough tier sequentially (used with `vp run`); summary in thorough_summary.txt of the working directory
W=${1:-6}
rm -f thorough_summary.txt
for c in C01 C02 C04 C05 C06 C07 C08 C09 C10 C11 C12 C13 C15 C16 C17 C18 C20 C03 C14 C19; do
  s=$(date +%s)
  ./check $c --tier thorough --workers $W --no-evidence > thor_$c.log 2>&1
  rc=$?
  echo "$c rc=$rc t=$(( $(date +%s)-s ))s viol=$(grep -c '^VIOLATION' thor_$c.log) $(tail -1 thor_$c.log | cut -c1-160)" >> thorough_summary.txt
done
echo DONE >> thorough_summary.txt
