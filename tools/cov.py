#!/venv/bin/python
"""Development aid: which lines of a property's anchor files does its check never execute?

  tools/cov.py Cxx [--tier quick] [--workers N]

Runs ./check Cxx --no-evidence with VP_COVERAGE set (workers record line coverage of /repo/pyxel through
sys.monitoring), combines the per-worker data and prints, for every anchor file of the property (properties.jsonl),
the executed percentage and the missing line ranges. Not a check and not evidence: a way to find alphabet gaps."""
import json
import os
import shutil
import subprocess
import sys
import tempfile

ROOT = os.path.dirname(os.path.dirname(os.path.abspath(__file__)))


def main():
    pid = sys.argv[1].upper()
    extra = sys.argv[2:]
    prop = next(json.loads(l) for l in open(os.path.join(ROOT, "properties.jsonl")) if json.loads(l)["id"] == pid)
    d = tempfile.mkdtemp(prefix="vp_cov_", dir="/var/tmp")
    try:
        env = dict(os.environ, VP_COVERAGE=d, COVERAGE_CORE="sysmon")
        r = subprocess.run([os.path.join(ROOT, "check"), pid, "--no-evidence"] + extra, cwd=ROOT, env=env,
                           capture_output=True, text=True)
        print(r.stdout.strip().splitlines()[-1] if r.stdout.strip() else r.stderr[-500:])
        import coverage
        cov = coverage.Coverage(data_file=os.path.join(d, "combined"))
        cov.combine([os.path.join(d, f) for f in os.listdir(d) if f.startswith("cov.")], keep=False)
        cov.save()
        data = cov.get_data()
        files = prop["anchors"]["files"]
        for f in files:
            path = os.path.join("/repo", f)
            if os.path.isdir(path):
                paths = sorted(os.path.join(dp, x) for dp, _, fs in os.walk(path) for x in fs if x.endswith(".py"))
            else:
                paths = [path]
            for p in paths:
                if not os.path.exists(p):
                    print("??", p)
                    continue
                try:
                    _, stmts, _, missing, fmt = cov.analysis2(p)
                except Exception as e:
                    print(f"{p}: not measured ({e})")
                    continue
                pc = 100.0 * (len(stmts) - len(missing)) / max(1, len(stmts))
                print(f"{p[len('/repo/'):]}: {pc:.0f}% of {len(stmts)} statements; missing {fmt}")
    finally:
        shutil.rmtree(d, ignore_errors=True)


if __name__ == "__main__":
    main()
