import sys, json, glob, os
pid = sys.argv[1]; wt = sys.argv[2]
base = open('/tmp/mut_prompt.py').read()
# reuse generator
import subprocess
txt = subprocess.run(['python3','/tmp/mut_prompt.py',pid,wt],capture_output=True,text=True).stdout
prev = []
for d in sorted(glob.glob(f'/verif/seeded/{pid}_*')):
    try:
        m = json.load(open(os.path.join(d,'meta.json')))
        prev.append("- " + str(m.get('title', ''))[:200] + " [needs: " + str(m.get('what_it_needs_to_manifest',''))[:200] + "]")
    except Exception: pass
extra = "\n\nALREADY TAKEN (an earlier round produced these changes for the same property - yours must be DIFFERENT in mechanism and in the code site touched; explore other files of the listed code areas, other running modes, other entry points, other data kinds):\n" + "\n".join(prev) + "\n\nSave your two changes into " + wt + "/OUT/" + str(len(prev)+1) + "/ and " + wt + "/OUT/" + str(len(prev)+2) + "/ (instead of 1 and 2).\n"
print(txt + extra)
