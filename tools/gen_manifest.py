#!/venv/bin/python
"""Regenerate MANIFEST.json from the property modules present under props/ (claimed) and
tools/not_applicable.json (everything else)."""
import importlib, json, os, sys, glob
ROOT = os.path.dirname(os.path.dirname(os.path.abspath(__file__)))
sys.path.insert(0, ROOT)
props = [json.loads(l) for l in open(os.path.join(ROOT, "properties.jsonl"))]
na_reasons = json.load(open(os.path.join(ROOT, "tools", "not_applicable.json")))
checks, engines, na = [], {}, []
mods = {}
claimed = set(json.load(open(os.path.join(ROOT, "tools", "claimed.json"))))
for p in sorted(glob.glob(os.path.join(ROOT, "props", "c*.py"))):
    pid = os.path.basename(p)[:3].upper()
    if pid not in claimed:
        continue
    m = importlib.import_module("props." + os.path.basename(p)[:-3])
    mods[m.ID] = m
for pr in props:
    pid = pr["id"]
    m = mods.get(pid)
    if m is None:
        na.append({"property_id": pid, "reason": na_reasons.get(pid, "no check is claimed for this property yet (machinery under construction)")})
        continue
    checks.append({
        "property_id": pid,
        "quick_cmd": f"./check {pid} --tier quick",
        "thorough_cmd": f"./check {pid} --tier thorough",
        "evidence_file": f"/verif/evidence/{pid}.json",
        "replay_cmd_template": f"./check {pid} --replay {{path}}",
        "engine": m.ENGINE,
        "level_claimed": {"category": m.LEVEL, "text": m.LEVEL_TEXT, "design_ref": m.DESIGN_REF},
        "level_note": m.LEVEL_NOTE,
        "technique": m.TECHNIQUE,
    })
    for e in m.ENGINE.split("+"):
        engines.setdefault(e.strip(), []).append(pid)
ENG = {
 "seqx": ("vp/seqx.py", "explicit-state breadth-first search over operation sequences applied to real objects, deduplicated by canonical state, with a reference model evaluated at every transition"),
 "cfgx": ("vp/cfgx.py", "bounded exhaustive enumeration of configurations/programs (subsets, pairs, products, k-deviations) executed on the real entry points with probe models and compared with a reference model"),
 "schedx": ("vp/schedx.py", "stateless exploration of thread interleavings of the real code under a controlled baton scheduler bound to dask, preemption-bounded, plus exhaustive completion-order enumeration"),
 "faultx": ("vp/faultx.py", "exhaustive single-fault injection at every (run, step, model position / k-th draw / k-th file-system call) of a generated simulation"),
}
manifest = {
 "version": 1,
 "setup_cmd": "/venv/bin/python -c \"import pyxel, numpy, jsonschema; print('ok')\" && mkdir -p /var/tmp/vp_numba_cache",
 "hooks": {"guard": "PYXEL_VERIF", "enable": "no source hooks: all interception is done from outside by monkey-patch seams installed in worker processes (PYXEL_VERIF=1 is exported to workers but read by nothing in /repo)",
           "baseline_off_cmd": "cd /repo && env -u PYXEL_VERIF /venv/bin/python -m pytest -ra -q -p no:cacheprovider --timeout=900 --continue-on-collection-errors",
           "source_commits": [], "add_only": True},
 "engines": [{"name": k, "path": ENG[k][0], "serves_properties": v, "kind_free_text": ENG[k][1]} for k, v in engines.items() if k in ENG],
 "checks": checks,
 "not_applicable": na,
 "notes": "All checks run with /venv/bin/python against /repo's working tree (import pyxel resolves to /repo/pyxel; no build step). known_findings.json lists recorded findings and fixed defects. See DESIGN.md.",
}
json.dump(manifest, open(os.path.join(ROOT, "MANIFEST.json"), "w"), indent=1)
import jsonschema
jsonschema.validate(manifest, json.load(open("/root/.vp/MANIFEST.schema.json")))
print("MANIFEST.json:", len(checks), "checks,", len(na), "not_applicable")
