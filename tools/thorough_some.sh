#!/bin/bash
# tools/thorough_some.sh <workers> Cxx ... : thorough tier of the given checks, summary in thorough_summary.txt
W=$1; shift
rm -f thorough_summary.txt
for c in "$@"; do
  s=$(date +%s)
  ./check $c --tier thorough --workers $W --no-evidence > thor_$c.log 2>&1
  rc=$?
  echo "$c rc=$rc t=$(( $(date +%s)-s ))s viol=$(grep -c '^VIOLATION' thor_$c.log) $(tail -1 thor_$c.log | cut -c1-160)" >> thorough_summary.txt
done
echo DONE >> thorough_summary.txt
