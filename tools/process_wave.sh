#!/bin/bash
# tools/process_wave.sh Cxx <agent-worktree>: add OUT/<n> as seeded/Cxx_<n>, verify (demo + repository suite), run the check
P=$1; WT=$2
for d in $WT/OUT/*/; do
  n=$(basename $d); id=${P}_$n
  [ -f $d/patch.diff ] || continue
  /verif/tools/seeded.py add $id $d > /dev/null
  /verif/tools/seeded.py verify $id --suite > /var/tmp/ver_$id.log 2>&1; echo "$id verify rc=$?"
  /verif/tools/seeded.py run $id > /var/tmp/run_$id.log 2>&1
  /venv/bin/python - <<PY
import json
r=json.load(open('/verif/seeded/$id/result.json'))
for k,v in r.items(): print('$id', k, 'CAUGHT' if v['caught'] else ('HARNESS' if v['harness_error'] else 'missed'), v['first'][:200])
PY
done
