#!/venv/bin/python
"""Manage seeded (deliberately broken) variants of /repo kept under /verif/seeded/<id>/.

  seeded.py add <id> <dir-with-patch.diff,demo.py,meta.json>
  seeded.py verify <id> [--suite]     scratch worktree of /repo HEAD: demo passes clean, fails with the patch;
                                      --suite additionally runs the repository's test-suite with the patch
  seeded.py run <id> [Cxx ...]        run the quick checks (default: the property of meta.json) against the patched
                                      scratch worktree (VP_REPO), record verdicts in seeded/<id>/result.json
  seeded.py runall [--tier quick]     all seeded ids x their property's check
Scratch worktrees live under /tmp and are removed afterwards; /repo itself is never modified.
"""
import json
import os
import shutil
import subprocess
import sys
import tempfile

ROOT = os.path.dirname(os.path.dirname(os.path.abspath(__file__)))
SEEDED = os.path.join(ROOT, "seeded")


def sh(cmd, **kw):
    return subprocess.run(cmd, shell=True, capture_output=True, text=True, **kw)


class Worktree:
    def __init__(self, patch=None):
        self.patch = patch

    def __enter__(self):
        self.dir = tempfile.mkdtemp(prefix="vp_seed_", dir="/tmp")
        os.rmdir(self.dir)
        r = sh(f"git -C /repo worktree add -q --detach {self.dir} HEAD")
        if r.returncode:
            raise RuntimeError(r.stderr)
        if self.patch:
            r = sh(f"git -C {self.dir} apply --3way {self.patch} || git -C {self.dir} apply {self.patch}")
            if r.returncode:
                raise RuntimeError("patch does not apply: " + r.stderr[-2000:])
        return self.dir

    def __exit__(self, *a):
        sh(f"git -C /repo worktree remove --force {self.dir}")
        shutil.rmtree(self.dir, ignore_errors=True)
        sh("git -C /repo worktree prune")


def run_demo(wt, demo):
    env = dict(os.environ, PYTHONPATH=wt, TQDM_DISABLE="1", PYTHONWARNINGS="ignore")
    r = subprocess.run(["/venv/bin/python", demo], cwd=wt, env=env, capture_output=True, text=True, timeout=1200)
    return r.returncode, (r.stdout + r.stderr)[-1500:]


def verify(sid, suite=False):
    d = os.path.join(SEEDED, sid)
    out = {}
    with Worktree() as wt:
        rc, txt = run_demo(wt, os.path.join(d, "demo.py"))
        out["demo_clean_rc"] = rc
        out["demo_clean_tail"] = txt[-300:]
    with Worktree(os.path.join(d, "patch.diff")) as wt:
        rc, txt = run_demo(wt, os.path.join(d, "demo.py"))
        out["demo_patched_rc"] = rc
        out["demo_patched_tail"] = txt[-300:]
        if suite:
            r = sh(f"{ROOT}/tools/suite.py {wt} -n 12")
            out["suite"] = r.stdout.strip().splitlines()[-3:]
            out["suite_ok"] = r.returncode == 0
    out["ok"] = out["demo_clean_rc"] == 0 and out["demo_patched_rc"] != 0 and out.get("suite_ok", True)
    return out


def run_checks(sid, checks, tier="quick", workers=None):
    d = os.path.join(SEEDED, sid)
    res = {}
    with Worktree(os.path.join(d, "patch.diff")) as wt:
        for c in checks:
            env = dict(os.environ, VP_REPO=wt)
            cmd = [os.path.join(ROOT, "check"), c, "--tier", tier, "--no-evidence"]
            if workers:
                cmd += ["--workers", str(workers)]
            r = subprocess.run(cmd, cwd=ROOT, env=env, capture_output=True, text=True)
            lines = [l for l in r.stdout.splitlines() if l.startswith("VIOLATION") or l.startswith("HARNESS")]
            first = ""
            sl = r.stdout.splitlines()
            for i, l in enumerate(sl):
                if l.startswith("VIOLATION") and i + 1 < len(sl):
                    first = sl[i + 1].strip()[:300]
                    break
            res[c] = {"rc": r.returncode, "violations": len([l for l in lines if l.startswith("VIOLATION")]),
                      "caught": r.returncode == 1, "first": first,
                      "harness_error": r.returncode not in (0, 1)}
    return res


def main():
    a = sys.argv[1:]
    if a[0] == "add":
        sid, src = a[1], a[2]
        d = os.path.join(SEEDED, sid)
        os.makedirs(d, exist_ok=True)
        for f in ("patch.diff", "demo.py", "meta.json"):
            shutil.copy(os.path.join(src, f), os.path.join(d, f))
        print("added", d)
    elif a[0] == "verify":
        out = verify(a[1], "--suite" in a)
        print(json.dumps(out, indent=1))
        p = os.path.join(SEEDED, a[1], "verified.json")
        json.dump(out, open(p, "w"), indent=1)
        sys.exit(0 if out["ok"] else 1)
    elif a[0] == "run":
        sid = a[1]
        meta = json.load(open(os.path.join(SEEDED, sid, "meta.json")))
        checks = a[2:] or [meta["property"]]
        res = run_checks(sid, checks)
        p = os.path.join(SEEDED, sid, "result.json")
        old = json.load(open(p)) if os.path.exists(p) else {}
        old.update(res)
        json.dump(old, open(p, "w"), indent=1)
        print(sid, json.dumps(res, indent=1))
    elif a[0] == "runall":
        for sid in sorted(os.listdir(SEEDED)):
            mp = os.path.join(SEEDED, sid, "meta.json")
            if not os.path.exists(mp):
                continue
            meta = json.load(open(mp))
            res = run_checks(sid, [meta["property"]])
            p = os.path.join(SEEDED, sid, "result.json")
            old = json.load(open(p)) if os.path.exists(p) else {}
            old.update(res)
            json.dump(old, open(p, "w"), indent=1)
            print(sid, {k: ("CAUGHT" if v["caught"] else ("HARNESS-ERR" if v["harness_error"] else "missed")) for k, v in res.items()})


if __name__ == "__main__":
    main()
