#!/venv/bin/python
"""Run the repository's test-suite (guard off) and compare with BASELINE.json stable_pass.
usage: suite.py [repo_dir] [-n workers]"""
import json, os, subprocess, sys, tempfile, xml.etree.ElementTree as ET
repo = sys.argv[1] if len(sys.argv) > 1 and not sys.argv[1].startswith("-") else "/repo"
n = "0"
if "-n" in sys.argv: n = sys.argv[sys.argv.index("-n") + 1]
out = tempfile.mktemp(suffix=".xml", dir="/var/tmp")
env = {k: v for k, v in os.environ.items() if k != "PYXEL_VERIF"}
cmd = ["/venv/bin/python", "-m", "pytest", "-q", "-p", "no:cacheprovider", "--timeout=900",
       "--continue-on-collection-errors", f"--junitxml={out}"]
if n != "0": cmd += ["-n", n]
def runs():
    out = set()
    for d in ("None", "output", "outputs"):
        dd = os.path.join(repo, d)
        if os.path.isdir(dd): out |= {os.path.join(dd, x) for x in os.listdir(dd)}
    return out
before = runs()
r = subprocess.run(cmd, cwd=repo, env=env, capture_output=True, text=True)
print(r.stdout.strip().splitlines()[-1] if r.stdout.strip() else r.stderr[-2000:])
passed = set()
for tc in ET.parse(out).getroot().iter("testcase"):
    if not any(c.tag in ("failure", "error", "skipped") for c in tc):
        passed.add(f"{tc.get('classname')}::{tc.get('name')}")
os.remove(out)
base = json.load(open("/root/.vp/BASELINE.json"))
missing = sorted(set(base["stable_pass"]) - passed)
print(f"stable_pass={len(base['stable_pass'])} passed_now={len(passed)} missing={len(missing)}")
for m in missing[:40]: print("  MISSING", m)
# clean run dirs created by the suite
import shutil
for pth in runs() - before: shutil.rmtree(pth, ignore_errors=True)
sys.exit(1 if missing else 0)
