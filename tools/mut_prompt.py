import sys, json
pid = sys.argv[1]; wt = sys.argv[2]
for l in open('/verif/properties.jsonl'):
    d = json.loads(l)
    if d['id'] == pid: break
print(f"""You are a software-testing expert producing *seeded defects* for a mutation study of the Python project Pyxel (ESA's detector simulation framework). You work ONLY inside your own scratch git worktree {wt} (a checkout of the repository). Do not read or write anything under /repo or /verif; never commit.

Python: /venv/bin/python (pyxel's dependencies are installed). To import the worktree's code use `cd {wt}` and run python from there, or set PYTHONPATH={wt}. Always use timeouts (e.g. `timeout 900 ...`). The environment has no network.

PROPERTY {pid} - {d['title']}
Statement: {d['statement']}
Quantified over: {d['quantifier']['text']}
Code areas involved: {', '.join(d['anchors']['files'])}

TASK: produce TWO different, independent, realistic changes to the library source (under {wt}/pyxel) - the kind of bug a plausible refactoring, optimisation or "cleanup" would introduce - each of which BREAKS the property above while the code still imports and the repository's existing test-suite still passes exactly as before. Each change must need something SPECIFIC to manifest - a particular interleaving, a fault at a particular point, a multi-step sequence of operations, an unusual input/configuration, or two cooperating sites that each look fine alone - not something that ordinary use or any simple example would expose at once. Prefer changes in shared mutable state, cursor/offset/index arithmetic, ordering, caching, copy-vs-alias, guards dropped on one path only. Do not make cosmetic-only or crash-on-import changes, and do not touch the tests.

For EACH of the two changes (work on one at a time, starting each from a clean tree: `git -C {wt} checkout -- .`):
 1. Make the edit. Write a demonstration program demo.py (plain python script, exit code 0 = property holds, non-zero = violated, printing what it observed) that FAILS with your change and PASSES on the clean tree. Verify both. Do NOT use `git stash` (the stash is shared between worktrees of this repository and other people use them concurrently): save `git diff -- pyxel > /tmp/<your-own-name>.diff`, `git checkout -- .`, run, then `git apply` the diff again.
 2. Verify the existing suite is unaffected: run `cd {wt} && timeout 3000 /venv/bin/python -m pytest -q -p no:cacheprovider -n 6 --timeout=900 tests 2>&1 | tail -5` on the changed tree. On the clean tree the expected summary is `41 failed, 1969 passed` (the 41 failures are pre-existing and unrelated: missing optional packages / network). Your change must give the same counts. If it does not, refine the change.
 3. Save into {wt}/OUT/<n>/ (n = 1, 2): `patch.diff` (output of `git -C {wt} diff -- pyxel`), `demo.py`, and `meta.json` with keys: property ("{pid}"), title (one line), what_it_needs_to_manifest (the specific input/sequence/schedule needed), why_tests_still_pass, commands_run (list), suite_summary_with_change (the pytest tail line).
 4. Restore the clean tree (`git -C {wt} checkout -- .`; keep OUT/ which is untracked).

Final answer: a short list of the two changes (files touched, what manifests them) and confirmation that demo.py fails with / passes without each and the suite summary. Remove run_* output folders the test-suite created inside {wt} if any are tracked as modifications (they are normally ignored).""")
