#!/venv/bin/python
"""Regenerate DETECTION.md (seeded changes) and the generated block of DESIGN.md section 5 (defect dispositions)
from known_findings.json and seeded/*/{meta,verified,result}.json."""
import json, os, re, glob
ROOT = os.path.dirname(os.path.dirname(os.path.abspath(__file__)))
kf = json.load(open(os.path.join(ROOT, "known_findings.json")))["entries"]
rows = ["| property | disposition | commit / id | what failed on the pinned tree |", "|---|---|---|---|"]
for e in sorted(kf, key=lambda e: (e["property"], e["kind"])):
    what = e["what"]
    if e["kind"] == "fixed":
        what = re.sub(r"^fixed: property=\S+ \S+ ", "", what)
        rows.append(f"| {e['property']} | fixed (`fix:` commit) | `{e['commit']}` | {what} |")
    else:
        rows.append(f"| {e['property']} | **known finding** (recorded, not repaired) | `{e['id']}` match `{json.dumps(e['match'])}` | {what} |")
block = "\n".join(rows)
p = os.path.join(ROOT, "DESIGN.md")
s = open(p).read()
a, b = "<!-- BEGIN GENERATED DISPOSITIONS -->", "<!-- END GENERATED DISPOSITIONS -->"
if a in s:
    s = s[: s.index(a) + len(a)] + "\n" + block + "\n" + s[s.index(b):]
    open(p, "w").write(s)
# as-built table per property (from the modules and the committed quick-tier evidence)
import importlib, sys
sys.path.insert(0, ROOT)
rows2 = ["| property | engine | level | quick tier coverage (committed evidence) | technique |", "|---|---|---|---|---|"]
for mp in sorted(glob.glob(os.path.join(ROOT, "props", "c*.py"))):
    try:
        m = importlib.import_module("props." + os.path.basename(mp)[:-3])
    except Exception as e:
        continue
    ev = {}
    ep = os.path.join(ROOT, "evidence", f"{m.ID}.json")
    if os.path.exists(ep):
        ev = json.load(open(ep)).get("coverage", {})
    keys = ("states", "transitions", "schedules", "evaluations", "cases", "distinct_nontrivial", "file_cases", "fault_sites")
    cov = ", ".join(f"{k}={ev[k]}" for k in keys if k in ev)
    rows2.append(f"| {m.ID} | {m.ENGINE} | {m.LEVEL} | {cov} | {m.TECHNIQUE[:300]} |")
a2, b2 = "<!-- BEGIN GENERATED ASBUILT -->", "<!-- END GENERATED ASBUILT -->"
s_ = open(p).read()
if a2 in s_:
    s_ = s_[: s_.index(a2) + len(a2)] + "\n" + "\n".join(rows2) + "\n" + s_[s_.index(b2):]
    open(p, "w").write(s_)
# DETECTION.md
out = ["# Seeded breaking changes and what the checks do with them", "",
       "Each change was written by an independent sub-agent that saw only the text of one property and its own scratch",
       "worktree of the repository; each keeps the repository's test-suite green (1969 stable tests pass) and comes with a",
       "demonstration that fails with the change and passes without it (`seeded/<id>/verified.json`). `tools/seeded.py run <id>`",
       "applies the patch in a scratch worktree and runs the property's quick check against it (`VP_REPO`).", "",
       "| id | property | what it needs to manifest | verdict of the check | first violation reported |", "|---|---|---|---|---|"]
n_c = n_m = 0
for d in sorted(glob.glob(os.path.join(ROOT, "seeded", "*"))):
    sid = os.path.basename(d)
    try:
        meta = json.load(open(os.path.join(d, "meta.json")))
    except Exception:
        continue
    res = json.load(open(os.path.join(d, "result.json"))) if os.path.exists(os.path.join(d, "result.json")) else {}
    prop = meta.get("property", sid[:3])
    r = res.get(prop, {})
    verdict = "CAUGHT" if r.get("caught") else ("harness error" if r.get("harness_error") else ("missed" if r else "not run"))
    others = sorted(k for k, v in res.items() if k != prop and v.get("caught"))
    if verdict == "missed" and others:
        verdict = "CAUGHT by " + "+".join(others)
        r = res[others[0]]
        n_c += 1
    n_c += verdict == "CAUGHT"; n_m += verdict == "missed"
    needs = str(meta.get("what_it_needs_to_manifest", meta.get("title", ""))).replace("\n", " ").replace("|", "/")[:260]
    first = str(r.get("first", "")).replace("|", "/").replace("\n", " ")[:160]
    note = ""
    np_ = os.path.join(d, "note.txt")
    if os.path.exists(np_):
        note = " - " + open(np_).read().strip().replace("\n", " ")
    out.append(f"| {sid} | {prop} | {needs} | {verdict}{note} | {first} |")
out += ["", f"Totals: {n_c} caught, {n_m} missed (see notes)."]
open(os.path.join(ROOT, "DETECTION.md"), "w").write("\n".join(out) + "\n")
print("DETECTION.md:", n_c, "caught,", n_m, "missed")
