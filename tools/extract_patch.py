#!/usr/bin/env python3
"""extract the ```diff blocks of a findings_proposed/*.md file into a patch file; usage: extract_patch.py name"""
import re, sys
name = sys.argv[1]
txt = open(f"/verif/findings_proposed/{name}.md").read()
ms = re.findall(r"```diff\n(.*?)```", txt, re.S)
open(f"/tmp/{name}.diff", "w").write("".join(ms))
print(len(ms), "diff block(s) ->", f"/tmp/{name}.diff")
