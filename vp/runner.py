"""Check runner: shards a property module's bounded enumeration over fresh worker
interpreters, aggregates coverage counters, matches violations against the committed
known-findings file, confirms every new violation by replaying it in a fresh process,
writes replay artefacts and the evidence file, and prints the interface lines.

Property module interface (props/cXX.py)
----------------------------------------
ID, LEVEL                      property id and evidence level
ENV (optional)                 environment variables for the workers
TIMEOUT (optional)             per-shard watchdog in seconds (default 600)
shards(tier, seed) -> list     JSON-able shard descriptions; each shard is a slice of the
                               enumeration that a worker executes completely
run_shard(shard) -> dict       {"violations": [{"key": {...}, "what": str, "case": {...}}],
                                "counts": {name: int}, "sets": {name: [str, ...]},
                                "samples": [...]}
replay(case) -> list           violations of that single case (same format)
coverage(tier, seed, agg)      coverage dict for the evidence file from aggregated counters
"""

from __future__ import annotations

import hashlib
import importlib
import json
import os
import queue
import subprocess
import sys
import threading
import time
from pathlib import Path

ROOT = Path(__file__).resolve().parent.parent
PY = "/venv/bin/python"
MAX_REPORT = 12          # VIOLATION lines printed per run (all are counted)
MAX_CONFIRM = 6          # violations confirmed by fresh-process replay per distinct key class


def load_module(pid: str):
    pid = pid.upper()
    for p in sorted((ROOT / "props").glob("c*.py")):
        if p.stem.upper().startswith(pid):
            return importlib.import_module(f"props.{p.stem}")
    raise SystemExit(f"no property module for {pid}")


def base_env(mod) -> dict:
    env = dict(os.environ)
    env["PYTHONHASHSEED"] = "0"
    env["PYTHONPATH"] = f"{ROOT}:{os.environ.get('VP_REPO', '/repo')}" + (":" + env["PYTHONPATH"] if env.get("PYTHONPATH") else "")
    env["PYXEL_VERIF"] = "1"
    env["PYTHONWARNINGS"] = "ignore"
    env["OMP_NUM_THREADS"] = "1"
    env["OPENBLAS_NUM_THREADS"] = "1"
    env["MKL_NUM_THREADS"] = "1"
    env["NUMBA_NUM_THREADS"] = "1"
    env.setdefault("NUMBA_CACHE_DIR", "/var/tmp/vp_numba_cache")
    env["TQDM_DISABLE"] = "1"
    for k, v in getattr(mod, "ENV", {}).items():
        env[k] = str(v)
    return env


class Worker:
    """One fresh interpreter speaking JSON lines over a private pipe."""

    def __init__(self, modname: str, env: dict):
        self.modname, self.env = modname, env
        self.proc = None

    def start(self):
        self.proc = subprocess.Popen(
            [PY, "-m", "vp.worker", self.modname],
            stdin=subprocess.PIPE, stdout=subprocess.PIPE, stderr=subprocess.PIPE,
            env=self.env, cwd=str(ROOT), text=True, bufsize=1,
        )
        self._err = []
        t = threading.Thread(target=self._drain, daemon=True)
        t.start()

    def _drain(self):
        for line in self.proc.stderr:
            self._err.append(line)
            if len(self._err) > 400:
                del self._err[:200]

    def call(self, msg: dict, timeout: float):
        if self.proc is None or self.proc.poll() is not None:
            self.start()
        self.proc.stdin.write(json.dumps(msg) + "\n")
        self.proc.stdin.flush()
        out: list = []

        def rd():
            out.append(self.proc.stdout.readline())

        t = threading.Thread(target=rd, daemon=True)
        t.start()
        t.join(timeout)
        if t.is_alive() or not out or not out[0]:
            err = "".join(self._err[-60:])
            why = "timeout" if t.is_alive() else "worker died"
            self.kill()
            return {"harness_error": f"{why} after {timeout}s on {json.dumps(msg)[:400]}\n{err}"}
        return json.loads(out[0])

    def kill(self):
        if self.proc is not None:
            try:
                self.proc.kill()
                self.proc.wait(5)
            except Exception:
                pass
            self.proc = None

    def close(self):
        if self.proc is not None and self.proc.poll() is None:
            try:
                self.proc.stdin.close()
                self.proc.wait(10)
            except Exception:
                self.kill()
        self.proc = None


def run_pool(mod, msgs: list, nworkers: int, timeout: float, recycle: int = 0):
    env = base_env(mod)
    q: queue.Queue = queue.Queue()
    for i, m in enumerate(msgs):
        q.put((i, m))
    results = [None] * len(msgs)

    def loop():
        w = Worker(mod.__name__, env)
        n = 0
        while True:
            try:
                i, m = q.get_nowait()
            except queue.Empty:
                break
            results[i] = w.call(m, timeout)
            n += 1
            if recycle and n % recycle == 0:
                w.close()
        w.close()

    ths = [threading.Thread(target=loop) for _ in range(max(1, min(nworkers, len(msgs))))]
    for t in ths:
        t.start()
    for t in ths:
        t.join()
    return results


def load_known(pid: str):
    p = ROOT / "known_findings.json"
    if not p.exists():
        return []
    data = json.loads(p.read_text())
    return [e for e in data.get("entries", []) if e.get("property") == pid and e.get("kind") == "finding"]


def match_known(known: list, key: dict):
    for e in known:
        m = e.get("match", {})
        if all(key.get(k) == v for k, v in m.items()):
            return e
    return None


def keyhash(obj) -> str:
    return hashlib.sha1(json.dumps(obj, sort_keys=True, default=str).encode()).hexdigest()[:12]


def write_evidence(mod, tier, seed, coverage, wall, nviol, assumptions):
    ev = {
        "property_id": mod.ID,
        "tier": tier,
        "seed": int(seed),
        "level": mod.LEVEL,
        "coverage": coverage,
        "assumptions": assumptions,
        "wall_s": round(wall, 2),
        "violations": int(nviol),
    }
    d = ROOT / "evidence"
    d.mkdir(exist_ok=True)
    tmp = d / f".{mod.ID}.json.tmp"
    tmp.write_text(json.dumps(ev, indent=1, default=str) + "\n")
    os.replace(tmp, d / f"{mod.ID}.json")
    return ev


def main(argv=None):
    import argparse

    ap = argparse.ArgumentParser()
    ap.add_argument("prop")
    ap.add_argument("--tier", default=os.environ.get("VERIF_TIER", "quick"), choices=["quick", "thorough"])
    ap.add_argument("--replay")
    ap.add_argument("--workers", type=int, default=int(os.environ.get("VERIF_WORKERS", os.cpu_count() or 4)))
    ap.add_argument("--seed", type=int, default=None)
    ap.add_argument("--no-evidence", action="store_true")
    args = ap.parse_args(argv)
    seed = args.seed if args.seed is not None else int(os.environ.get("VERIF_SEED", "0") or 0)

    sys.path.insert(0, str(ROOT))
    mod = load_module(args.prop)
    known = load_known(mod.ID)

    if args.replay:
        art = json.loads(Path(args.replay).read_text())
        res = run_pool(mod, [{"op": "replay", "case": art["case"]}], 1, getattr(mod, "TIMEOUT", 600))[0]
        if "harness_error" in res:
            print("HARNESS-ERROR", res["harness_error"])
            return 2
        vs = res.get("violations", [])
        rc = 0
        for v in vs:
            e = match_known(known, v["key"])
            if e:
                print(f"KNOWN-FINDING: property={mod.ID} {e['what']}")
            else:
                print(f"VIOLATION property={mod.ID} replay={args.replay}")
                print("  " + v["what"])
                rc = 1
        if not vs:
            print(f"replay: no violation reproduced for {args.replay}")
        return rc

    t0 = time.time()
    shards = mod.shards(args.tier, seed)
    msgs = [{"op": "shard", "shard": s} for s in shards]
    results = run_pool(mod, msgs, args.workers, getattr(mod, "TIMEOUT", 600), getattr(mod, "RECYCLE", 0))

    agg_counts: dict = {}
    agg_sets: dict = {}
    samples: list = []
    violations: list = []
    harness_errors: list = []
    for s, r in zip(shards, results):
        if r is None or "harness_error" in r:
            harness_errors.append((s, (r or {}).get("harness_error", "no result")))
            continue
        for k, v in r.get("counts", {}).items():
            agg_counts[k] = agg_counts.get(k, 0) + v
        for k, v in r.get("sets", {}).items():
            agg_sets.setdefault(k, set()).update(v)
        for smp in r.get("samples", []):
            if len(samples) < 12:
                samples.append(smp)
        violations.extend(r.get("violations", []))

    # known findings / new violations
    known_hit: dict = {}
    fresh: dict = {}
    for v in violations:
        e = match_known(known, v["key"])
        if e is not None:
            known_hit.setdefault(e["id"], [e, 0])[1] += 1
        else:
            fresh.setdefault(keyhash(v["key"]), v)

    rc = 0
    for eid, (e, n) in sorted(known_hit.items()):
        print(f"KNOWN-FINDING: property={mod.ID} {e['what']} [{eid}; {n} case(s) this run]")

    confirmed = []
    if fresh:
        todo = list(fresh.items())
        conf_msgs = [{"op": "replay", "case": v["case"]} for _, v in todo[:MAX_CONFIRM]]
        conf = run_pool(mod, conf_msgs, min(args.workers, len(conf_msgs)), getattr(mod, "TIMEOUT", 600))
        (ROOT / "replays" / mod.ID).mkdir(parents=True, exist_ok=True)
        for idx, (h, v) in enumerate(todo):
            if idx < MAX_CONFIRM:
                r = conf[idx]
                again = [x for x in r.get("violations", []) if keyhash(x["key"]) == h] if "harness_error" not in r else []
                if not again:
                    harness_errors.append((v["case"], "violation did not reproduce in a fresh process: " + v["what"]
                                           + " :: " + str(r.get("harness_error", ""))[:500]))
                    continue
            path = ROOT / "replays" / mod.ID / f"{h}.json"
            path.write_text(json.dumps({"property": mod.ID, "module": mod.__name__, "key": v["key"],
                                        "what": v["what"], "case": v["case"]}, indent=1, default=str) + "\n")
            confirmed.append((path, v))
        for path, v in confirmed[:MAX_REPORT]:
            print(f"VIOLATION property={mod.ID} replay={path}")
            print("  " + v["what"][:600])
        if len(confirmed) > MAX_REPORT:
            print(f"  ... and {len(confirmed) - MAX_REPORT} more distinct violations (replays written)")
        if confirmed:
            rc = 1

    agg = {"counts": agg_counts, "sets": {k: sorted(v) for k, v in agg_sets.items()}, "samples": samples,
           "shards": len(shards)}
    cov = mod.coverage(args.tier, seed, agg)
    cov.setdefault("samples", samples[:6] or [{"note": "no sample recorded"}])
    cov["shards"] = len(shards)
    cov["known_findings_hit"] = {eid: n for eid, (e, n) in known_hit.items()}
    cov["harness_errors"] = len(harness_errors)
    wall = time.time() - t0
    if not args.no_evidence:
        write_evidence(mod, args.tier, seed, cov, wall, len(confirmed), getattr(mod, "ASSUMPTIONS", []))

    brief = {k: v for k, v in cov.items() if isinstance(v, (int, float, bool, str)) and k != "rule"}
    print(f"{mod.ID} tier={args.tier} seed={seed} wall={wall:.1f}s " + " ".join(f"{k}={v}" for k, v in brief.items()))
    if harness_errors:
        for s, msg in harness_errors[:5]:
            print("HARNESS-ERROR", json.dumps(s, default=str)[:300], "\n", msg[-3000:])
        return 2 if rc == 0 else rc
    return rc


if __name__ == "__main__":
    sys.exit(main())
