"""Probe models for the parameter-space / isolation / dotted-key checks (C05, C06, C08).

Referenced from generated pipelines as `func: vp.cprobes.<name>`.  They append to the shared
per-process trace `vp.probes.TRACE` (so `vp.probes.reset()` clears everything) and honour the
shared fault plan `vp.probes.FAULT` (extended here by value-triggered faults, see `_poison`).
"""
from __future__ import annotations

import numpy as np

from vp import probes

NCELL = 6          # cells used per slot: a, b, len(v), v0, v1, v2


def _poison(detector, name, a):
    """Value-triggered fault: FAULT = {"poison_model": name, "poison_a": value, "exc": .., "msg": ..}."""
    f = probes.FAULT
    if f and f.get("poison_model") == name and float(f.get("poison_a")) == float(a):
        raise probes.make_exc(f.get("exc", "ValueError"), f.get("msg", "BOOM-PROBE"))


def enc(detector, slot=0, a=0.0, b=0.0, v=None):
    """Write the received arguments (slot 0 -> pixel, slot 1 -> signal) and, for slot 0, the two swept
    detector fields (-> photon) into the buckets: cells [a, b, len(v), v0, v1, v2] in C order."""
    name = detector.current_running_model_name
    vv = [float(x) for x in v] if v is not None else []
    temp = float(detector.environment.temperature)
    qe = float(detector.characteristics.quantum_efficiency)
    shape = detector.geometry.shape
    code = np.zeros(shape, dtype=float)
    flat = [float(a), float(b), float(len(vv))] + vv
    if len(flat) > code.size:
        raise RuntimeError("probe enc: detector too small for the encoding")
    for i, x in enumerate(flat):
        code.flat[i] = x
    if int(slot) == 0:
        detector.pixel.array = code
        ph = np.zeros(shape, dtype=float)
        ph.flat[0] = temp
        ph.flat[1] = qe
        detector.photon.array = ph
    else:
        detector.signal.array = code
    probes.TRACE.append({"name": name, "slot": int(slot),
                         "seen": {"a": float(a), "b": float(b), "v": vv, "temperature": temp, "qe": qe},
                         "det": id(detector), "step": int(detector.pipeline_count)})
    _poison(detector, name, a)


def decode_slot(arr):
    """Inverse of the cell layout of `enc` for one 2-D array -> {"a":, "b":, "v": [...]}."""
    flat = np.asarray(arr, dtype=float).ravel()
    n = int(round(float(flat[2])))
    return {"a": float(flat[0]), "b": float(flat[1]), "v": [float(x) for x in flat[3:3 + n]]}


def mem(detector, inc=1.0, lst=None, dct=None):
    """A model that keeps memory on the detector (`_memory`: a counter, a history list and a trapped-charge-like
    array updated *in place*; the trapped charge of `detector.persistence` if present, also in place) and mutates
    its own mutable arguments (appends to `lst` - or, for a nested list, changes an inner row in place, for an array
    doubles it in place - and counts in `dct`).  The values it writes into `pixel` and `signal`
    depend on all of that, so any leak of state between runs or into the caller's objects is visible in the result."""
    name = detector.current_running_model_name
    m = detector._memory
    m["count"] = m.get("count", 0) + 1
    m.setdefault("hist", []).append(float(inc))
    shape = detector.geometry.shape
    if m.get("trapped") is None:
        m["trapped"] = np.zeros(shape, dtype=float)
    m["trapped"] += float(inc)                       # in place, like a real persistence model may do
    pers = 0.0
    if detector.has_persistence():
        arr = detector.persistence.trapped_charge_array
        arr += float(inc) * 0.5                      # in place
        pers = float(arr.sum())
    if isinstance(lst, np.ndarray):
        seen = [float(x) for x in lst.ravel()]       # what this call received ...
        lst *= 2.0                                   # ... then the array argument is changed in place
        lst = seen
    elif lst is not None and len(lst) and isinstance(lst[0], (list, tuple)):
        seen = [float(x) for row in lst for x in row]
        if isinstance(lst[0], list):
            lst[0][0] = 2.0 * lst[0][0] + float(inc)  # an inner row of a nested list changed in place
        lst = seen
    elif lst is not None:
        lst.append(float(inc) + len(lst))
    if dct is not None:
        dct["n"] = dct.get("n", 0) + 1
        dct.setdefault("log", []).append(float(inc))
    val = (float(inc) * m["count"] + 100.0 * (float(np.sum(lst)) if lst is not None else 0.0)
           + 10000.0 * (dct["n"] + len(dct["log"]) if dct is not None else 0) + 0.001 * float(np.sum(m["hist"])))
    base = detector.pixel.array if detector.pixel._array is not None else np.zeros(shape)
    detector.pixel.array = np.asarray(base, dtype=float) + val + m["trapped"] * 1e-3
    detector.signal.array = np.full(shape, float(len(m["hist"])) + 0.5 * float(m["trapped"].flat[0]) + pers * 1e-3)
    probes.TRACE.append({"name": name, "seen": {"inc": float(inc), "count": int(m["count"]),
                                                "lst": None if lst is None else len(lst),
                                                "dct": None if dct is None else int(dct["n"])},
                         "det": id(detector), "step": int(detector.pipeline_count)})
    _poison(detector, name, inc)


def plain(detector, **kw):
    """Accepts any keyword arguments, records them (typed) and writes nothing."""
    name = detector.current_running_model_name
    probes.TRACE.append({"name": name, "kw": probes.tagged(kw), "det": id(detector),
                         "step": int(detector.pipeline_count)})
