"""Helpers to read the result DataTree of an Observation generically: locate the dataset holding the buckets,
find the coordinate that labels a swept key, and select the entry labelled with given values (product mode) or
with a run index (sequential / custom mode).  Nothing here depends on positions of dimensions."""
from __future__ import annotations

import numpy as np

CORE_DIMS = ("time", "y", "x")


class Problem(Exception):
    def __init__(self, code, text):
        super().__init__(text)
        self.code, self.text = code, text


def bucket_dataset(result, var="pixel"):
    """The dataset that holds the bucket variables with all (inherited) coordinates."""
    for path in ("/bucket", "/"):
        try:
            node = result[path]
        except Exception:  # noqa: BLE001
            continue
        if var in getattr(node, "data_vars", {}):
            try:
                return node.to_dataset(inherit=True)
            except TypeError:
                return node.to_dataset()
    raise Problem("no-data", f"result has no {var!r} variable in / or /bucket")


def coord_candidates(key, enabled_keys):
    """Names under which the value labels of `key` may be stored: the short name (unless two swept keys share
    it), `<model>.<argument>`, the full key."""
    short = key.split(".")[-1]
    shorts = [k.split(".")[-1] for k in enabled_keys]
    cands = []
    if shorts.count(short) == 1:
        cands.append(short)
    parts = key.split(".")
    if parts[0] == "pipeline" and len(parts) == 5:
        cands.append(f"{parts[2]}.{parts[4]}")
    cands.append(key)
    return cands


def coord_name(ds, key, enabled_keys):
    return next((c for c in coord_candidates(key, enabled_keys) if c in ds.coords), None)


def label_equal(label, value):
    """value: float or tuple of floats"""
    try:
        if isinstance(value, tuple):
            lab = tuple(float(x) for x in (label.tolist() if isinstance(label, np.ndarray) else label))
            while len(lab) > len(value) and lab[-1] != lab[-1]:
                lab = lab[:-1]          # vectors of different lengths share one axis: the shorter ones are NaN-padded
            return lab == value
        if isinstance(label, np.ndarray):
            if label.size != 1:
                return False
            label = label.ravel()[0]
        return float(label) == value
    except Exception:  # noqa: BLE001
        return False


def positions_of(ds, name, value):
    """(dimension, [positions]) of the entries whose coordinate `name` carries the label `value`."""
    c = ds.coords[name]
    if c.ndim == 0:
        raise Problem("label-layout", f"coordinate {name!r} is a scalar")
    dim = c.dims[0]
    if c.dtype == object and c.ndim == 1:
        vals = list(c.values)
        return dim, [i for i, lab in enumerate(vals) if label_equal(lab, value)]
    arr = c.values
    return dim, [i for i in range(arr.shape[0]) if label_equal(arr[i], value)]


def run_dim_of(ds, var="pixel"):
    extra = [d for d in ds[var].dims if d not in CORE_DIMS]
    if len(extra) != 1:
        raise Problem("label-layout", f"expected one run dimension, result has dimensions {extra}")
    return extra[0]


def select_by_labels(ds, key_values, enabled_keys):
    """Product mode: select the single entry labelled with `key_values` ({key: float | tuple})."""
    sel = ds
    for key, val in key_values.items():
        name = coord_name(ds, key, enabled_keys)
        if name is None:
            raise Problem("label-missing", f"no coordinate for swept key {key!r} (looked for "
                          f"{coord_candidates(key, enabled_keys)}) in {list(ds.coords)}")
        dim, pos = positions_of(sel, name, val)
        if len(pos) != 1:
            raise Problem("label-count", f"{len(pos)} entries carry the label {name}={val} "
                          f"(labels: {sel.coords[name].values.tolist()})")
        sel = sel.isel({dim: pos})
    return sel


def select_by_index(ds, i, var="pixel"):
    """Sequential / custom mode: select the entry with run index i."""
    rd = run_dim_of(ds, var)
    n = ds[var].sizes[rd]
    ids = ds.coords[rd].values.tolist() if rd in ds.coords else list(range(n))
    pos = [p for p, lab in enumerate(ids) if lab == i]
    if len(pos) != 1:
        raise Problem("label-count", f"{len(pos)} entries carry the run index {i} (indices: {ids})")
    return ds.isel({rd: pos}), rd


def entry_arrays(ds_sel, variables=("pixel", "signal", "photon")):
    """{var: ndarray of dims (time, y, x)} of a selection that holds one entry."""
    out = {}
    for var in variables:
        da = ds_sel[var]
        extra = [d for d in da.dims if d not in CORE_DIMS]
        for d in extra:
            if da.sizes[d] != 1:
                raise Problem("entries", f"after selecting by all labels, dimension {d!r} still has {da.sizes[d]} entries")
        da = da.squeeze(extra, drop=True) if extra else da
        arr = np.asarray(da.transpose("time", "y", "x").values)
        if arr.dtype.kind == "f" and np.isnan(arr).any():
            raise Problem("entry-missing", f"the selected entry of {var!r} holds NaN (no run stored there)")
        out[var] = arr
    return out
