"""Monkey-patch seams installed only inside worker processes (nothing in /repo is edited)."""
from __future__ import annotations

import numpy as np

_RNG_NAMES = ("seed", "get_state", "set_state", "normal", "poisson", "binomial", "uniform", "random",
              "standard_normal", "randint", "choice", "rand", "randn", "exponential", "gamma", "lognormal")
_ORIG = {}
RNG_HOOK = None           # callable(label) or None
RNG_COUNT = {"draws": 0}


def install_rng_seam():
    """Wrap the legacy process-wide generator functions of numpy.random (module attributes looked up at
    call time by the library) so that every operation is a scheduling point / countable site."""
    if _ORIG:
        return
    for name in _RNG_NAMES:
        if not hasattr(np.random, name):
            continue
        _ORIG[name] = getattr(np.random, name)

        def mk(name):
            orig = _ORIG[name]

            def w(*a, **k):
                h = RNG_HOOK
                if h is not None:
                    h("rng." + name)
                return orig(*a, **k)

            w.__name__ = name
            w.__wrapped__ = orig
            return w

        setattr(np.random, name, mk(name))


def orig_rng(name):
    return _ORIG.get(name, getattr(np.random, name))


def set_rng_hook(h):
    global RNG_HOOK
    RNG_HOOK = h
