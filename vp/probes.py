"""Probe model functions referenced by generated pipelines as `func: vp.probes.<name>`.

They are ordinary Pyxel models.  Each identifies itself through
`detector.current_running_model_name` (set by ModelFunction.__call__) and appends to the
per-process TRACE.  Call `reset()` before every execution.
"""
from __future__ import annotations

import numpy as np

TRACE: list = []
FAULT: dict = {}          # fault plan: {"name":..., "step":..., "call": n, "exc": "ValueError", "msg": "..."}
CALLS: dict = {}          # per-model-name call counter (for fault plans and C09)
HOOK = None               # optional callable(label) used by schedx as scheduling point


def reset():
    TRACE.clear()
    FAULT.clear()
    CALLS.clear()


def tagged(v):
    """JSON-able representation that keeps the python type of every value."""
    if isinstance(v, dict):
        return {"__dict__": [[tagged(k), tagged(x)] for k, x in v.items()]}
    if isinstance(v, (list, tuple)):
        return {"__" + type(v).__name__ + "__": [tagged(x) for x in v]}
    if isinstance(v, np.ndarray):
        return {"__ndarray__": [v.dtype.str, list(v.shape), v.tolist()]}
    if isinstance(v, (np.generic,)):
        return {"__np__": [type(v).__name__, v.item()]}
    if v is None or isinstance(v, (bool, int, float, str)):
        return {"__" + type(v).__name__ + "__": v}
    return {"__repr__": [type(v).__name__, repr(v)]}


def clock(detector):
    return {
        "step": int(detector.pipeline_count),
        "time": float(detector.time),
        "time_step": float(detector.time_step),
        "absolute_time": float(detector.absolute_time),
        "is_first": bool(detector.is_first_readout),
        "is_last": bool(detector.is_last_readout),
        "num_steps": int(detector.num_steps),
    }


def bucket_state(detector):
    """Snapshot of every bucket: None (empty) | [dtype, shape, values] ; charge: array + nb of clusters."""
    import xarray as xr

    out = {}
    for name in ("photon", "pixel", "signal", "image"):
        a = getattr(detector, name)._array
        if a is None:
            out[name] = None
        elif isinstance(a, xr.DataArray):
            out[name] = ["da:" + a.dtype.str, list(a.shape), a.values.tolist()]
        else:
            out[name] = [a.dtype.str, list(a.shape), a.tolist()]
    ch = detector.charge
    out["charge_array"] = np.asarray(ch._array).tolist()
    out["charge_clusters"] = int(len(ch._frame))
    sc = detector.scene.data
    out["scene_empty"] = bool(sc.is_empty) if hasattr(sc, "is_empty") else None
    out["scene_nodes"] = sorted(n.path for n in sc.subtree if n.path != "/")
    d = detector._data
    out["data_nodes"] = sorted(n.path for n in d.subtree if n.path != "/") if d is not None else None
    return out


def _maybe_fail(detector, name):
    n = CALLS.get(name, 0)
    CALLS[name] = n + 1
    f = FAULT
    if not f:
        return
    if f.get("name") == name and f.get("call", n) == n and f.get("step", detector.pipeline_count) == detector.pipeline_count:
        if f.get("run") is not None and f["run"] != f.get("_current_run"):
            return
        raise make_exc(f.get("exc", "ValueError"), f.get("msg", "BOOM-PROBE"))


class ProbeError(Exception):
    """user defined exception with a mandatory second constructor argument"""

    def __init__(self, msg, code):
        super().__init__(msg)
        self.code = code

    def __reduce__(self):
        return (ProbeError, (self.args[0], self.code))


def make_exc(kind, msg):
    if kind == "ProbeError":
        return ProbeError(msg, 7)
    import builtins

    return getattr(builtins, kind)(msg)


def rec(detector, **kw):
    """Record identity, received keyword arguments and clock."""
    name = detector.current_running_model_name
    if HOOK:
        HOOK("model.in:" + name)
    try:
        env = [float(detector.environment.temperature), float(detector.characteristics.quantum_efficiency)]
    except Exception:  # noqa: BLE001
        env = None
    TRACE.append({"name": name, "kw": tagged(kw), "det": id(detector), "env": env, **clock(detector)})
    _maybe_fail(detector, name)
    if HOOK:
        HOOK("model.out:" + name)


def rec_buckets(detector, **kw):
    """Like rec, additionally snapshots all buckets."""
    name = detector.current_running_model_name
    TRACE.append({"name": name, "kw": tagged(kw), "det": id(detector), **clock(detector),
                  "buckets": bucket_state(detector)})
    _maybe_fail(detector, name)


def value_for(bucket: str, step: int, shape, salt: float = 0.0):
    """Injective deterministic payload v(bucket, step, y, x) (exact in float16 for tiny detectors)."""
    b = {"photon": 1, "charge": 2, "pixel": 3, "signal": 4, "image": 5}[bucket]
    rows, cols = shape
    yy, xx = np.mgrid[0:rows, 0:cols]
    return (b * 64 + step * 16 + yy * cols + xx + 1 + salt).astype("float64")


def write(detector, buckets=("photon", "pixel", "signal", "image"), dtypes=None, salt=0.0, photon3d=False,
          charge_clusters=False, accumulate_pixel=False, image_values=None, scene=False, data=None):
    """Write deterministic values (function of bucket, step and `salt`) into the requested buckets."""
    import xarray as xr

    name = detector.current_running_model_name
    dtypes = dict(dtypes or {})
    shape = detector.geometry.shape
    step = int(detector.pipeline_count)
    for b in buckets:
        v = value_for(b, step, shape, float(salt))
        if b == "photon":
            dt = dtypes.get("photon", "float64")
            if photon3d:
                wl = [500.0, 600.0, 700.0][: int(photon3d) if not isinstance(photon3d, bool) else 2]
                cube = np.stack([v + 1000 * k for k in range(len(wl))]).astype(dt)
                detector.photon.array_3d = xr.DataArray(cube, dims=["wavelength", "y", "x"],
                                                        coords={"wavelength": wl})
            else:
                detector.photon.array = v.astype(dt)
        elif b == "charge":
            if charge_clusters:
                geo = detector.geometry
                rows, cols = shape
                n = rows * cols
                yy, xx = np.mgrid[0:rows, 0:cols]
                detector.charge.add_charge(
                    particle_type="e",
                    particles_per_cluster=v.ravel(),
                    init_energy=np.zeros(n),
                    init_ver_position=(yy.ravel() + 0.5) * geo.pixel_vert_size,
                    init_hor_position=(xx.ravel() + 0.5) * geo.pixel_horz_size,
                    init_z_position=np.zeros(n),
                    init_ver_velocity=np.zeros(n),
                    init_hor_velocity=np.zeros(n),
                    init_z_velocity=np.zeros(n),
                )
            else:
                detector.charge.add_charge_array(v)
        elif b == "pixel":
            dt = dtypes.get("pixel", "float64")
            if accumulate_pixel:
                detector.pixel.array = (detector.pixel.array + v).astype(dt)
            else:
                detector.pixel.array = v.astype(dt)
        elif b == "signal":
            detector.signal.array = v.astype(dtypes.get("signal", "float64"))
        elif b == "image":
            dt = np.dtype(dtypes.get("image", "uint16"))
            if image_values is not None:
                base = np.asarray([int(x) for x in image_values], dtype=object)
                flat = np.array([int(base[(i + step) % len(base)]) for i in range(shape[0] * shape[1])], dtype=object)
                detector.image.array = flat.reshape(shape).astype(dt)
            else:
                detector.image.array = (v % (np.iinfo(dt).max + 1 if dt.itemsize < 8 else 2 ** 62)).astype(dt)
    if scene:
        from astropy.units import Quantity  # noqa: F401
        ds = xr.Dataset(
            {"flux": xr.DataArray(np.arange(6, dtype=float).reshape(2, 3) + step + float(salt),
                                  dims=["ref", "wavelength"])},
            coords={"ref": [0, 1], "wavelength": [500.0, 600.0, 700.0],
                    "x": ("ref", [1.0, 2.0]), "y": ("ref", [3.0, 4.0]), "weight": ("ref", [5.0, 6.0])})
        detector.scene.add_source(ds)
    if data:
        for path in data:
            detector.data[path] = xr.DataArray(np.arange(3, dtype=float) + step + float(salt), dims=["k"])
    TRACE.append({"name": name, "kw": tagged({"salt": salt}), "det": id(detector), **clock(detector),
                  "buckets": bucket_state(detector)})
    _maybe_fail(detector, name)


def fail(detector, **kw):
    name = detector.current_running_model_name
    TRACE.append({"name": name, "kw": tagged(kw), "det": id(detector), **clock(detector)})
    _maybe_fail(detector, name)


def encode(detector, a=0.0, b=0.0, v=(0.0, 0.0), w=None, label=""):
    """Write an injective encoding of the received arguments (and two detector fields) into the buckets."""
    name = detector.current_running_model_name
    if HOOK:
        HOOK("model.in:" + name)
    shape = detector.geometry.shape
    vv = [float(x) for x in (list(v) if v is not None else [])]
    ww = [float(x) for x in (list(w) if w is not None else [])]
    temp = float(detector.environment.temperature)
    qe = float(detector.characteristics.quantum_efficiency)
    code = np.zeros(shape, dtype=float)
    flat = [float(a), float(b), temp, qe] + vv
    for i, x in enumerate(flat[: code.size]):
        code.flat[i] = x
    detector.photon.array = np.abs(code)
    detector.pixel.array = code + float(detector.pipeline_count) * 0.0
    detector.signal.array = np.full(shape, float(a) * 1000.0 + float(b))
    detector.image.array = np.full(shape, int(abs(float(a))) % 60000, dtype=np.uint16)
    TRACE.append({"name": name, "kw": tagged({"a": a, "b": b, "v": v, "w": w, "label": label}),
                  "seen": {"a": float(a), "b": float(b), "v": vv, "w": ww, "temperature": temp, "qe": qe},
                  "det": id(detector), **clock(detector)})
    _maybe_fail(detector, name)
    if HOOK:
        HOOK("model.out:" + name)


def stateful(detector, inc=1.0, lst=None, dct=None):
    """Keeps memory on the detector and mutates its own (mutable) arguments."""
    name = detector.current_running_model_name
    mem = detector._memory
    mem["count"] = mem.get("count", 0) + 1
    mem.setdefault("hist", []).append(float(inc))
    if lst is not None:
        lst.append(len(lst))
    if dct is not None:
        dct["n"] = dct.get("n", 0) + 1
    shape = detector.geometry.shape
    base = detector.pixel.array if detector.pixel._array is not None else np.zeros(shape)
    detector.pixel.array = base + float(inc) * mem["count"] + (len(lst) if lst is not None else 0) * 100.0 \
        + (dct["n"] if dct is not None else 0) * 10000.0
    TRACE.append({"name": name, "kw": tagged({"inc": inc}), "mem": dict(count=mem["count"]),
                  "lst_len": None if lst is None else len(lst), "dct_n": None if dct is None else dct["n"],
                  "det": id(detector), **clock(detector)})
    _maybe_fail(detector, name)


def noisy(detector, a=0.0, sigma=1.0):
    """Draws from the process-wide numpy generator (scheduling points are on the generator seam)."""
    name = detector.current_running_model_name
    if HOOK:
        HOOK("model.in:" + name)
    shape = detector.geometry.shape
    detector.pixel.array = np.full(shape, float(a)) + np.random.normal(0.0, float(sigma), size=shape)
    detector.photon.array = np.abs(np.full(shape, float(a)))
    if HOOK:
        HOOK("model.out:" + name)
