"""Stateless exploration of thread interleavings of the real code under a controlled scheduler.

* Real `threading.Thread`s, but exactly one runs at a time: every controlled thread owns a
  semaphore and runs only while it holds the baton handed out by the coordinator (`Sched.step`).
* Scheduling points are calls of `Sched.point(label)` - installed from outside through seams
  (probe models, the process-wide numpy generator, file-system calls, locks).
* Binding to dask: `dask.config.set(scheduler="threads", pool=ControlledExecutor(sched, k))` plus a
  replacement of `dask.local.queue_get`, so the *real* dask scheduler loop executes the real task
  graph while start order, interleaving and completion order are the explorer's choices.
* `explore(run, bound)`: choice-sequence replay.  `run(choices)` executes once, taking the given
  choices and choice 0 afterwards (canonical order: running thread first if still enabled, then
  ascending thread id), and returns (outcome, log).  All sequences whose number of preemptions
  (switching away from a thread that is still enabled) is <= bound are enumerated.
"""
from __future__ import annotations

import threading
from concurrent.futures import Executor, Future


class ReplayDivergence(RuntimeError):
    pass


class Deadlock(RuntimeError):
    pass


class Sched:
    def __init__(self, choices=(), expect=None):
        self.choices = list(choices)
        self.expect = expect                # list of enabled signatures for the replayed prefix (divergence check)
        self.pos = 0
        self.threads = {}                   # tid -> record
        self.main_sem = threading.Semaphore(0)
        self.current = None
        self.next_tid = 0
        self.log = []                       # per decision: (n_enabled, [(tid,label)...] canonical order, current)
        self.local = threading.local()
        self.locks = {}

    # ---------------------------------------------------------------- controlled threads
    def tid(self):
        return getattr(self.local, "tid", None)

    def point(self, label):
        tid = self.tid()
        if tid is None:
            return                          # coordinator / uncontrolled thread: not a scheduling point
        rec = self.threads[tid]
        rec["label"] = label
        self.main_sem.release()
        rec["sem"].acquire()

    def spawn(self, fn, fut=None, name=None):
        tid = self.next_tid
        self.next_tid += 1
        rec = {"sem": threading.Semaphore(0), "label": "start" if name is None else f"start:{name}", "done": False,
               "blocked": None}

        def body():
            self.local.tid = tid
            rec["sem"].acquire()
            try:
                res = fn()
            except BaseException as e:  # noqa: BLE001
                rec["done"] = True
                rec["exc"] = e
                if fut is not None:
                    fut.set_exception(e)
            else:
                rec["done"] = True
                rec["res"] = res
                if fut is not None:
                    fut.set_result(res)
            self.main_sem.release()

        th = threading.Thread(target=body, daemon=True)
        rec["thread"] = th
        self.threads[tid] = rec
        th.start()
        return tid

    # ---------------------------------------------------------------- coordinator
    def enabled(self):
        out = []
        for tid, r in sorted(self.threads.items()):
            if r["done"]:
                continue
            lk = r["blocked"]
            if lk is not None and lk.owner is not None and lk.owner != tid:
                continue
            out.append((tid, r["label"]))
        return out

    def step(self):
        """Let one enabled thread run to its next point (or to completion). False if none is enabled."""
        en = self.enabled()
        if not en:
            if any(not r["done"] for r in self.threads.values()):
                raise Deadlock("threads blocked forever: " + repr([(t, r["label"]) for t, r in self.threads.items()
                                                                   if not r["done"]]))
            return False
        order = sorted(range(len(en)), key=lambda j: (en[j][0] != self.current, en[j][0]))
        ordered = [en[j] for j in order]
        i = self.pos
        self.pos += 1
        c = self.choices[i] if i < len(self.choices) else 0
        if self.expect is not None and i < len(self.expect):
            if self.expect[i] != [list(x) for x in ordered]:
                raise ReplayDivergence(f"decision {i}: enabled {ordered} != recorded {self.expect[i]}")
        if c >= len(ordered):
            raise ReplayDivergence(f"decision {i}: choice {c} out of range for {ordered}")
        running_enabled = bool(ordered) and ordered[0][0] == self.current
        self.log.append((len(ordered), [list(x) for x in ordered], self.current, running_enabled))
        tid = ordered[c][0]
        self.current = tid
        self.threads[tid]["sem"].release()
        self.main_sem.acquire()
        return True

    def run_all(self):
        while self.step():
            pass

    # ---------------------------------------------------------------- controlled lock
    def make_rlock(self):
        return ControlledRLock(self)


class ControlledRLock:
    """Re-entrant lock whose blocking is visible to the scheduler (a blocked thread is not enabled)."""

    def __init__(self, sched):
        self.sched = sched
        self.owner = None
        self.count = 0

    def acquire(self, blocking=True, timeout=-1):
        s = self.sched
        tid = s.tid()
        if tid is None:                     # uncontrolled thread (coordinator): must be free
            if self.owner not in (None, "main"):
                raise Deadlock("coordinator would block on a lock held by a controlled thread")
            self.owner = "main"
            self.count += 1
            return True
        s.point("lock.acquire")
        while self.owner is not None and self.owner != tid:
            s.threads[tid]["blocked"] = self
            s.point("lock.blocked")
        s.threads[tid]["blocked"] = None
        self.owner = tid
        self.count += 1
        return True

    def release(self):
        self.count -= 1
        if self.count == 0:
            self.owner = None

    __enter__ = acquire

    def __exit__(self, *a):
        self.release()


class ControlledExecutor(Executor):
    """concurrent.futures.Executor whose tasks are controlled threads of a Sched.

    `controlled(key) -> bool` selects the dask tasks that become controlled threads; all other tasks
    (pure bookkeeping tasks of the graph: transposes, finalisers) are executed inline at submission,
    which is one legal schedule for side-effect-free tasks and keeps the decision space on the runs."""

    def __init__(self, sched, max_workers=2, controlled=None):
        self.sched = sched
        self._max_workers = max_workers
        self.controlled = controlled
        self.n_controlled = 0
        self.n_inline = 0

    def submit(self, fn, *args, **kwargs):
        fut = Future()
        if self.controlled is not None and args and isinstance(args[0], list):
            keys = [t[0] for t in args[0] if isinstance(t, tuple) and t]
            if not any(self.controlled(k) for k in keys):
                self.n_inline += 1
                try:
                    fut.set_result(fn(*args, **kwargs))
                except BaseException as e:  # noqa: BLE001
                    fut.set_exception(e)
                return fut
        self.n_controlled += 1
        self.sched.spawn(lambda: fn(*args, **kwargs), fut)
        return fut

    def shutdown(self, wait=True, **kw):
        pass


_ORIG_QUEUE_GET = None


def install_dask_queue_get(get_sched):
    """Replace dask.local.queue_get: while the result queue is empty, advance controlled threads."""
    global _ORIG_QUEUE_GET
    import dask.local as dl

    if _ORIG_QUEUE_GET is None:
        _ORIG_QUEUE_GET = dl.queue_get

    def queue_get(q):
        sched = get_sched()
        if sched is None:
            return _ORIG_QUEUE_GET(q)
        while q.empty():
            if not sched.step():
                raise Deadlock("dask waits for a result but no controlled thread is enabled")
        return q.get()

    dl.queue_get = queue_get


# -------------------------------------------------------------------- exploration

def preemptions(log, choices, upto):
    c = 0
    for j in range(min(upto, len(choices))):
        if choices[j] != 0 and log[j][3]:
            c += 1
    return c


def children(prefix, log, bound):
    """Direct children of an executed choice sequence within the preemption bound."""
    out = []
    for i in range(len(prefix), len(log)):
        k, en, cur, running_enabled = log[i]
        base = preemptions(log, prefix, i)
        cost = base + (1 if running_enabled else 0)
        if cost > bound:
            continue
        for alt in range(1, k):
            out.append((list(prefix) + [0] * (i - len(prefix)) + [alt], cost))
    return out


def explore(run, bound, prefix=(), on_exec=None, max_exec=None):
    """Depth-first enumeration of all choice sequences extending `prefix` within `bound` preemptions.
    run(choices, expect) -> (outcome, log).  on_exec(choices, outcome, log) is called per execution.
    Returns number of executions and whether the cap was hit."""
    n = 0
    capped = False
    stack = [(list(prefix), None)]
    while stack:
        ch, expect = stack.pop()
        if max_exec is not None and n >= max_exec:
            capped = True
            break
        outcome, log = run(ch, expect)
        n += 1
        if on_exec is not None:
            on_exec(ch, outcome, log)
        exp = [e[1] for e in log]
        for child, cost in reversed(children(ch, log, bound)):
            stack.append((child, exp[: len(child)]))
    return n, capped
