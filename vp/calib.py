"""Helpers around the real calibration code: obtain the *real* fitting problem object exactly as
`Calibration.run_calibration` wires it (by intercepting the archipelago constructor), and build
small Calibration objects."""
from __future__ import annotations

import numpy as np


class _Stop(Exception):
    pass


def real_problem(cal, processor, with_inherited_coords=True, output_dir=None):
    """Run the real `run_calibration` up to the creation of the archipelago and return the problem
    (ModelFittingDataTree) it built, plus the kwargs handed to the archipelago."""
    import pyxel.calibration.calibration as cc

    captured = {}

    class FakeArchipelago:
        def __init__(self, **kw):
            captured.update(kw)
            raise _Stop

    orig = cc.ArchipelagoDataTree
    cc.ArchipelagoDataTree = FakeArchipelago
    try:
        cal.run_calibration(processor=processor, output_dir=output_dir,
                            with_inherited_coords=with_inherited_coords, with_progress_bar=False)
    except _Stop:
        pass
    finally:
        cc.ArchipelagoDataTree = orig
    return captured["problem"], captured


def calibration(target_files, parameters, result_type="pixel", fit_range=(0, 2, 0, 3), target_range=None,
                algo="sade", generations=1, population_size=4, times=None, fitness="sum_of_abs_residuals", **kw):
    from pyxel.calibration import Algorithm, Calibration
    from pyxel.exposure import Readout
    from pyxel.pipelines import FitnessFunction

    return Calibration(
        target_data_path=list(target_files),
        fitness_function=FitnessFunction(func=f"pyxel.calibration.fitness.{fitness}"),
        algorithm=Algorithm(type=algo, generations=generations, population_size=population_size),
        parameters=parameters,
        result_type=result_type,
        result_fit_range=tuple(fit_range),
        target_fit_range=tuple(target_range if target_range is not None else fit_range),
        readout=Readout(times=list(times)) if times is not None else None,
        **kw,
    )
