"""Factories for tiny real Pyxel objects used by all checks (built from scratch every time)."""
from __future__ import annotations

import numpy as np

DET_TYPES = ("ccd", "cmos", "mkid", "apd")


def geometry(kind="ccd", row=2, col=3, **kw):
    from pyxel.detectors import APDGeometry, CCDGeometry, CMOSGeometry, MKIDGeometry

    cls = {"ccd": CCDGeometry, "cmos": CMOSGeometry, "mkid": MKIDGeometry, "apd": APDGeometry}[kind]
    args = dict(row=row, col=col, total_thickness=10.0, pixel_vert_size=2.0, pixel_horz_size=0.5)
    args.update(kw)
    return cls(**args)


def characteristics(kind="ccd", **kw):
    from pyxel.detectors import APDCharacteristics, Characteristics

    if kind == "apd":
        args = dict(roic_gain=0.5, quantum_efficiency=0.5, full_well_capacity=1000, adc_bit_resolution=16,
                    adc_voltage_range=(0.0, 8.0), avalanche_gain=2.0, pixel_reset_voltage=3.0)
        args.update(kw)
        return APDCharacteristics(**args)
    args = dict(quantum_efficiency=0.5, charge_to_volt_conversion=1e-3, pre_amplification=4.0,
                full_well_capacity=1000, adc_bit_resolution=16, adc_voltage_range=(0.0, 8.0))
    args.update(kw)
    return Characteristics(**args)


def detector(kind="ccd", row=2, col=3, temperature=100.0, geo_kw=None, char_kw=None, env_kw=None):
    from pyxel.detectors import APD, CCD, CMOS, MKID, Environment

    cls = {"ccd": CCD, "cmos": CMOS, "mkid": MKID, "apd": APD}[kind]
    env = dict(temperature=temperature)
    env.update(env_kw or {})
    return cls(geometry=geometry(kind, row, col, **(geo_kw or {})),
               environment=Environment(**env),
               characteristics=characteristics(kind, **(char_kw or {})))


def model(func, name, arguments=None, enabled=True):
    from pyxel.pipelines import ModelFunction

    return ModelFunction(func=func, name=name, arguments=dict(arguments or {}), enabled=enabled)


def pipeline(groups: dict):
    """groups: {group_name: [ModelFunction | (func, name, args, enabled)]}"""
    from pyxel.pipelines import DetectionPipeline

    kw = {}
    for g, lst in groups.items():
        out = []
        for m in lst:
            if isinstance(m, (tuple, list)):
                func, name, *rest = m
                args = rest[0] if rest else None
                en = rest[1] if len(rest) > 1 else True
                m = model(func, name, args, en)
            out.append(m)
        kw[g] = out
    return DetectionPipeline(**kw)


def readout(times=(1.0,), non_destructive=False, start_time=0.0):
    from pyxel.exposure import Readout

    return Readout(times=list(times), non_destructive=non_destructive, start_time=start_time)


def exposure(times=(1.0,), non_destructive=False, start_time=0.0, **kw):
    from pyxel.exposure import Exposure

    return Exposure(readout=readout(times, non_destructive, start_time), **kw)


def arr_sig(a):
    """Canonical, JSON-able signature of an array-like (dtype, shape, bytes hash)."""
    import hashlib

    if a is None:
        return None
    a = np.asarray(a)
    return [a.dtype.str, list(a.shape), hashlib.sha1(np.ascontiguousarray(a).tobytes()).hexdigest()[:16]]
