"""Explicit-state breadth-first search over operation sequences applied to *real* objects.

A model supplies
  initial()            -> state (any python object; holds the real object and its reference twin)
  ops(state)           -> list of JSON-able operation descriptors (ordered simplest first)
  apply(state, op)     -> (new_state, [(key, what), ...])  -- must not mutate `state`
  canon(state)         -> hashable canonical form (property-observable fields only)

`bfs` explores every operation sequence up to `depth`, deduplicating states by canon(); the
sequence reaching a state is kept so every violation is a replayable operation list.  Search
stops expanding below a violating transition (its successors are unreliable).
"""
from __future__ import annotations


def bfs(model, depth: int, max_violations: int = 50, expand_limit: int | None = None):
    init = model.initial()
    seen = {model.canon(init)}
    frontier = [(init, [])]
    stats = {"states": 1, "transitions": 0, "depth_completed": 0, "cap_hit": False, "max_frontier": 1}
    violations = []
    vkeys = set()
    outcomes = set()
    sample = None
    for d in range(1, depth + 1):
        nxt = []
        for state, hist in frontier:
            for op in model.ops(state):
                new, viols = model.apply(state, op)
                stats["transitions"] += 1
                if viols:
                    for key, what in viols:
                        kk = repr(sorted(key.items()))
                        if kk not in vkeys and len(violations) < max_violations:
                            vkeys.add(kk)       # BFS order: the first case per key is a shortest one
                            violations.append({"key": key, "what": what, "ops": hist + [op]})
                    continue
                k = model.canon(new)
                outcomes.add(k)
                if k not in seen:
                    seen.add(k)
                    nxt.append((new, hist + [op]))
                    if sample is None or len(hist) + 1 > len(sample):
                        sample = hist + [op]
        stats["depth_completed"] = d
        stats["states"] = len(seen)
        stats["max_frontier"] = max(stats["max_frontier"], len(nxt))
        if expand_limit is not None and len(nxt) > expand_limit:
            stats["cap_hit"] = True
            nxt = nxt[:expand_limit]
        frontier = nxt
        if not frontier:
            stats["fixpoint"] = True
            break
    stats["sample"] = sample
    return stats, violations


def run_sequence(model, ops):
    """Replay one operation list on a fresh state; return all violations met."""
    state = model.initial()
    out = []
    for i, op in enumerate(ops):
        state, viols = model.apply(state, op)
        for key, what in viols:
            out.append({"key": key, "what": what, "ops": list(ops[: i + 1])})
        if viols:
            break
    return out
