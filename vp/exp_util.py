"""Helpers shared by the exposure checks C02 / C03 / C17 (builder A): observer and writer probe models,
public-API snapshots of every bucket, comparison helpers.

Probe models are referenced from generated pipelines as `func: vp.exp_util.<name>`.  They use the public
API of the containers only (reading an empty container raises; `Charge.frame_empty()`; `Scene.data`).
"""
from __future__ import annotations

import numpy as np

TRACE: list = []          # JSON-able records, one per probe call
SNAPS: list = []          # deep (non JSON) snapshots taken by `last` / `observe`, same order as the calls
PLAN: dict = {}           # optional fault plan {"name": model name, "step": i}
CHANGES: list = []        # (model name, step, sorted changed bucket names, snapshot after the model) when track=True


REUSE: dict = {}          # (model, bucket) -> buffer kept and re-used by a writer with option "reuse"


def reset():
    TRACE.clear()
    SNAPS.clear()
    PLAN.clear()
    CHANGES.clear()
    REUSE.clear()


def _assign(detector, bucket, values, opt):
    """Assign `values` to a bucket.  With option "reuse" the model keeps ONE buffer per bucket for the whole run,
    overwrites it in place at every step and hands that same array object to the container (a model is free to do
    so): a result that aliases the stored array instead of copying it shows the values of the following step."""
    if opt.get("reuse"):
        key = (detector.current_running_model_name, bucket)
        buf = REUSE.get(key)
        if buf is None or buf.shape != values.shape or buf.dtype != values.dtype:
            buf = REUSE[key] = np.empty_like(values)
        buf[...] = values
        values = buf
    getattr(detector, bucket).array = values


class PlannedFailure(Exception):
    pass


# ------------------------------------------------------------------ observation (public API only)

def clock(det) -> dict:
    return {
        "step": int(det.pipeline_count),
        "time": float(det.time),
        "time_step": float(det.time_step),
        "absolute_time": float(det.absolute_time),
        "is_first": bool(det.is_first_readout),
        "is_last": bool(det.is_last_readout),
        "num_steps": int(det.num_steps),
        "start_time": float(det.start_time),
        "non_destructive": bool(det.non_destructive_readout),
    }


def container_value(c):
    """Content of a Photon / Pixel / Signal / Image / Phase container: None when it is empty (reading raises),
    else a private copy (ndarray, or DataArray for a multi-wavelength photon)."""
    try:
        return np.array(c.array, copy=True)
    except Exception:  # noqa: BLE001
        pass
    if hasattr(type(c), "array_3d"):
        try:
            return c.array_3d.copy(deep=True)
        except Exception:  # noqa: BLE001
            pass
    return None


def tree_paths(tree):
    """sorted list of (path, sorted variable names) of all nodes that carry anything."""
    out = []
    root = tree.path.rstrip("/")
    for node in tree.subtree:
        names = sorted(str(v) for v in node.to_dataset(inherit=False).variables)
        path = "/" + node.path[len(root):].lstrip("/")       # relative to the given tree
        if path != "/" or names:
            out.append([path, names])
    return sorted(out)


def tree_is_empty(tree) -> bool:
    return len(tree_paths(tree)) == 0


def snap(det, charge=True) -> dict:
    """Deep snapshot of every bucket.  charge=False: the charge bucket is not read (reading `Charge.array`
    refreshes its internal cache, which would hide a stale-cache defect from the caller)."""
    out = {}
    for name in ("photon", "pixel", "signal", "image"):
        out[name] = container_value(getattr(det, name))
    ch = det.charge
    if charge:
        out["charge_clusters"] = 0 if ch.frame_empty() else int(len(ch.frame))
        out["charge"] = np.array(ch.array, copy=True)
    else:
        out["charge_clusters"] = None
        out["charge"] = None
    out["scene"] = det.scene.data.copy(deep=True)
    try:
        out["data"] = det.data.copy(deep=True)
    except Exception:  # noqa: BLE001
        out["data"] = None
    return out


def describe(v):
    """small JSON-able description of a bucket value"""
    import xarray as xr

    if v is None:
        return None
    if isinstance(v, xr.DataArray):
        return ["da:" + v.dtype.str, list(v.shape), v.values.tolist()]
    if isinstance(v, np.ndarray):
        return [v.dtype.str, list(v.shape), v.tolist()]
    if isinstance(v, xr.DataTree):
        return tree_paths(v)
    return v


def summary(s: dict) -> dict:
    return {k: describe(v) for k, v in s.items()}


def same_value(a, b) -> bool:
    """bytes-equal content (dtype, shape, values) of two bucket values"""
    import xarray as xr

    if a is None or b is None:
        return a is None and b is None
    if isinstance(a, xr.DataArray) != isinstance(b, xr.DataArray):
        return False
    if isinstance(a, xr.DataArray):
        return bool(a.dtype == b.dtype and a.dims == b.dims and a.shape == b.shape and a.identical(b))
    return bool(a.dtype == b.dtype and a.shape == b.shape and np.array_equal(a, b, equal_nan=True))


def _record(det, kind, with_snap, charge=True):
    name = det.current_running_model_name
    rec = {"name": name, "kind": kind, "det": id(det), **clock(det)}
    if with_snap:
        s = snap(det, charge=charge)
        rec["buckets"] = summary(s)
        SNAPS.append((name, int(det.pipeline_count), s))
    TRACE.append(rec)
    p = PLAN
    if p and p.get("name") == name and int(p.get("step", -1)) == int(det.pipeline_count):
        raise PlannedFailure(f"planned failure in {name} at step {det.pipeline_count}")


# ------------------------------------------------------------------ probe models

def tick(detector):
    """records the clock only"""
    _record(detector, "tick", False)


def flags(detector, read_out_odd=True):
    """a model that uses the detector's user-visible flags: clears `read_out` in odd steps (e.g. a frame selector)"""
    detector.read_out = bool(read_out_odd) or int(detector.pipeline_count) % 2 == 0
    _record(detector, "flags", False)


def observe(detector, charge=True):
    """records the clock and a deep snapshot of every bucket (charge=False: without reading the charge bucket)"""
    _record(detector, "observe", True, charge=charge)


# ------------------------------------------------------------------ deterministic payloads

BUCKET_CODE = {"photon": 1, "charge": 2, "pixel": 3, "signal": 4, "image": 5}
IMAGE_EDGE = {"uint8": 2 ** 8 - 1, "uint16": 2 ** 16 - 1, "uint32": 2 ** 32 - 1, "uint64": 2 ** 64 - 1}


def value_for(bucket, step, shape, salt=0):
    """v(bucket, step, y, x): injective, small integers (exact in float16), never 0"""
    rows, cols = shape
    yy, xx = np.mgrid[0:rows, 0:cols]
    return (BUCKET_CODE[bucket] * 64 + int(step) * 16 + yy * cols + xx + 1 + int(salt)).astype("float64")


def image_values(kind, dtype, step, shape, salt=0):
    """python-int matrix for the image bucket.
    kind 'ramp': small values; 'edge': 0, 1, max//2, max-1, max of the type; 'big': uint64 values above 2**53
    that are not representable in float64 (odd)."""
    rows, cols = shape
    n = rows * cols
    mx = IMAGE_EDGE[str(np.dtype(dtype))]
    if kind == "ramp":
        vals = [int(v) % (mx + 1) for v in value_for("image", step, shape, salt).ravel()]
    elif kind == "edge":
        pal = [0, 1, mx // 2, mx - 1, mx, 2 + int(salt) % 5, mx // 2 + 1]
        vals = [pal[(i + step) % len(pal)] for i in range(n)]
    elif kind == "big":
        pal = [2 ** 53 + 1, 2 ** 60 + 1 + 2 * (int(salt) % 7), 2 ** 63 + 3, 2 ** 64 - 1, 2 ** 53 + 3, 7, 2 ** 62 - 1]
        vals = [pal[(i + step) % len(pal)] for i in range(n)]
    else:
        raise KeyError(kind)
    out = np.empty(n, dtype=object)
    for i, v in enumerate(vals):
        out[i] = int(v)
    return out.reshape(shape).astype(np.dtype(dtype))


def scene_source(step, salt=0):
    import xarray as xr

    base = np.arange(6, dtype=float).reshape(2, 3) + 10 * step + float(salt)
    return xr.Dataset(
        {"x": ("ref", [1.0 + step, 2.0]), "y": ("ref", [3.0, 4.0 + step]), "weight": ("ref", [5.0, 6.0]),
         "flux": (("ref", "wavelength"), base)},
        coords={"ref": [0, 1], "wavelength": [500.0, 600.0, 700.0]})


WAVELENGTHS = [500.0, 600.0, 700.0]


BUCKETS = ("photon", "charge", "pixel", "signal", "image")


def changed_buckets(pre: dict, post: dict):
    """names of the buckets whose content differs between two snapshots (ground truth measured inside a model)"""
    return sorted(b for b in BUCKETS if not same_value(pre[b], post[b]))


def write(detector, spec, salt=0, spec_odd=None, track=False):
    """Writer probe.  spec: {bucket: options}; buckets missing from spec are not touched.
      photon: {"dtype": "float64", "wl": 0|2|3, "const": bool, "mul": k}
      charge: {"how": "array"|"clusters"}
      pixel:  {"dtype": .., "acc": bool, "const": bool, "mul": k}
      signal: {"dtype": .., "const": bool, "mul": k}
      image:  {"dtype": "uint16", "vals": "ramp"|"edge"|"big", "const": bool}
      scene:  true,  data: "flat"|"nested"
      signal / image / pixel: {"recast": dtype}   re-assign the present values with another dtype
    'const': the value does not depend on the step; 'mul': multiply the value by k."""
    import xarray as xr

    shape = tuple(detector.geometry.shape)
    step = int(detector.pipeline_count)
    pre = snap(detector) if track else None
    if spec_odd is not None and step % 2 == 1:
        spec = spec_odd               # a different write pattern in odd steps
    for b, opt in spec.items():
        opt = opt if isinstance(opt, dict) else {}
        st = 0 if opt.get("const") else step
        mul = opt.get("mul", 1)
        if opt.get("inplace3d"):
            # a model that scales the multi-wavelength cube IN PLACE (the record of the model before it must keep its value)
            if detector.photon._array is not None and getattr(detector.photon._array, "ndim", 0) == 3:
                detector.photon.array_3d *= 2.0
        elif opt.get("recast"):
            # same values, another dtype (e.g. a model that widens the image type): a dtype-only change of the bucket
            old = container_value(getattr(detector, b))
            if old is not None:
                getattr(detector, b).array = np.asarray(old).astype(opt["recast"])
        elif b == "photon":
            v = value_for("photon", st, shape, salt) * mul
            dt = opt.get("dtype", "float64")
            nwl = int(opt.get("wl", 0))
            if nwl:
                wl = WAVELENGTHS[:nwl]
                if opt.get("shift"):        # e.g. a scanning filter: the grid of this step
                    wl = [x + 10.0 * step for x in wl]
                cube = np.stack([v + 1000 * k for k in range(nwl)]).astype(dt)
                coords = {"wavelength": wl}
                if opt.get("xy"):        # e.g. pixel centres in um: the result must still be indexed by row / column
                    coords.update(y=[5.0 + 10.0 * i for i in range(shape[0])], x=[2.5 + 5.0 * i for i in range(shape[1])])
                detector.photon.array_3d = xr.DataArray(cube, dims=["wavelength", "y", "x"], coords=coords)
            else:
                detector.photon.array = v.astype(dt)
        elif b == "charge":
            v = value_for("charge", st, shape, salt) * mul
            how = opt.get("how", "array")
            if how == "scale":
                # in-place update of the existing clusters through the public API (as charge-transport models do)
                fr = detector.charge.frame
                if len(fr):
                    detector.charge.set_frame_values("number", [2.0 * float(x) for x in fr["number"].values],
                                                     id_list=[int(i) for i in fr.index])
            if how in ("array", "both"):
                detector.charge.add_charge_array(v)
            if how in ("clusters", "both"):
                geo = detector.geometry
                rows, cols = shape
                n = rows * cols
                yy, xx = np.mgrid[0:rows, 0:cols]
                z = np.zeros(n)
                detector.charge.add_charge(
                    particle_type="e", particles_per_cluster=v.ravel(), init_energy=z,
                    init_ver_position=(yy.ravel() + 0.5) * geo.pixel_vert_size,
                    init_hor_position=(xx.ravel() + 0.5) * geo.pixel_horz_size,
                    init_z_position=z, init_ver_velocity=z, init_hor_velocity=z, init_z_velocity=z)
        elif b == "pixel":
            v = value_for("pixel", st, shape, salt) * mul
            dt = opt.get("dtype", "float64")
            if opt.get("inf"):
                v[-1, -1] = np.inf
            if opt.get("acc"):
                old = container_value(detector.pixel)         # robust against an uninitialised pixel bucket
                base = np.zeros(shape) if old is None else np.asarray(old, dtype="float64")
                _assign(detector, "pixel", (base + v).astype(dt), opt)
            else:
                _assign(detector, "pixel", v.astype(dt), opt)
        elif b == "signal":
            _assign(detector, "signal", (value_for("signal", st, shape, salt) * mul).astype(opt.get("dtype", "float64")), opt)
        elif b == "image":
            dt = opt.get("dtype", "uint16")
            if opt.get("by_step"):            # the model chooses the unsigned type per step (e.g. an auto-ranging converter)
                dt = opt["by_step"][min(step, len(opt["by_step"]) - 1)]
            _assign(detector, "image", image_values(opt.get("vals", "ramp"), dt, st, shape, salt), opt)
        elif b == "scene":
            if opt is not False and spec[b]:
                detector.scene.add_source(scene_source(step, salt))
        elif b == "data":
            if spec[b] == "flat":
                detector.data["k0"] = xr.DataArray(np.arange(3, dtype=float) + step + float(salt), dims=["k"])
            elif spec[b] == "swapped":
                # the model REPLACES the container (as the load_detector model does through Detector.replace_data) instead
                # of writing into it: the result must show the container the detector holds at the end
                import copy

                other = copy.deepcopy(detector)
                other.data["k0"] = xr.DataArray(np.arange(3, dtype=float) + 10.0 * step + float(salt), dims=["k"])
                other.data["swapped/k9"] = xr.DataArray(np.array([step, 7], dtype="int64"), dims=["s"])
                detector.replace_data(other)
            elif spec[b] == "nested":
                detector.data["grp/sub/k1"] = xr.DataArray(np.arange(4, dtype=float) * 2 + step + float(salt), dims=["m"])
                detector.data["grp/k2"] = xr.DataArray(np.array([[1, 2], [3, 4 + step]], dtype="int64"), dims=["p", "q"])
        else:
            raise KeyError(b)
    if track:
        post = snap(detector)
        CHANGES.append((detector.current_running_model_name, step, changed_buckets(pre, post), post))
    _record(detector, "write", False)
