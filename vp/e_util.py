"""Small helpers shared by the C12 / C18 checks: structural snapshots of xarray trees and a leaf-wise diff."""
from __future__ import annotations

import numpy as np


def plain(v):
    """JSON-able plain value (numpy scalars / arrays -> python, unknown objects -> repr)."""
    if isinstance(v, np.generic):
        return v.item()
    if isinstance(v, np.ndarray):
        return v.tolist()
    if isinstance(v, (list, tuple)):
        return [plain(x) for x in v]
    if isinstance(v, dict):
        return {str(k): plain(x) for k, x in v.items()}
    if v is None or isinstance(v, (bool, int, float, str)):
        return v
    return repr(v)


def snap_var(da):
    try:
        values = np.asarray(da.values).tolist()
    except Exception as e:  # noqa: BLE001   (lazy variables whose graph cannot be computed: not this module's business)
        values = f"<uncomputable {type(e).__name__}>"
    return {"dims": [str(d) for d in da.dims], "dtype": da.dtype.name, "shape": list(da.shape),
            "values": values, "attrs": {str(k): plain(v) for k, v in da.attrs.items()}}


def snap_ds(ds):
    return {"vars": {str(k): snap_var(v) for k, v in ds.data_vars.items()},
            "coords": {str(k): {"dims": [str(d) for d in c.dims], "dtype": c.dtype.name,
                                "values": np.asarray(c.values).tolist()} for k, c in ds.coords.items()},
            "attrs": {str(k): plain(v) for k, v in ds.attrs.items()}}


def snap_tree(dt):
    """{node path: dataset snapshot} for every node of a DataTree (own variables / coordinates of each node)."""
    if dt is None:
        return None
    out = {}
    for node in dt.subtree:
        try:
            ds = node.to_dataset(inherit=False)
        except TypeError:
            ds = node.to_dataset()
        out[node.path] = snap_ds(ds)
    return out


def _num(x):
    return isinstance(x, (int, float)) and not isinstance(x, bool)


def diff(a, b, path=""):
    """[(path, a_leaf, b_leaf)] for every differing leaf of two nested dict / list / scalar structures.
    Numbers compare by value (1 == 1.0), NaN equals NaN, lists and tuples are the same kind of thing."""
    if isinstance(a, dict) and isinstance(b, dict):
        out = []
        for k in sorted(set(a) | set(b), key=str):
            p = f"{path}.{k}" if path else str(k)
            if k not in a:
                out.append((p, "<absent>", b[k]))
            elif k not in b:
                out.append((p, a[k], "<absent>"))
            else:
                out.extend(diff(a[k], b[k], p))
        return out
    if isinstance(a, (list, tuple)) and isinstance(b, (list, tuple)):
        if len(a) != len(b):
            return [(path, a, b)]
        out = []
        for i, (x, y) in enumerate(zip(a, b)):
            out.extend(diff(x, y, f"{path}[{i}]"))
        return out
    if _num(a) and _num(b):
        if a != a and b != b:
            return []
        return [] if a == b else [(path, a, b)]
    return [] if (type(a) is type(b) and a == b) or (a is None and b is None) else [(path, a, b)]
