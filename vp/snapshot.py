"""Deep structural snapshot of arbitrary object graphs (detectors, pipelines, readouts, processors, trees).

`snapshot(obj)` walks the graph (every `__dict__` and `__slots__` attribute, mappings, sequences, sets) and returns
a *flat* dict  path -> leaf description.  Arrays are described by dtype + shape + a hash of their bytes, pandas and
xarray objects are decomposed into their arrays / coordinates / attributes, DataTrees into their nodes.  Containers
contribute an entry of their own ("list[3]", "obj:pyxel.detectors.ccd.CCD") so that a changed type, a changed length
or a *new attribute anywhere* shows up as a changed / added path.  Nothing of the object is modified; no property
getter is called (only raw attribute storage is read), so taking a snapshot cannot trigger lazy initialisation.

`diff(a, b)` lists the paths whose description differs (absent entries are reported as "<absent>").
"""
from __future__ import annotations

import enum
import hashlib
import logging
import types
from collections.abc import Mapping
from pathlib import PurePath

import numpy as np

ABSENT = "<absent>"
_PRIMS = (type(None), bool, int, float, complex, str, bytes)


def _h(b: bytes) -> str:
    return hashlib.sha1(b).hexdigest()[:16]


def _array_leaf(a: np.ndarray) -> str:
    a = np.asarray(a)
    if a.dtype == object:
        return f"ndarray:object:{a.shape}:{_h(repr(a.tolist()).encode())}"
    if a.dtype.kind in "UST":      # unicode / bytes / numpy StringDType
        return f"ndarray:{a.dtype}:{a.shape}:{_h(repr(a.tolist()).encode())}"
    return f"ndarray:{a.dtype.str}:{a.shape}:{_h(np.ascontiguousarray(a).tobytes())}"


def _raw_attrs(obj):
    """(name, value) of every attribute stored on the instance: __dict__ plus __slots__ of the whole MRO."""
    out = []
    try:
        d = object.__getattribute__(obj, "__dict__")
    except AttributeError:
        d = None
    if isinstance(d, dict):
        out.extend(d.items())
    seen = {k for k, _ in out}
    for cls in type(obj).__mro__:
        slots = cls.__dict__.get("__slots__", ())
        if isinstance(slots, str):
            slots = (slots,)
        for s in slots:
            if s in ("__dict__", "__weakref__") or s in seen:
                continue
            try:
                out.append((s, object.__getattribute__(obj, s)))
                seen.add(s)
            except AttributeError:
                pass
    return out


def snapshot(obj, root: str = "$") -> dict:
    out: dict = {}
    memo: dict = {}
    _walk(obj, root, out, memo)
    return out


def _walk(obj, path, out, memo):  # noqa: C901
    import pandas as pd
    import xarray as xr

    if isinstance(obj, _PRIMS):
        out[path] = f"{type(obj).__name__}:{obj!r}"
        return
    if isinstance(obj, np.generic):
        out[path] = f"np.{obj.dtype}:{obj.item()!r}"
        return
    if isinstance(obj, enum.Enum):
        out[path] = f"enum:{type(obj).__qualname__}.{obj.name}"
        return
    if isinstance(obj, PurePath):
        out[path] = f"path:{obj!s}"
        return
    if isinstance(obj, logging.Logger):
        out[path] = f"Logger:{obj.name}"
        return
    if isinstance(obj, (types.FunctionType, types.BuiltinFunctionType, types.MethodType, type, types.ModuleType)):
        out[path] = f"callable:{getattr(obj, '__module__', '')}.{getattr(obj, '__qualname__', getattr(obj, '__name__', ''))}"
        return
    if isinstance(obj, np.dtype):
        out[path] = f"dtype:{obj.str}"
        return
    if isinstance(obj, (slice, range)):
        out[path] = repr(obj)
        return

    if isinstance(obj, (tuple, frozenset)) and all(isinstance(x, _PRIMS) for x in obj):
        out[path] = f"{type(obj).__name__}[{len(obj)}]:{list(obj)!r}" if isinstance(obj, tuple) \
            else f"frozenset[{len(obj)}]:{sorted(map(repr, obj))}"
        return

    oid = id(obj)
    if oid in memo:
        out[path] = f"ref:{memo[oid]}"
        return
    memo[oid] = path
    memo.setdefault("keep", []).append(obj)      # keep temporaries alive: ids must not be recycled during the walk

    if isinstance(obj, np.ndarray):
        unit = getattr(obj, "unit", None)
        out[path] = _array_leaf(np.asarray(obj)) + (f":unit={unit}" if unit is not None else "")
        return
    if isinstance(obj, xr.DataTree):
        nodes = list(obj.subtree)
        out[path] = f"DataTree[{len(nodes)} nodes]"
        for node in nodes:
            rel = node.path if obj.path in ("/", "") else node.path[len(obj.path):] or "/"
            _walk_dataset(node.to_dataset(inherit=False), f"{path}<{rel}>", out, memo)
        return
    if isinstance(obj, xr.Dataset):
        _walk_dataset(obj, path, out, memo)
        return
    if isinstance(obj, xr.DataArray):
        out[path] = f"DataArray:{obj.name!r}:{tuple(obj.dims)}"
        out[path + ".values"] = _array_leaf(obj.values)
        for c in sorted(obj.coords, key=str):
            out[f"{path}.coords[{c!r}]"] = f"{tuple(obj.coords[c].dims)}:" + _array_leaf(obj.coords[c].values)
        _walk(dict(obj.attrs), path + ".attrs", out, memo)
        return
    if isinstance(obj, pd.DataFrame):
        out[path] = f"DataFrame:{obj.shape}:{[str(c) for c in obj.columns]}:{[str(t) for t in obj.dtypes]}"
        out[path + ".index"] = _array_leaf(obj.index.to_numpy())
        if obj.shape[0] and obj.shape[1]:
            for i, c in enumerate(obj.columns):
                out[f"{path}[{c!r}#{i}]"] = _array_leaf(obj.iloc[:, i].to_numpy())
        return
    if isinstance(obj, pd.Series):
        out[path] = f"Series:{obj.name!r}:" + _array_leaf(obj.to_numpy())
        out[path + ".index"] = _array_leaf(obj.index.to_numpy())
        return
    if isinstance(obj, pd.Index):
        out[path] = "Index:" + _array_leaf(obj.to_numpy())
        return
    if isinstance(obj, Mapping) and not _raw_attrs(obj):
        keys = list(obj.keys())
        out[path] = f"{type(obj).__name__}[{len(keys)}]"
        for k in sorted(keys, key=repr):
            _walk(obj[k], f"{path}[{k!r}]", out, memo)
        return
    if isinstance(obj, (list, tuple)):
        out[path] = f"{type(obj).__name__}[{len(obj)}]"
        for i, v in enumerate(obj):
            _walk(v, f"{path}[{i}]", out, memo)
        return
    if isinstance(obj, (set, frozenset)):
        out[path] = f"{type(obj).__name__}[{len(obj)}]:{sorted(map(repr, obj))}"
        return

    # generic object: class + every stored attribute
    cls = type(obj)
    out[path] = f"obj:{cls.__module__}.{cls.__qualname__}"
    attrs = _raw_attrs(obj)
    if not attrs and not hasattr(obj, "__dict__"):
        out[path] += f":{obj!r}"[:200]
    for name, val in sorted(attrs, key=lambda kv: kv[0]):
        _walk(val, f"{path}.{name}", out, memo)


def _walk_dataset(ds, path, out, memo):
    out[path] = f"Dataset:vars={sorted(map(str, ds.data_vars))}:coords={sorted(map(str, ds.coords))}:dims={dict(ds.sizes)}"
    for v in sorted(ds.data_vars, key=str):
        da = ds[v]
        out[f"{path}.vars[{v!r}]"] = f"{tuple(da.dims)}:" + _array_leaf(da.values)
        if da.attrs:
            _walk(dict(da.attrs), f"{path}.vars[{v!r}].attrs", out, memo)
    for c in sorted(ds.coords, key=str):
        out[f"{path}.coords[{c!r}]"] = f"{tuple(ds.coords[c].dims)}:" + _array_leaf(ds.coords[c].values)
    if ds.attrs:
        _walk(dict(ds.attrs), path + ".attrs", out, memo)


def diff(a: dict, b: dict, ignore=()) -> list:
    """[(path, before, after)] for every path whose description differs; `ignore`: iterable of path suffixes /
    substrings (a path is skipped when it ends with or contains `.<name>` for a name in ignore)."""
    out = []
    ign = tuple(ignore)
    for p in sorted(set(a) | set(b)):
        if a.get(p, ABSENT) != b.get(p, ABSENT):
            if any(p.endswith("." + n) or ("." + n + ".") in p or ("." + n + "[") in p for n in ign):
                continue
            out.append((p, a.get(p, ABSENT), b.get(p, ABSENT)))
    return out


def fmt(d: list, limit: int = 6) -> str:
    s = "; ".join(f"{p}: {x} -> {y}" for p, x, y in d[:limit])
    return s + (f"; ... {len(d) - limit} more" if len(d) > limit else "")
