"""Bounded exhaustive enumeration of configurations / programs, executed on the real entry points.

Enumerators are plain functions returning lists with closed-form sizes.  `install(module)` gives a
property module the runner interface (shards / run_shard / replay / coverage) from two functions:

    enumerate_cases(tier, seed) -> list[dict]     deterministic, cheap, JSON-able cases
    run_case(case) -> dict                        {"viol": [(key, what), ...],
                                                   "sig": str    outcome signature (distinctness),
                                                   "nontrivial": bool,
                                                   "n": int      (optional) sub-evaluations inside the case
                                                   "counts": {..}, "sets": {..} (optional extras)}
Optional: expected_size(tier, seed) -> int   (checked against len(enumerate_cases); mismatch = harness error)
          RULE: str, NSHARDS: int, extra_coverage(tier, seed, agg) -> dict
"""
from __future__ import annotations

import hashlib
import itertools
import json
import os
from math import comb


def subsets(items, min_size=0, max_size=None):
    items = list(items)
    max_size = len(items) if max_size is None else max_size
    out = []
    for k in range(min_size, max_size + 1):
        out.extend(list(c) for c in itertools.combinations(items, k))
    return out


def n_subsets(n, min_size=0, max_size=None):
    max_size = n if max_size is None else max_size
    return sum(comb(n, k) for k in range(min_size, max_size + 1))


def pairs(items):
    return [list(c) for c in itertools.combinations(list(items), 2)]


def product(**axes):
    keys = list(axes)
    return [dict(zip(keys, vals)) for vals in itertools.product(*[axes[k] for k in keys])]


def k_deviations(base: dict, axes: dict, k: int):
    """All configurations differing from `base` in at most k axes (axes: name -> list of alternatives,
    the base value may be included in the list; it is skipped).  Deviation-bounded enumeration: the
    sequential analogue of preemption bounding."""
    out = [dict(base, _dev=0)]
    names = list(axes)
    for r in range(1, k + 1):
        for combo in itertools.combinations(names, r):
            alts = [[v for v in axes[n] if v != base[n]] for n in combo]
            for vals in itertools.product(*alts):
                c = dict(base)
                c.update(dict(zip(combo, vals)))
                c["_dev"] = r
                out.append(c)
    return out


def n_k_deviations(base: dict, axes: dict, k: int):
    names = list(axes)
    tot = 1
    for r in range(1, k + 1):
        for combo in itertools.combinations(names, r):
            n = 1
            for nm in combo:
                n *= len([v for v in axes[nm] if v != base[nm]])
            tot += n
    return tot


def compositions(n):
    """all ordered compositions of n (2**(n-1))"""
    out = []
    for bits in itertools.product([0, 1], repeat=n - 1):
        parts, cur = [], 1
        for b in bits:
            if b:
                parts.append(cur)
                cur = 1
            else:
                cur += 1
        parts.append(cur)
        out.append(parts)
    return out


def sig(obj) -> str:
    return hashlib.sha1(json.dumps(obj, sort_keys=True, default=str).encode()).hexdigest()[:16]


def install(mod):
    nsh = getattr(mod, "NSHARDS", 48)

    def shards(tier, seed):
        n = len(mod.enumerate_cases(tier, seed))
        k = max(1, min(nsh, n))
        return [{"tier": tier, "seed": seed, "i": i, "of": k, "total": n} for i in range(k)]

    def run_shard(shard):
        os.environ["VERIF_SEED"] = str(shard["seed"])
        cases = mod.enumerate_cases(shard["tier"], shard["seed"])
        if len(cases) != shard["total"]:
            raise RuntimeError(f"enumeration is not deterministic: {len(cases)} != {shard['total']}")
        exp = mod.expected_size(shard["tier"], shard["seed"]) if hasattr(mod, "expected_size") else None
        if exp is not None and exp != len(cases):
            raise RuntimeError(f"closed-form size {exp} != enumerated {len(cases)}")
        mine = cases[shard["i"]:: shard["of"]]
        viol, counts, sets, samples = [], {"cases": 0, "evaluations": 0, "nontrivial": 0}, {"sigs": set()}, []
        seenk = set()
        for c in mine:
            r = mod.run_case(c)
            counts["cases"] += 1
            counts["evaluations"] += int(r.get("n", 1))
            if r.get("nontrivial", True):
                counts["nontrivial"] += 1
                sets["sigs"].add(r.get("sig", sig(c)))
            for k2, v2 in r.get("counts", {}).items():
                counts[k2] = counts.get(k2, 0) + v2
            for k2, v2 in r.get("sets", {}).items():
                sets.setdefault(k2, set()).update(v2)
            for key, what in r.get("viol", []):
                kk = json.dumps(key, sort_keys=True, default=str)
                if kk in seenk:
                    continue
                seenk.add(kk)
                viol.append({"key": key, "what": what, "case": dict(c, _seed=shard["seed"])})
            if not samples and not r.get("viol"):
                samples.append({"case": c, "outcome": r.get("outcome", r.get("sig"))})
        return {"violations": viol, "counts": counts, "sets": {k: sorted(v) for k, v in sets.items()},
                "samples": samples}

    def replay(case):
        if "_seed" in case:
            os.environ["VERIF_SEED"] = str(case["_seed"])
        c = {k: v for k, v in case.items() if k != "_seed"}
        r = mod.run_case(c)
        return [{"key": key, "what": what, "case": case} for key, what in r.get("viol", [])]

    def coverage(tier, seed, agg):
        c, s = agg["counts"], agg["sets"]
        cov = {
            "evaluations": c.get("evaluations", 0),
            "cases": c.get("cases", 0),
            "distinct_nontrivial": len(s.get("sigs", [])),
            "rule": getattr(mod, "RULE", ""),
            "exhaustive": True,
        }
        for k, v in c.items():
            if k not in cov and k != "nontrivial":
                cov[k] = v
        for k, v in s.items():
            if k != "sigs":
                cov["distinct_" + k] = len(v)
                if len(v) <= 40:
                    cov[k] = v
        if hasattr(mod, "extra_coverage"):
            cov.update(mod.extra_coverage(tier, seed, agg))
        return cov

    mod.shards, mod.run_shard, mod.replay, mod.coverage = shards, run_shard, replay, coverage
