"""Worker process: executes shards / replays of one property module; protocol = JSON lines on the
original stdout, while everything the library prints goes to stderr."""
import importlib
import json
import os
import sys
import traceback
import faulthandler


def main():
    proto = os.fdopen(os.dup(1), "w", buffering=1)
    os.dup2(2, 1)                       # library prints -> stderr
    sys.stdout = sys.stderr
    faulthandler.enable()
    import warnings
    warnings.filterwarnings("ignore")
    import logging
    logging.disable(logging.CRITICAL)
    try:
        import tqdm
        tqdm.tqdm.monitor_interval = 0
    except Exception:
        pass
    mod = importlib.import_module(sys.argv[1])
    for line in sys.stdin:
        line = line.strip()
        if not line:
            continue
        msg = json.loads(line)
        try:
            if msg["op"] == "shard":
                res = mod.run_shard(msg["shard"])
            elif msg["op"] == "replay":
                res = {"violations": mod.replay(msg["case"])}
            else:
                res = {"harness_error": "unknown op"}
        except BaseException:
            res = {"harness_error": traceback.format_exc()}
        proto.write(json.dumps(res, default=str) + "\n")
        proto.flush()


if __name__ == "__main__":
    main()
