"""Worker process: executes shards / replays of one property module; protocol = JSON lines on the
original stdout, while everything the library prints goes to stderr."""
import importlib
import json
import os
import sys
import traceback
import faulthandler


def main():
    proto = os.fdopen(os.dup(1), "w", buffering=1)
    os.dup2(2, 1)                       # library prints -> stderr
    sys.stdout = sys.stderr
    faulthandler.enable()
    import warnings
    warnings.filterwarnings("ignore")
    import logging
    logging.disable(logging.CRITICAL)
    try:
        import tqdm
        tqdm.tqdm.monitor_interval = 0
    except Exception:
        pass
    cov = None
    if os.environ.get("VP_COVERAGE"):           # development aid (tools/cov.py): which library lines a check executes
        import coverage
        os.environ.setdefault("COVERAGE_CORE", "sysmon")
        cov = coverage.Coverage(data_file=os.path.join(os.environ["VP_COVERAGE"], f"cov.{os.getpid()}"),
                                include=[os.path.join(os.environ.get("VP_REPO", "/repo"), "pyxel", "*")])
        cov.start()
    mod = importlib.import_module(sys.argv[1])
    for line in sys.stdin:
        line = line.strip()
        if not line:
            continue
        msg = json.loads(line)
        try:
            if msg["op"] == "shard":
                res = mod.run_shard(msg["shard"])
            elif msg["op"] == "replay":
                res = {"violations": mod.replay(msg["case"])}
            else:
                res = {"harness_error": "unknown op"}
        except BaseException:
            res = {"harness_error": traceback.format_exc()}
        proto.write(json.dumps(res, default=str) + "\n")
        proto.flush()
    if cov is not None:
        cov.stop()
        cov.save()


if __name__ == "__main__":
    main()
