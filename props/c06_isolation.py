"""C06 - parameter runs are isolated from each other and from the caller's objects.

Bounded exhaustive enumeration (vp.cfgx) + single-fault enumeration (faultx idea: a value-triggered fault in each
single run) of observations whose pipeline contains a model that keeps memory on the detector, mutates trapped
charge in place and mutates its own list / dict arguments, on caller's detectors with pre-existing memory, trapped
charge and filled buckets.  Oracles:
 (1) every run's result == a standalone exposure built *from scratch by a factory* with that run's values baked in
     through constructor arguments (no deepcopy, no Processor.set in the oracle);
 (2) therefore identical across every permutation / subset of the value list and with a failing sibling (dask: the
     non-failing entries are computed individually; sequential: the observation is repeated after the failure);
 (3) a deep structural snapshot (vp.snapshot) of the caller's detector, pipeline and readout is identical before
     and after the call, also when the call raised.
Calibration: the real problem object (vp.calib.real_problem) evaluates 3 decision vectors in all 6 orders; each
fitness must equal the fitness of the factory-built standalone exposure; plus a short real archipelago run.
"""
from __future__ import annotations

import itertools
import os
import shutil
import tempfile

import numpy as np

from vp import cfgx, mk, probes, snapshot
from vp.obsutil import Problem, bucket_dataset, entry_arrays, select_by_index, select_by_labels

ID = "C06"
LEVEL = "exploration"
ENGINE = "cfgx+faultx"
TIMEOUT = 1500
TECHNIQUE = ("bounded exhaustive enumeration of observations (pipeline kinds with stateful / argument-mutating probe models x "
             "caller's detector histories x readouts x parameter spaces x sequential/dask x all permutations and non-empty "
             "subsets of the value list) plus a fault in every single run; every run compared with a factory-built "
             "standalone exposure; deep structural snapshot of the caller's objects before/after; calibration fitness for "
             "all orderings of 3 decision vectors on the real problem object")
LEVEL_TEXT = ("Every observation of the bounded family is executed through pyxel.run_mode. For every element of its space a "
              "standalone exposure is built from scratch by a factory (values baked into constructor arguments) and its "
              "buckets are compared bit-for-bit (as float64) with the entry stored for that element; this is repeated for "
              "all 6 permutations and all 7 non-empty subsets of a 3-value list and with a model failure injected into each "
              "single run. The caller's detector (including _memory, persistence trapped charge, filled buckets), pipeline "
              "(including model argument lists/dicts, disabled models) and readout are snapshotted structurally before and "
              "after every call (also failing calls) and must be identical. Calibration: the real ModelFittingDataTree is "
              "obtained exactly as run_calibration wires it and evaluates 3 decision vectors in all 6 orders."
              " The scalar spaces are additionally executed through the legacy entry point pyxel.observation_mode; one variant runs the same Observation object twice around a change of the configured values; a clock-dependent model makes readout sweeps (with and without a start time) observable.")
LEVEL_NOTE = ("Bounded: <=2 swept parameters, <=3 values, <=2 readout steps, 4 pipeline kinds, 4 caller histories, single "
              "faults. Dask execution under the synchronous scheduler only (thread schedules / completion orders are C07's "
              "subject and need the schedx engine). Trusted: the factory, vp.snapshot (reads raw attribute storage; ignores "
              "the cache fields _numbytes and the lazily resolved function reference _func), the probe models.")
DESIGN_REF = "DESIGN.md section 4, C06"
RULE = ("cases = part obs: pipeline kind x caller history x readout x space x execution x variant (identity / every "
        "permutation / every non-empty subset of the 3-value list / reversal / a fault in each single run); part cal: "
        "pipeline kind x history x every order of 3 decision vectors; part arch: pipeline kind x history. Non-trivial = at "
        "least 2 runs compared with their standalone exposure; distinct = distinct (case class, result bytes) signatures")
NSHARDS = 64
ASSUMPTIONS = [
    "a run is compared with the standalone exposure of the user's configuration *as passed* (a caller's detector that "
    "already holds memory / trapped charge passes that history to every run and to the reference exposure alike)",
    "values are compared as float64 numbers; the dtype of result variables is not part of this property",
    "with a failing sibling the sequential observation as a whole raises (C09); isolation is then checked on the caller's "
    "objects and on a repeated observation; with dask the surviving entries are computed individually",
]
IGNORE = ("_numbytes", "_func")

ROWS, COLS = 2, 3
K_INC = "pipeline.charge_generation.m1.arguments.inc"
K_A = "pipeline.photon_collection.p1.arguments.a"
K_T = "detector.environment.temperature"
K_LST = "pipeline.charge_generation.m1.arguments.lst"
K_EN2 = "pipeline.charge_collection.m2.enabled"
K_RT = "observation.readout.times"
KEYS = {"inc": K_INC, "a": K_A, "T": K_T, "lst": K_LST, "en2": K_EN2, "rt": K_RT}
PKS = ("mem", "lst", "dct", "both")
XPKS = ("mat", "arr")          # list argument given as a nested list / as an array (reduced set of spaces)
PRIORS = ("fresh", "memory", "filled", "both")
READOUTS = ("1", "2d", "2nd")
DET_OF = {"mem": "ccd", "lst": "cmos", "dct": "mkid", "both": "apd", "mat": "ccd", "arr": "cmos"}


def _s():
    return int(os.environ.get("VERIF_SEED", "0") or 0) % 5


# ---------------------------------------------------------------- factory (the oracle's only way to build objects)

def configured():
    s = _s()
    return {"inc": 0.5 + s, "a": 1.0 + s, "T": 100.0 + s}


def make_objects(pk, prior, bake=None):
    """The user's configuration built from scratch, with the values of `bake` ({"inc","a","T"}) baked in."""
    from pyxel.data_structure import SimplePersistence

    c = configured()
    c.update(bake or {})
    det = mk.detector(DET_OF[pk], ROWS, COLS, temperature=c["T"])
    shape = (ROWS, COLS)
    if prior in ("memory", "both"):
        det._memory = {"count": 3, "hist": [0.5, 0.25], "trapped": np.full(shape, 2.0) + np.arange(6.0).reshape(shape)}
        pers = SimplePersistence(trap_time_constants=[1.0, 10.0], trap_densities=[0.1, 0.2], geometry=shape)
        pers.trapped_charge_array = np.arange(12.0).reshape((2,) + shape) + _s()
        det.persistence = pers
    if prior in ("filled", "both"):
        det.photon.array = np.full(shape, 7.0)
        det.pixel.array = np.arange(6.0).reshape(shape) + 50.0
        det.signal.array = np.full(shape, 0.125)
        det.image.array = np.full(shape, 9, dtype=np.uint16)
        det.charge.add_charge_array(np.full(shape, 3.0))
    margs = {"inc": c["inc"]}
    if pk in ("lst", "both"):
        margs["lst"] = [5.0] if pk == "lst" else [5.0, 6.0]
        if c.get("lst") is not None:
            margs["lst"] = [float(x) for x in c["lst"]]
            if isinstance(c["lst"], np.ndarray):        # (a calibration hands a vector variable over as an array)
                margs["lst"] = np.array(margs["lst"])
    if pk == "mat":
        margs["lst"] = [[5.0, 6.0], [7.0, 8.0]]
        if c.get("lst") is not None:
            # (ParameterValues hands the rows of a swept matrix over as tuples: same representation in the reference)
            margs["lst"] = [tuple(float(x) for x in row) for row in c["lst"]]
    if pk == "arr":
        margs["lst"] = np.array([5.0, 6.0])
        if c.get("lst") is not None:                    # a swept value arrives as the list that was declared
            margs["lst"] = [float(x) for x in c["lst"]]
            if isinstance(c["lst"], np.ndarray):
                margs["lst"] = np.array(margs["lst"])
    if pk in ("dct", "both"):
        margs["dct"] = {"n": 2, "log": [0.5]} if pk == "dct" else {"n": 1}
    pipe = mk.pipeline({
        "photon_collection": [("vp.cprobes.enc", "p1", {"slot": 0, "a": c["a"], "b": 2.0, "v": [3.0, 4.0]}, True)],
        "charge_generation": [("vp.cprobes.mem", "m1", margs, True)],
        "charge_collection": [("vp.cprobes.mem", "m2", {"inc": 0.25, "lst": [1.0]}, bool(c.get("en2", False)))],
        "charge_measurement": [("props.c06_isolation.clk", "clk", {}, True)],
    })
    return det, pipe


def clk(detector):
    """model: makes the signal depend on the clock of the step (a run whose readout differs from the standalone exposure's
    in its times or its start time then differs in its data)"""
    if detector.signal._array is not None:
        detector.signal.array = detector.signal.array + 1e-3 * (8.0 * float(detector.time_step) + float(detector.absolute_time))


def make_readout(ro):
    if ro == "1":
        return mk.readout([1.0])
    if ro == "1s":                                   # one readout, the exposure starts at 0.5
        return mk.readout([1.0], start_time=0.5)
    if ro == "2d":
        return mk.readout([1.0, 2.0], non_destructive=False)
    return mk.readout([1.0, 3.0], non_destructive=True)


VARS = ("photon", "pixel", "signal", "charge")


def standalone(pk, prior, ro, bake, readout=None):
    """{var: (time, y, x) float64 array} of a fresh standalone exposure with `bake` baked in."""
    import pyxel
    from pyxel.exposure import Exposure

    det, pipe = make_objects(pk, prior, bake)
    saved = dict(probes.FAULT)
    probes.FAULT.clear()
    try:
        res = pyxel.run_mode(Exposure(readout=readout if readout is not None else make_readout(ro)), det, pipe,
                             with_inherited_coords=True)
    finally:
        probes.FAULT.update(saved)
    ds = bucket_dataset(res)
    return {v: np.asarray(ds[v].transpose("time", "y", "x").values, dtype=float) for v in VARS if v in ds}


# ---------------------------------------------------------------- spaces and variants

def space_def(space):
    """(mode, [(slot, [values])]) in declaration order"""
    s = _s()
    if space == "inc3":
        return "product", [("inc", [1.0 + s, 2.0 + s, 3.0 + s])]
    if space == "incxa":
        return "product", [("inc", [1.0 + s, 2.0 + s]), ("a", [10.0 + s, 20.0 + s])]
    if space == "seqincT":
        return "sequential", [("inc", [1.0 + s, 2.0 + s]), ("T", [150.0 + s, 250.0 + s])]
    if space == "custom":
        return "custom", [("inc", [1.0 + s, 2.0 + s]), ("a", [10.0 + s, 20.0 + s])]
    if space == "rtimes":      # the readout times themselves (a key addressing the observation, not the processor)
        return "product", [("rt", [[1.0], [2.0], [4.0]])]
    if space == "seqen2":      # the enabled flag of a model that is disabled in the caller's configuration
        return "sequential", [("inc", [1.0 + s, 2.0 + s]), ("en2", [True, False])]
    if space == "seqlst":      # a list-valued argument (which the model mutates in place) next to a scalar one
        return "sequential", [("inc", [1.0 + s, 2.0 + s, 3.0 + s]), ("lst", [[7.0, 8.0 + s], [9.0, 10.0]])]
    if space == "seqmat":      # the same with a nested list (the model changes an inner row in place)
        return "sequential", [("inc", [1.0 + s, 2.0 + s, 3.0 + s]), ("lst", [[[7.0, 8.0 + s], [9.0, 1.0]], [[1.0, 4.0], [2.0, 3.0]]])]
    raise KeyError(space)


def variants(space):
    if space == "inc3":
        out = [["perm", list(p)] for p in itertools.permutations(range(3))]
        out += [["subset", list(c)] for k in (1, 2) for c in itertools.combinations(range(3), k)]
        out += [["fault", i] for i in range(3)]
        return out
    if space == "rtimes":
        return [["id"], ["rev"]]                   # (the fault is triggered by a model argument: not applicable here)
    if space == "seqincT":
        # + the SAME Observation object run a second time after the caller changed the configured values of both swept
        #   settings: every run of the second call is a standalone exposure of the NEW configuration
        return [["id"], ["rev"], ["fault", 0], ["fault", 1], ["rerun-edit"]]
    return [["id"], ["rev"], ["fault", 0], ["fault", 1]]


def apply_variant(space, variant):
    """-> (mode, params after the perturbation, poison value or None)"""
    mode, params = space_def(space)
    params = [(k, list(v)) for k, v in params]
    poison = None
    kind = variant[0]
    if kind == "perm" or kind == "subset":
        k, vals = params[0]
        params[0] = (k, [vals[i] for i in variant[1]])
    elif kind == "rev":
        params = [(k, v[::-1]) for k, v in params]
    elif kind == "fault":
        poison = params[0][1][variant[1]]           # a value of `inc`: the run(s) receiving it fail
    return mode, params, poison


def elements(mode, params):
    if mode == "product":
        return [dict(zip([k for k, _ in params], combo)) for combo in itertools.product(*[v for _, v in params])]
    if mode == "sequential":
        return [{k: v} for k, vals in params for v in vals]
    return [{k: vals[r] for k, vals in params} for r in range(len(params[0][1]))]


def enumerate_cases(tier, seed):
    thorough = tier == "thorough"
    pks = PKS if thorough else ("mem", "both", "lst")   # quick: "lst" only for the list-valued sweep
    priors = PRIORS if thorough else ("fresh", "both")
    ros = READOUTS if thorough else ("1", "2nd")
    cases = []
    for pk in pks:
        for prior in priors:
            for ro in tuple(ros) + ("1s",):
                for space in ("inc3", "incxa", "seqincT", "custom", "seqen2", "seqlst", "rtimes"):
                    if ro == "1s" and space != "rtimes":
                        continue                    # (the start time matters where the readout itself is swept)
                    if space == "rtimes" and ro not in ("1", "1s"):
                        continue                    # the swept times replace the readout: one base readout per start time
                    if space == "seqlst" and pk not in ("lst", "both"):
                        continue                    # only these pipelines have the list argument
                    if not thorough and pk == "lst" and space != "seqlst":
                        continue                    # (configured list shorter than the swept lists)
                    for ex in ("seq", "dask"):
                        for var in variants(space):
                            cases.append({"part": "obs", "pk": pk, "prior": prior, "ro": ro, "space": space, "exec": ex,
                                          "variant": var})
    # nested-list / array arguments: sequential sweep next to a scalar parameter, and a plain sweep of the scalar
    for pk in XPKS:
        for prior in (("fresh", "both") if thorough else ("fresh",)):
            for ro in ("1", "2nd"):
                for space in (("seqmat", "inc3") if pk == "mat" else ("seqlst", "inc3")):
                    for ex in ("seq", "dask"):
                        for var in (["id"], ["rev"]) if space != "inc3" else (["perm", [0, 1, 2]], ["perm", [2, 0, 1]]):
                            cases.append({"part": "obs", "pk": pk, "prior": prior, "ro": ro, "space": space, "exec": ex,
                                          "variant": var})
    # calibration with a VECTOR variable (the model receives a slice of the decision vector) and two processors
    for pk in ("both", "arr"):
        cases.append({"part": "calin", "pk": pk, "prior": "fresh", "vector": True})
    for pk in PKS:
        for prior in (PRIORS if thorough else ("fresh", "both")):
            for order in itertools.permutations(range(3)):
                cases.append({"part": "cal", "pk": pk, "prior": prior, "order": list(order)})
    for pk in (PKS if thorough else ("both",)):
        for prior in (PRIORS if thorough else ("both",)):
            cases.append({"part": "arch", "pk": pk, "prior": prior})
    for pk in ("mem", "both"):
        cases.append({"part": "arch", "pk": pk, "prior": "fresh", "multi": True})
    for pk in (PKS if thorough else ("mem", "both")):
        for prior in (PRIORS if thorough else ("fresh", "both")):
            cases.append({"part": "calin", "pk": pk, "prior": prior})
    return cases + _legacy_of(cases)


LEGACY_SPACES = ("inc3", "incxa", "seqincT", "custom", "seqen2")


def _legacy_of(cases):
    """the same observations through the legacy entry point pyxel.observation_mode (its own implementation of the three
    modes): every sequentially executed case of the scalar spaces"""
    return [dict(c, exec="legacy") for c in cases
            if c["part"] == "obs" and c["exec"] == "seq" and c["space"] in LEGACY_SPACES and c["pk"] in ("mem", "both")]


def expected_size(tier, seed):
    nvar = 15 + 3 * 4 + 1
    # legacy cases: (pk in mem/both) x priors x readouts x variants of the five scalar spaces
    nleg = 2 * (4 if tier == "thorough" else 2) * (3 if tier == "thorough" else 2) * sum(len(variants(sp)) for sp in LEGACY_SPACES)
    if tier == "thorough":
        return 4 * 4 * 3 * 2 * (nvar + 4) + 2 * 4 * 3 * 2 * 4 + 4 * 4 * 2 * 2 * 2 + 4 * 4 * 6 + 16 + 16 + 64 + 2 + 2 + nleg
    return 2 * 2 * 2 * 2 * (nvar + 4) + 2 * 2 * 2 * 2 * 4 + 2 * 2 * 2 * 2 * 2 + 4 * 2 * 6 + 1 + 4 + 32 + 2 + 2 + nleg


# ---------------------------------------------------------------- the check

def _where(path):
    """coarse location of a changed path: which caller object and which top-level attribute"""
    obj = {"$[0]": "detector", "$[1]": "pipeline", "$[2]": "readout"}.get(path[:4], "?")
    rest = path[4:].lstrip(".")
    top = rest.split(".")[0].split("[")[0] if rest else ""
    if obj == "pipeline" and "_arguments" in path:
        top = "model-arguments"
    elif obj == "pipeline" and ".enabled" in path:
        top = "model-enabled"
    return f"{obj}.{top}"


def _cmp_arrays(got, want):
    """None or text of the first difference"""
    for v in VARS:
        if v not in want:
            continue
        if v not in got:
            return f"variable {v!r} missing"
        a, b = np.asarray(got[v], dtype=float), want[v]
        if a.shape != b.shape:
            return f"{v}: shape {a.shape} != standalone {b.shape}"
        if not np.array_equal(a, b):
            idx = np.argwhere(a != b)[0]
            return (f"{v}[time={idx[0]},y={idx[1]},x={idx[2]}] = {a[tuple(idx)]!r}, standalone exposure gives "
                    f"{b[tuple(idx)]!r}")
    return None


def run_case(case):
    if case["part"] == "obs":
        return run_obs(case)
    if case["part"] == "cal":
        return run_cal(case)
    if case["part"] == "calin":
        return run_calin(case)
    return run_arch(case)


def _legacy_dataset(res):
    """the Dataset of a legacy ObservationResult on the axes of the current result ('time' instead of 'readout_time'); the
    sequential mode returns one Dataset per parameter: only the caller's objects are judged there (None)"""
    ds = res.dataset
    if isinstance(ds, dict):
        return None
    return ds.rename({"readout_time": "time"}).load()


def run_obs(case):
    import dask
    import pyxel
    from pyxel.observation import Observation, ParameterValues

    pk, prior, ro, space, ex, variant = (case[k] for k in ("pk", "prior", "ro", "space", "exec", "variant"))
    viol = []
    mode, params, poison = apply_variant(space, variant)

    def bad(code, what, **extra):
        key = {"part": "obs", "exec": ex, "mode": mode, "code": code, "faulted": poison is not None}
        key.update(extra)
        viol.append((key, f"[obs {mode}/{ex} pipeline={pk} caller-history={prior} readout={ro} space={space} "
                          f"variant={variant}] {what}"))

    elems = elements(mode, params)
    enabled_keys = [KEYS[k] for k, _ in params]
    tmp = tempfile.mkdtemp(prefix="vp_c06_")
    hashes = []
    ncompared = 0
    try:
        det, pipe = make_objects(pk, prior)
        readout = make_readout(ro)

        def new_observation():
            kw = {}
            if mode == "custom":
                path = os.path.join(tmp, "table.txt")
                with open(path, "w") as fh:
                    for r in range(len(params[0][1])):
                        fh.write(" ".join(repr(v[r]) for _, v in params) + "\n")
                kw = {"from_file": path, "column_range": (0, len(params))}
                pv = [ParameterValues(key=KEYS[k], values="_") for k, _ in params]
            else:
                pv = [ParameterValues(key=KEYS[k], values=list(v)) for k, v in params]
            return Observation(parameters=pv, mode=mode, readout=readout, with_dask=(ex == "dask"), **kw)

        def entry_of(ds, i, elem):
            if space == "rtimes":
                # the two executions lay this sweep out differently: sequential keeps a run index and a sparse `time`
                # axis, dask relabels `time` with the swept tuples; the i-th run's frames are extracted either way
                out = {}
                for v in [v for v in VARS if v in ds]:
                    da = ds[v]
                    if "readout_time_id" in da.dims:
                        sub = da.isel(readout_time_id=i)
                        for d in [d for d in sub.dims if d not in ("time", "y", "x")]:
                            sub = sub.isel({d: 0})
                        arr = np.asarray(sub.transpose("time", "y", "x").values, dtype=float)
                        arr = arr[[t for t in range(arr.shape[0]) if not np.isnan(arr[t]).all()]]
                    else:
                        # (entries are labelled with the swept tuples, in ascending order: select by label)
                        labs = [tuple(float(x) for x in (lab if isinstance(lab, (tuple, list, np.ndarray)) else [lab]))
                                for lab in da.coords["time"].values.tolist()]
                        pos = [p for p, lab in enumerate(labs) if lab == tuple(float(x) for x in elem["rt"])]
                        if len(pos) != 1:
                            raise Problem("label-count", f"{len(pos)} entries labelled time={elem['rt']} (labels {labs})")
                        sub = da.isel(time=pos)
                        if ex == "dask":
                            sub = sub.compute()
                        arr = np.asarray(sub.transpose("time", "y", "x").values, dtype=float)
                    out[v] = arr
                return out
            if mode == "product":
                sel = select_by_labels(ds, {KEYS[k]: float(v) for k, v in elem.items()}, enabled_keys)
            else:
                sel, _ = select_by_index(ds, i)
            if ex == "dask":
                sel = sel.compute()
            return entry_arrays(sel, [v for v in VARS if v in ds])

        def compare_all(ds, skip_poisoned, tag, base=None):
            nonlocal ncompared
            for i, elem in enumerate(elems):
                if base:
                    elem = dict(base, **elem)
                if skip_poisoned and poison is not None and elem.get("inc", configured()["inc"]) == poison:
                    continue
                if "rt" in elem:
                    want = standalone(pk, prior, ro, {}, readout=mk.readout(list(elem["rt"]),
                                                                            start_time=0.5 if ro == "1s" else 0.0))
                else:
                    want = standalone(pk, prior, ro, elem)
                try:
                    got = entry_of(ds, i, elems[i])
                except Problem as p:
                    bad("entry-" + p.code, f"{tag}: cannot read the entry of element {elem}: {p.text}")
                    return
                ncompared += 1
                hashes.append(cfgx.sig([mk.arr_sig(want[v]) for v in VARS if v in want]))
                d = _cmp_arrays(got, want)
                if d:
                    bad("run-differs-from-standalone", f"{tag}: run with {elem} (others as configured): {d}")
                    return

        held = {"before": snapshot.snapshot([det, pipe, readout])}

        def _times_writeable():
            t = getattr(readout, "_times", None)
            return bool(t.flags.writeable) if isinstance(t, np.ndarray) else None

        writeable_before = _times_writeable()

        def check_caller(tag):
            after = snapshot.snapshot([det, pipe, readout])
            if _times_writeable() != writeable_before:
                # (the caller's schedule must stay the caller's: an array that was editable before the call still is)
                bad("caller-changed", f"{tag}: the caller's readout times array was writeable={writeable_before} before the call "
                    f"and is writeable={_times_writeable()} now", where="readout.times-flags")
            d = snapshot.diff(held["before"], after, ignore=IGNORE)
            if d:
                bad("caller-changed", f"{tag}: the caller's objects changed: {snapshot.fmt(d)}", where=_where(d[0][0]))
            return not d

        probes.reset()
        if poison is not None:
            probes.FAULT.update({"poison_model": "m1", "poison_a": poison, "exc": "ValueError", "msg": "BOOM-C06"})
        raised = None
        ds = None
        with dask.config.set(scheduler="synchronous"):
            try:
                obs = new_observation()
                if ex == "legacy":
                    ds = _legacy_dataset(pyxel.observation_mode(obs, det, pipe))
                else:
                    result = pyxel.run_mode(obs, det, pipe, with_inherited_coords=True)
                    ds = bucket_dataset(result)
                    if ex == "seq":
                        ds = ds.load()
            except Exception as e:  # noqa: BLE001
                raised = e
            if raised is not None and not (poison is not None and "BOOM-C06" in str(raised)):
                bad("raised", f"the observation raised {type(raised).__name__}: {str(raised)[:300]}")
                return {"viol": viol, "sig": cfgx.sig([case, "raised"]), "nontrivial": False}
            ok = check_caller("after the call" + (" that raised" if raised is not None else ""))
            if raised is None and ds is not None:
                try:
                    compare_all(ds, skip_poisoned=True, tag="first call")
                except Exception as e:  # noqa: BLE001
                    if poison is not None and "BOOM-C06" in str(e):
                        bad("failing-sibling-computed", "computing the entry of a non-failing run executed the failing run")
                    else:
                        raise
                ok = check_caller("after computing the result") and ok
            if variant[0] == "rerun-edit" and raised is None and ok:
                newc = {"inc": configured()["inc"] + 40.0, "T": configured()["T"] + 40.0}
                pipe.charge_generation.m1.arguments["inc"] = newc["inc"]
                det.environment.temperature = newc["T"]
                held["before"] = snapshot.snapshot([det, pipe, readout])
                try:
                    if ex == "legacy":
                        ds3 = _legacy_dataset(pyxel.observation_mode(obs, det, pipe))
                    else:
                        ds3 = bucket_dataset(pyxel.run_mode(obs, det, pipe, with_inherited_coords=True))
                        if ex == "seq":
                            ds3 = ds3.load()
                    if ds3 is not None:
                        compare_all(ds3, skip_poisoned=False, base=newc,
                                    tag="second call of the same Observation after the caller changed the configuration")
                except Exception as e:  # noqa: BLE001
                    bad("raised", f"the second call raised {type(e).__name__}: {str(e)[:300]}", stage="rerun")
                check_caller("after the second call")
            if poison is not None and ok:
                # the same caller's objects, the failure gone: every run must still equal its standalone exposure
                probes.FAULT.clear()
                try:
                    if ex == "legacy":
                        ds2 = _legacy_dataset(pyxel.observation_mode(new_observation(), det, pipe))
                    else:
                        result2 = pyxel.run_mode(new_observation(), det, pipe, with_inherited_coords=True)
                        ds2 = bucket_dataset(result2)
                        if ex == "seq":
                            ds2 = ds2.load()
                    if ds2 is not None:
                        compare_all(ds2, skip_poisoned=False, tag="repeated call after a failed one")
                except Exception as e:  # noqa: BLE001
                    bad("raised", f"the repeated observation raised {type(e).__name__}: {str(e)[:300]}", stage="repeat")
                check_caller("after the repeated call")
    finally:
        probes.FAULT.clear()
        shutil.rmtree(tmp, ignore_errors=True)
    return {"viol": viol, "sig": cfgx.sig([pk, prior, ro, space, ex, variant[0], sorted(hashes)]),
            "nontrivial": ncompared >= 2, "n": max(1, ncompared),
            "outcome": {"elements": len(elems), "compared": ncompared, "raised": type(raised).__name__ if raised else None}}


# ---------------------------------------------------------------- calibration

def _cal_objects(pk, prior, tmp):
    from pyxel.observation import ParameterValues
    from pyxel.pipelines import Processor

    from vp import calib

    tgt = os.path.join(tmp, "target.npy")
    target = np.arange(6.0).reshape(ROWS, COLS) + _s()
    np.save(tgt, target)
    # (the second variable is declared logarithmic: the optimiser's component is the base-10 logarithm of the value)
    cal = calib.calibration([tgt], [ParameterValues(key=K_INC, values="_", boundaries=(0.0, 10.0)),
                                    ParameterValues(key=K_A, values="_", boundaries=(1.0, 100.0), logarithmic=True)],
                            fit_range=(0, ROWS, 0, COLS), pygmo_seed=1 + _s(), population_size=8, generations=1)
    det, pipe = make_objects(pk, prior)
    return cal, det, pipe, target, Processor(detector=det, pipeline=pipe)


def run_cal(case):
    from pyxel.calibration.fitness import sum_of_abs_residuals
    from pyxel.exposure import Readout

    from vp import calib

    pk, prior, order = case["pk"], case["prior"], case["order"]
    viol = []
    s = _s()
    dvs = [[1.0 + s, 1.0], [2.0 + s, 2.0], [3.0 + s, 0.0]]        # (second component: log10 of a = 10, 100, 1)

    def bad(code, what, **extra):
        key = {"part": "cal", "code": code}
        key.update(extra)
        viol.append((key, f"[calibration fitness pipeline={pk} caller-history={prior} evaluation order={order}] {what}"))

    tmp = tempfile.mkdtemp(prefix="vp_c06_")
    fits = []
    try:
        cal, det, pipe, target, proc = _cal_objects(pk, prior, tmp)
        before = snapshot.snapshot([det, pipe])
        try:
            problem, _ = calib.real_problem(cal, proc)
            probes.reset()
            for j in order:
                dv = dvs[j]
                vec = np.array(dv, dtype=float)
                got = float(problem.fitness(vec)[0])
                # the caller's decision vector is the caller's: unchanged, and evaluating the SAME array again gives the same
                if not np.array_equal(vec, np.array(dv, dtype=float)):
                    bad("caller-changed", f"fitness() changed the decision vector it was given from {dv} to {vec.tolist()}",
                        where="decision-vector")
                    break
                again = float(problem.fitness(vec)[0])
                if again != got:
                    bad("fitness-differs-from-standalone", f"the same candidate {dv} evaluated twice in a row gives {got!r} then "
                        f"{again!r}", position="repeat")
                    break
                ref = standalone(pk, prior, "1", {"inc": dv[0], "a": float(10.0 ** dv[1])}, readout=Readout())
                want = float(sum_of_abs_residuals(simulated=ref["pixel"][0], target=target,
                                                  weighting=np.ones_like(target)))
                fits.append([j, want])
                if got != want:
                    bad("fitness-differs-from-standalone", f"fitness of candidate {dv} evaluated at position "
                        f"{order.index(j)} is {got!r}; a standalone exposure with these values gives {want!r}",
                        position=("first" if order.index(j) == 0 else "later"))
                    break
        except Exception as e:  # noqa: BLE001
            bad("raised", f"{type(e).__name__}: {str(e)[:300]}")
        after = snapshot.snapshot([det, pipe])
        d = snapshot.diff(before, after, ignore=IGNORE)
        if d:
            bad("caller-changed", f"the caller's objects changed: {snapshot.fmt(d)}", where=_where(d[0][0]))
    finally:
        shutil.rmtree(tmp, ignore_errors=True)
    return {"viol": viol, "sig": cfgx.sig(["cal", pk, prior, sorted(fits)]), "nontrivial": len(fits) >= 2,
            "n": max(1, len(fits)), "outcome": {"fitness": fits}}


def run_calin(case):
    """calibration with `result_input_arguments`: one processor per (target, input value); the caller's objects must
    not receive the input values, and the fitness is the sum over the pairs of standalone exposures"""
    from pyxel.calibration.fitness import sum_of_abs_residuals
    from pyxel.exposure import Readout
    from pyxel.observation import ParameterValues
    from pyxel.pipelines import Processor

    from vp import calib

    pk, prior = case["pk"], case["prior"]
    viol = []
    s = _s()

    def bad(code, what, **extra):
        key = {"part": "calin", "code": code}
        key.update(extra)
        viol.append((key, f"[calibration with input arguments pipeline={pk} caller-history={prior}] {what}"))

    tmp = tempfile.mkdtemp(prefix="vp_c06_")
    fits = []
    try:
        temps = [150.0 + s, 250.0 + s]
        targets, files = [], []
        for i, _t in enumerate(temps):
            t = np.arange(6.0).reshape(ROWS, COLS) * (i + 1) + s
            fn = os.path.join(tmp, f"target{i}.npy")
            np.save(fn, t)
            targets.append(t)
            files.append(fn)
        second = ParameterValues(key=K_A, values="_", boundaries=(0.0, 100.0))
        if case.get("vector"):
            second = ParameterValues(key=K_LST, values=["_", "_"], boundaries=(0.0, 100.0))
        cal = calib.calibration(files, [ParameterValues(key=K_INC, values="_", boundaries=(0.0, 10.0)), second],
                                fit_range=(0, ROWS, 0, COLS), pygmo_seed=1 + s, population_size=8, generations=1,
                                result_input_arguments=[ParameterValues(key=K_T, values=list(temps))])
        det, pipe = make_objects(pk, prior)
        proc = Processor(detector=det, pipeline=pipe)
        before = snapshot.snapshot([det, pipe])
        try:
            problem, _ = calib.real_problem(cal, proc)
            d = snapshot.diff(before, snapshot.snapshot([det, pipe]), ignore=IGNORE)
            if d:
                bad("caller-changed", f"building the problem changed the caller's objects: {snapshot.fmt(d)}",
                    where=_where(d[0][0]), stage="build")
            for dv in ([1.0 + s, 10.0, 30.0], [2.0 + s, 20.0, 40.0]) if case.get("vector") else ([1.0 + s, 10.0], [2.0 + s, 20.0]):
                got = float(problem.fitness(np.array(dv, dtype=float))[0])
                want = 0.0
                for t, tgt in zip(temps, targets):
                    bake = {"inc": dv[0], "a": dv[1], "T": t}
                    if case.get("vector"):          # the model receives the vector as an array
                        bake = {"inc": dv[0], "T": t, "lst": np.array(dv[1:], dtype=float)}
                    ref = standalone(pk, prior, "1", bake, readout=Readout())
                    want += float(sum_of_abs_residuals(simulated=ref["pixel"][0], target=tgt, weighting=np.ones_like(tgt)))
                fits.append(want)
                if got != want:
                    bad("fitness-differs-from-standalone", f"fitness of candidate {dv} is {got!r}; the standalone exposures "
                        f"of the (target, input) pairs sum to {want!r}")
                    break
        except Exception as e:  # noqa: BLE001
            bad("raised", f"{type(e).__name__}: {str(e)[:300]}")
        d = snapshot.diff(before, snapshot.snapshot([det, pipe]), ignore=IGNORE)
        if d and not any(k["code"] == "caller-changed" for k, _ in viol):
            bad("caller-changed", f"the caller's objects changed: {snapshot.fmt(d)}", where=_where(d[0][0]), stage="fitness")
    finally:
        shutil.rmtree(tmp, ignore_errors=True)
    return {"viol": viol, "sig": cfgx.sig(["calin", pk, prior, fits, bool(case.get("vector"))]), "nontrivial": len(fits) >= 2, "n": max(1, len(fits)),
            "outcome": {"fitness": fits}}


def _arch_multi(pk, prior, tmp):
    """2 islands x 2 (target, input value) pairs"""
    from pyxel.observation import ParameterValues

    from vp import calib

    s = _s()
    temps = [150.0 + s, 250.0 + s]
    files = []
    for i, _t in enumerate(temps):
        fn = os.path.join(tmp, f"mtarget{i}.npy")
        np.save(fn, np.arange(6.0).reshape(ROWS, COLS) * (i + 1) + s)
        files.append(fn)
    cal = calib.calibration(files, [ParameterValues(key=K_INC, values="_", boundaries=(0.0, 10.0)),
                                    ParameterValues(key=K_A, values="_", boundaries=(0.0, 100.0))],
                            fit_range=(0, ROWS, 0, COLS), pygmo_seed=1 + s, population_size=8, generations=1,
                            num_islands=2, num_evolutions=1, topology="unconnected",
                            result_input_arguments=[ParameterValues(key=K_T, values=list(temps))])
    det, pipe = make_objects(pk, prior)
    return cal, det, pipe, temps


def run_arch(case):
    import pyxel
    from pyxel.exposure import Readout

    pk, prior = case["pk"], case["prior"]
    viol = []
    tmp = tempfile.mkdtemp(prefix="vp_c06_")
    try:
        temps = None
        if case.get("multi"):
            cal, det, pipe, temps = _arch_multi(pk, prior, tmp)
        else:
            cal, det, pipe, target, _ = _cal_objects(pk, prior, tmp)
        before = snapshot.snapshot([det, pipe])
        err = None
        try:
            res = pyxel.run_mode(cal, det, pipe, with_inherited_coords=True)
            if temps is not None:
                # every (island, target/input pair) entry of the simulated outputs is the standalone exposure of that
                # island's champion with that pair's input value - not the data of another entry
                par = np.asarray(res["/champion/parameters"].transpose("island", "evolution", "param_id").values, dtype=float)
                sim = res["/simulated/pixel"].compute()
                for i in range(par.shape[0]):
                    for p_, t in enumerate(temps):
                        got = np.asarray(sim.isel(island=i, processor=p_).transpose("readout_time", "y", "x").values,
                                         dtype=float)
                        ref = standalone(pk, prior, "1", {"inc": float(par[i, -1, 0]), "a": float(par[i, -1, 1]), "T": t},
                                         readout=Readout())["pixel"]
                        if got.shape != ref.shape or not np.array_equal(got, ref):
                            viol.append(({"part": "arch", "code": "simulated-entry-differs-from-standalone"},
                                         f"[calibration run pipeline={pk} caller-history={prior}, 2 islands x 2 inputs] "
                                         f"/simulated/pixel of island {i}, pair {p_} is {got.tolist()} but a standalone "
                                         f"exposure with that island's champion {par[i, -1].tolist()} and input T={t} "
                                         f"gives {ref.tolist()}"))
                            break
        except Exception as e:  # noqa: BLE001
            err = e
        after = snapshot.snapshot([det, pipe])
        d = snapshot.diff(before, after, ignore=IGNORE)
        what = f"[calibration run pipeline={pk} caller-history={prior}] "
        if err is not None:
            viol.append(({"part": "arch", "code": "raised"}, what + f"raised {type(err).__name__}: {str(err)[:300]}"))
        if d:
            viol.append(({"part": "arch", "code": "caller-changed", "where": _where(d[0][0])},
                         what + f"the caller's objects changed: {snapshot.fmt(d)}"))
    finally:
        shutil.rmtree(tmp, ignore_errors=True)
    return {"viol": viol, "sig": cfgx.sig(["arch", pk, prior, len(after), bool(case.get("multi"))]), "nontrivial": True, "n": 1,
            "outcome": {"snapshot_entries": len(after)}}


cfgx.install(__import__("sys").modules[__name__])
