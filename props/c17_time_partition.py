"""C17 - splitting an exposure into more readouts does not change the collected charge.

Bounded exhaustive enumeration (vp.cfgx): every partition of an exposure interval [s, s+6] into readouts on a G-point
grid (G=6: 32 partitions, G=12: 2048 partitions, i.e. 1..12 readouts), for combinations of the REAL Pyxel
flux-integrating models (illumination uniform / rectangular / elliptic, load_image, stripe_pattern, load_charge,
dark_current without noise) followed by simple_conversion (expectation value, no binomial sampling) and
simple_collection, executed through pyxel.run_mode.  Non-destructive: the last pixel slice must equal that of the
single-readout schedule.  Destructive: every frame must equal (its own duration) x (rate frame); the same for all
intervals scaled by 2 and 3.
"""
from __future__ import annotations

import os
import shutil
import tempfile

import numpy as np

from vp import cfgx, mk

ID = "C17"
LEVEL = "exploration"
ENGINE = "cfgx"
TIMEOUT = 2400
NSHARDS = 96
ENV = {"NUMBA_DISABLE_JIT": "1"}
TECHNIQUE = ("bounded exhaustive enumeration of all partitions of an exposure interval (all subsets of the interior "
             "grid points) x combinations of the real flux models x argument palettes x geometries x start times, "
             "executed through pyxel.run_mode; final / per-frame pixel charge compared with the single-readout run "
             "(metamorphic reference)")
LEVEL_TEXT = ("For each non-empty combination (all singletons and pairs, the full set and the full set minus one or two "
              "models) of the 7 deterministic flux models, each with a dyadic and a non-dyadic level / time-scale "
              "palette, on 2x3 / 3x4 (2x4 / 4x2 with stripe_pattern) detectors and start times 0 and 0.5, EVERY "
              "partition of [s, s+6] on a 6-point grid (32) - and on a 12-point grid (2048 partitions, 1..12 "
              "readouts) for the singletons and the full combination - is run in non-destructive and destructive "
              "mode through pyxel.run_mode. Non-destructive: last pixel slice == single-readout pixel (rtol 1e-12). "
              "Destructive: every frame == (t_i - t_(i-1)) x (single-readout frame / 6), also for all intervals "
              "scaled by 2 and 3.")
LEVEL_NOTE = ("Bounded: grids of 6 and 12 points on an interval of length 6, two argument palettes, four geometries. "
              "Equality is tested with rtol 1e-12 (the dyadic palette is exact in binary floating point, the tolerance "
              "only keeps a re-associating refactoring from tripping the check). Random models are switched off "
              "(temporal_noise=False, binomial_sampling=False) as the statement prescribes. Trusted: the "
              "single-readout run as reference (its value is checked to be non-zero), numpy.")
DESIGN_REF = "DESIGN.md section 4, C17"
RULE = ("cases = (model combination, palette, geometry, start, grid G, chunk of the 2**(G-1) partitions, modes, "
        "scales); every partition of the chunk is run in every listed mode; non-trivial = the reference rate frame is "
        "non-zero; distinct = distinct (combination, palette, geometry, start, G, chunk, reference frame) signatures; "
        "evaluations = number of exposure runs")
ASSUMPTIONS = [
    "readout times are on the same axis as the start time (first interval = t_0 - start), as C02 establishes",
    "equality up to rtol 1e-12 (the statement is about real numbers; binary rounding of sums is not a violation)",
    "charge_blocks / charge_injection is not among the models named by the statement and is not included",
    "stripe_pattern is only run on detectors with even numbers of rows and columns (its pattern generator returns "
    "a wrong shape for odd sizes, which is outside this property)",
]

UNITS = ["ill_u", "ill_r", "ill_e", "img", "stripe", "chg", "dc", "imgc"]
LENGTH = 6.0
# an irregular grid (readout times that are not multiples of anything convenient); the last point closes the interval
# offsets which, added to the start time 2.5, give the whole numbers 3 .. 8 (family "G6n": integer-typed readout times)
HALFINT = [0.5, 1.5, 2.5, 3.5, 4.5, 5.5]
IRREGULAR = [0.123456789, 1.000000123, 2.718281828, 3.141592653, 4.4444444441, 6.0]
P = "pyxel.models."


def _seed():
    return int(os.environ.get("VERIF_SEED", "0") or 0)


# ------------------------------------------------------------------ enumeration

def _combos(tier):
    single = [[u] for u in UNITS]
    pairs = cfgx.pairs(UNITS)
    if tier != "thorough":
        return single + pairs
    full = [list(UNITS)]
    minus1 = [[u for u in UNITS if u != x] for x in UNITS]
    minus2 = [[u for u in UNITS if u not in xy] for xy in cfgx.pairs(UNITS)]
    return single + pairs + full + minus1 + minus2


def _geos(units, idx):
    if "stripe" in units:
        return [[2, 4], [4, 2]]
    return [[2, 3], [3, 4]]


def enumerate_cases(tier, seed):
    thorough = tier == "thorough"
    cases = []
    for ci, units in enumerate(_combos(tier)):
        for pi, palette in enumerate(("dyadic", "nondyadic")):
            for gi, geo in enumerate(_geos(units, ci)):
                for si, start in enumerate((0.0, 0.5)):
                    if not thorough and (ci + pi + gi + si) % 2 and len(units) > 1:
                        continue            # quick: pairs get half of the palette x geometry x start product
                    # (2**-20: a microsecond-scale exposure - the law of proportionality has no preferred time unit)
                    scales = [1, 2, 3, 2.0 ** -20] if len(units) == 1 and palette == "dyadic" else [1]
                    cases.append({"fam": "G6", "units": units, "palette": palette, "geo": geo, "start": start, "G": 6,
                                  "chunk": [0, 1], "modes": ["nd", "d"], "scales": scales})
    # the other detector types (their own reset / empty code paths)
    for kind in ("cmos", "mkid", "apd"):
        for units in (["ill_u"], ["chg"], ["ill_u", "chg"]):
            cases.append({"fam": "G6d", "units": units, "palette": "dyadic", "geo": [2, 3], "start": 0.5, "G": 6,
                          "chunk": [0, 1], "modes": ["nd", "d"], "scales": [1], "det": kind})
    # the same with readouts on an irregular grid
    for units in [[u] for u in UNITS] + ([list(UNITS)] if thorough else []):
        for palette in ("dyadic", "nondyadic"):
            geo = [2, 4] if "stripe" in units else [2, 3]
            cases.append({"fam": "G6i", "units": units, "palette": palette, "geo": geo, "start": 0.5, "G": 6,
                          "chunk": [0, 1], "modes": ["nd", "d"], "scales": [1], "grid": "irregular"})
    # whole-number readout times handed over as Python ints next to a fractional start time (2.5 -> 3, 4, ..., 8)
    for units in (["ill_u"], ["chg"], ["dc"], ["ill_u", "chg"]):
        cases.append({"fam": "G6n", "units": units, "palette": "dyadic", "geo": [2, 3], "start": 2.5, "G": 6,
                      "chunk": [0, 1], "modes": ["nd", "d"], "scales": [1], "grid": "halfint", "length": 5.5,
                      "int_times": True})
    if thorough:
        nch = 8
        for units in [[u] for u in UNITS] + [list(UNITS)]:
            geo = [2, 4] if "stripe" in units else [2, 3]
            modes = ["nd", "d"] if units in (["ill_u"], ["chg"], ["dc"], list(UNITS)) else ["nd"]
            for mode in modes:
                for ch in range(nch):
                    cases.append({"fam": "G12", "units": units, "palette": "dyadic", "geo": geo, "start": 0.5, "G": 12,
                                  "chunk": [ch, nch], "modes": [mode], "scales": [1]})
    else:
        # one 12-point family already in the quick tier: the full combination, non-destructive, 1/8 of the partitions
        cases.append({"fam": "G12", "units": list(UNITS), "palette": "dyadic", "geo": [2, 4], "start": 0.5, "G": 12,
                      "chunk": [5, 16], "modes": ["nd"], "scales": [1]})
    return cases


def expected_size(tier, seed):
    thorough = tier == "thorough"
    n = 0
    for ci, units in enumerate(_combos(tier)):
        for pi in range(2):
            for gi in range(2):
                for si in range(2):
                    if not thorough and (ci + pi + gi + si) % 2 and len(units) > 1:
                        continue
                    n += 1
    if thorough:
        n += 8 * (4 * 2 + 5 * 1)
    else:
        n += 1
    n += 2 * (len(UNITS) + (1 if thorough else 0)) + 9 + 4
    return n


# ------------------------------------------------------------------ pipeline of real models

def build_pipeline(units, palette, geo, tmp):
    """-> (groups for mk.pipeline, quantum efficiency, temperature)"""
    rows, cols = geo
    k = _seed() % 3
    ramp = np.arange(rows * cols, dtype=float).reshape(rows, cols) + 1 + k
    dy = palette == "dyadic"
    photon, charge = [], []
    center = [1, 1]
    if "ill_u" in units:
        photon.append((P + "photon_collection.illumination", "ill_u",
                       {"level": (4.0 + k) if dy else (0.3 + k), "option": "uniform", "time_scale": 2.0 if dy else 3.0}))
    if "ill_r" in units:
        photon.append((P + "photon_collection.illumination", "ill_r",
                       {"level": (2.0 + k) if dy else 1.7, "option": "rectangular", "object_size": [1, 2],
                        "object_center": center, "time_scale": 1.0 if dy else 0.7}))
    if "ill_e" in units:
        photon.append((P + "photon_collection.illumination", "ill_e",
                       {"level": (3.0 + k) if dy else 2.3, "option": "elliptic", "object_size": [2, 2],
                        "object_center": center, "time_scale": 0.5 if dy else 1.0}))
    if "img" in units:
        f = os.path.join(tmp, f"img_{_seed()}.npy")
        np.save(f, ramp)
        photon.append((P + "photon_collection.load_image", "img",
                       {"image_file": f, "multiplier": 2.0 if dy else 1.1, "time_scale": 0.5 if dy else 3.0}))
    if "imgc" in units:
        # the same model reading the file as ADU of a 12-bit converter (convert_to_photons): another scaling branch
        f = os.path.join(tmp, f"imgc_{_seed()}.npy")
        np.save(f, ramp * 4)
        photon.append((P + "photon_collection.load_image", "imgc",
                       {"image_file": f, "convert_to_photons": True, "bit_resolution": 12,
                        "multiplier": 1.0 if dy else 1.3, "time_scale": 2.0 if dy else 0.9}))
    if "stripe" in units:
        photon.append((P + "photon_collection.stripe_pattern", "stripe",
                       {"period": 2, "level": (8.0 + k) if dy else 0.9, "startwith": 1 if dy else 0,
                        "time_scale": 4.0 if dy else 0.3}))
    if photon:
        charge.append((P + "charge_generation.simple_conversion", "conv",
                       {"quantum_efficiency": 0.5 if dy else 0.7, "binomial_sampling": False}))
    if "chg" in units:
        f = os.path.join(tmp, f"chg_{_seed()}.npy")
        np.save(f, ramp * 2 + 3)
        charge.append((P + "charge_generation.load_charge", "chg", {"filename": f, "time_scale": 4.0 if dy else 7.0}))
    if "dc" in units:
        charge.append((P + "charge_generation.dark_current", "dc",
                       {"figure_of_merit": (1.0 + k) if dy else 0.37, "temporal_noise": False}))
    groups = {}
    if photon:
        groups["photon_collection"] = photon
    groups["charge_generation"] = charge
    groups["charge_collection"] = [(P + "charge_collection.simple_collection", "coll", {})]
    return groups, (300.0 if dy else 280.0)


def run_schedule(units, palette, geo, start, times, nd, tmp, via="ctor", kind="ccd"):
    """one real exposure -> pixel cube (time, y, x) and the time labels.
    via: how the schedule reaches the Readout - constructor, the `times` setter of an existing readout, or replace()"""
    import pyxel

    groups, temperature = build_pipeline(units, palette, geo, tmp)
    det = mk.detector(kind, geo[0], geo[1], temperature=temperature)
    if via in ("start_setter", "deprecated"):
        # the start time reaches the readout through its setter, after construction
        exp = mk.exposure(times, nd, start - 1.0)
        exp.readout.start_time = start
        if via == "deprecated":
            import warnings

            with warnings.catch_warnings():
                warnings.simplefilter("ignore")
                ds = pyxel.exposure_mode(exp, det, mk.pipeline(groups))
            px = ds["pixel"]
            return (np.asarray(px.transpose("readout_time", "y", "x").values, dtype=float),
                    [float(t) for t in px["readout_time"].values])
    elif via == "twin":
        # the SAME detector just went through an exposure with the same times in the other readout mode
        pyxel.run_mode(mk.exposure(times, not nd, start), det, mk.pipeline(groups), with_inherited_coords=True)
        exp = mk.exposure(times, nd, start)
    elif via == "ctor" or len(times) < 2:
        exp = mk.exposure(times, nd, start)
    else:
        exp = mk.exposure([times[-1]], nd, start)
        if via == "setter":
            exp.readout.times = list(times)
        else:
            exp.readout = exp.readout.replace(times=list(times))
    res = pyxel.run_mode(exp, det, mk.pipeline(groups), with_inherited_coords=True)
    node = res["/bucket"] if "bucket" in res.children else res
    px = node["pixel"]
    return np.asarray(px.transpose("time", "y", "x").values, dtype=float), [float(t) for t in px["time"].values]


def partitions(G, chunk):
    """all subsets of the G-1 interior grid points (bit masks), restricted to the chunk [i, n]"""
    total = 2 ** (G - 1)
    i, n = chunk
    lo, hi = (total * i) // n, (total * (i + 1)) // n
    for mask in range(lo, hi):
        yield mask, [k for k in range(1, G) if mask >> (k - 1) & 1] + [G]


def close(a, b):
    a, b = np.asarray(a, dtype=float), np.asarray(b, dtype=float)
    scale = float(np.max(np.abs(b))) if b.size else 0.0
    return a.shape == b.shape and bool(np.allclose(a, b, rtol=1e-12, atol=1e-12 * scale))


def run_case(case):
    units, palette, geo, start, G = case["units"], case["palette"], case["geo"], float(case["start"]), int(case["G"])
    viol = []
    ukey = "+".join(units) if len(units) <= 2 else f"{len(units)}-models"

    def bad(code, what, **extra):
        key = {"code": code, "units": ukey, "palette": palette}
        if case.get("det", "ccd") != "ccd":
            key["det"] = case["det"]
        key.update(extra)
        viol.append((key, f"{what}; models={units} palette={palette} geometry={geo} start={start} grid={G}"))

    tmp = tempfile.mkdtemp(prefix="vp_c17_")
    runs = 0
    L = float(case.get("length", LENGTH))
    as_int = bool(case.get("int_times"))       # the readout times are handed over as Python ints (3 instead of 3.0)
    try:
        end = start + L
        try:
            ref, _ = run_schedule(units, palette, geo, start, [int(round(end))] if as_int else [end], True, tmp,
                                  kind=case.get("det", "ccd"))
            runs += 1
        except Exception as e:  # noqa: BLE001
            bad("raised", f"single-readout exposure times=[{end}] raised {type(e).__name__}: {str(e)[:300]}", mode="single")
            return {"viol": viol, "sig": cfgx.sig(["raised", case]), "nontrivial": False, "n": 1}
        ref = ref[-1]
        rate = ref / L
        nontrivial = bool(np.any(ref != 0)) and bool(np.all(np.isfinite(ref)))
        if not nontrivial:
            raise RuntimeError(f"harness: the reference frame of {units}/{palette}/{geo} is zero or not finite: {ref}")
        step = L / G
        seen = set()
        for mask, idx in partitions(G, case["chunk"]):
            for scale in case["scales"]:
                if case.get("grid") == "irregular":
                    times = [start + scale * IRREGULAR[k - 1] for k in idx]
                elif case.get("grid") == "halfint":
                    times = [int(round(start + HALFINT[k - 1])) for k in idx]
                else:
                    times = [start + scale * step * k for k in idx]
                for mode in case["modes"]:
                    if mode == "nd" and scale != 1:
                        continue
                    code_done = (mode, scale)
                    try:
                        # the way the schedule is handed over rotates with the partition (all three must be equivalent)
                        cube, labels = run_schedule(units, palette, geo, start, times, mode == "nd", tmp,
                                                    via=("ctor", "setter", "replace", "start_setter", "deprecated", "twin")[mask % 6],
                                                    kind=case.get("det", "ccd"))
                        runs += 1
                    except Exception as e:  # noqa: BLE001
                        if ("raised",) + code_done not in seen:
                            seen.add(("raised",) + code_done)
                            bad("raised", f"{mode} exposure times={times} raised {type(e).__name__}: {str(e)[:300]}",
                                mode=mode, readouts="1" if len(times) == 1 else ">=2")
                        continue
                    if cube.shape[0] != len(times):
                        if ("count",) + code_done not in seen:
                            seen.add(("count",) + code_done)
                            bad("slice-count", f"{mode} exposure times={times} returned {cube.shape[0]} pixel slices",
                                mode=mode)
                        continue
                    if mode == "nd":
                        if not close(cube[-1], ref) and ("nd",) not in seen:
                            seen.add(("nd",))
                            bad("nd-final-differs", f"non-destructive exposure with readouts at {times} ends with pixel "
                                f"{cube[-1].tolist()} but the single readout at {end} gives {ref.tolist()}",
                                mode="nd", readouts=_rclass(len(times)))
                    else:
                        prev = start
                        for i, t in enumerate(times):
                            want = rate * (t - prev)
                            if not close(cube[i], want):
                                if ("d", scale != 1, i == 0) not in seen:
                                    seen.add(("d", scale != 1, i == 0))
                                    bad("frame-not-proportional", f"destructive exposure with readouts at {times}"
                                        f"{' (intervals scaled by ' + str(scale) + ')' if scale != 1 else ''}: frame "
                                        f"{i} of duration {t - prev} is {cube[i].tolist()}, expected duration x rate = "
                                        f"{want.tolist()} (rate frame = single-readout frame / {LENGTH})",
                                        mode="d", frame="first" if i == 0 else "later", scaled=scale != 1)
                                break
                            prev = t
        sig = cfgx.sig([units, palette, geo, start, G, case["chunk"], case["modes"], np.round(ref, 9).tolist()])
        return {"viol": viol, "sig": sig, "nontrivial": nontrivial, "n": runs,
                "outcome": {"reference_pixel": ref.tolist(), "runs": runs}}
    finally:
        shutil.rmtree(tmp, ignore_errors=True)


def _rclass(n):
    return "1" if n == 1 else ("2" if n == 2 else ">=3")


cfgx.install(__import__("sys").modules[__name__])
