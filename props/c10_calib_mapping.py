"""C10 - calibration candidates map to the right parameters, inside their bounds.

Bounded exhaustive enumeration (vp.cfgx) of *layouts* of 1..3 calibrated parameters (scalar / vector-2 /
vector-3 x linear / logarithmic x shared / per-component boundaries).  For every layout the real
`ModelFittingDataTree` (wired by the real `run_calibration`) is asked for its bounds, for the conversion
of decision vectors (1-D and 2-D) and for the fitness of decision vectors, while one probe model per
calibrated parameter logs the value it received; everything is compared with a 15-line reference slice
walker.  Then real optimisation runs (pyxel.run_mode(Calibration...), sade / sga / nlopt) are executed
and every logged evaluation and every reported champion / best individual is checked.
"""
from __future__ import annotations

import itertools
import os
import shutil
import tempfile
from pathlib import Path

import numpy as np

from vp import calib, cfgx, mk

ID = "C10"
LEVEL = "exploration"
ENGINE = "cfgx"
TIMEOUT = 1500
TECHNIQUE = ("bounded exhaustive enumeration of calibrated-parameter layouts (10 + 100 + 1000 layouts of 1..3 parameters of "
             "kind scalar/vector-2/vector-3 x linear/logarithmic x shared/per-component boundaries) on the real fitting "
             "problem with one recording probe model per parameter, compared with a reference slice walker; plus real "
             "optimisation runs (sade, sga, nlopt x seeds x islands) whose every evaluation and reported individual is checked")
LEVEL_TEXT = ("Every layout of the bounded family is built as a real Calibration, the real ModelFittingDataTree is obtained "
              "from the real run_calibration, and get_bounds(), convert_to_parameters() on 1-D and 2-D input (all corners of "
              "the decision box for <= 4 components, extreme/alternating corners otherwise, centre, staircase) and the "
              "argument values received by the probe models in fitness() / set by update_processor() are compared with a "
              "reference slice walker. Real optimisations through pyxel.run_mode are run for all layouts of <= 2 parameters "
              "x 3 algorithms (seeds, 1-2 islands): each logged evaluation must lie inside the declared boundaries, each "
              "reported champion/best decision inside the decision box, reported parameters must be the conversion of the "
              "reported decisions and must be among the logged evaluations."
              " A sub-family uses ONE Calibration object twice (first optimisation with other boundaries for the same keys, then the parameters re-declared).")
LEVEL_NOTE = ("Bounded: <= 3 calibrated parameters, vectors of length 2 and 3, one boundary palette per VERIF_SEED, populations "
              "of 8 and <= 2 generations x 2 evolutions. Decision vectors inside the box are represented by corners, centre "
              "and a staircase vector (the mapping is affine per component in linear slices and 10** in logarithmic ones). "
              "Trusted: pygmo, the reference walker, a relative tolerance of 1e-12 on 10**x and log10(x).")
DESIGN_REF = "DESIGN.md section 4, C10"
RULE = ("cases = all layouts (ordered tuples of 1..3 parameter kinds out of 10 kinds; quick: <= 2 parameters) + optimisation "
        "runs (layouts of <= 2 parameters x algorithm x seed x islands; quick: each layout once, single-parameter layouts with all 3 algorithms); a case is non-trivial when "
        "at least one probe evaluation was logged; distinct = distinct (layout, expected bounds, family) signatures")
NSHARDS = 64
ASSUMPTIONS = [
    "a probe model per calibrated parameter stands in for real models (the mapping code does not look inside a model)",
    "10**x and log10(x) are compared with relative tolerance 1e-12 (libm/numpy differences are not defects)",
    "pygmo keeps its individuals inside the box handed to it by get_bounds() (trusted)",
]

KINDS = ("s", "sL", "v2", "v2p", "v2L", "v2Lp", "v3", "v3p", "v3L", "v3Lp")
GROUPS = ("photon_collection", "charge_generation", "charge_collection")
LOG: list = []          # one dict {model name: [values]} per complete pipeline run
RTOL = 1e-12


def kind_info(k):
    n = 1 if k[0] == "s" else int(k[1])
    return {"n": n, "vector": k[0] == "v", "log": "L" in k, "per": k.endswith("p")}


# ---------------------------------------------------------------- probe model

def probe(detector, x=None, n=1, gain=1.0):
    """Logs the value received under `x`; when all `n` probes of this run have reported, the run's record
    {model name: values} is appended to LOG.  Adds a smooth function of the values to the pixel array."""
    name = detector.current_running_model_name
    vals = [float(v) for v in np.asarray(x, dtype=float).ravel()]
    d = vars(detector).setdefault("_vp_c10", {})
    d[name] = vals
    shape = detector.geometry.shape
    base = detector.pixel._array
    if base is None:
        base = np.zeros(shape)
    yy, xx = np.mgrid[0:shape[0], 0:shape[1]]
    contrib = sum((j + 1.0) * np.log10(abs(v) + 1.0) for j, v in enumerate(vals)) * float(gain)
    detector.pixel.array = np.asarray(base, dtype=float) + contrib * (1.0 + yy * shape[1] + xx)
    if len(d) >= int(n):
        LOG.append({k: list(v) for k, v in d.items()})
        d.clear()


# ---------------------------------------------------------------- reference model

def declared_bounds(layout, seed):
    """Declared (linear) boundaries per parameter: list of either (lo, hi) or [(lo, hi)] * n."""
    s = int(seed) % 4
    out = []
    for i, k in enumerate(layout):
        info = kind_info(k)
        comps = []
        for j in range(info["n"] if (info["per"] or not info["vector"]) else 1):
            if info["log"]:
                lo = (j + 1.0) * 10.0 ** (i - 2) * (1.0 + 0.5 * s)
                hi = lo * 10.0 ** (j + 1) * (3.0 if (i + j) % 2 else 1.0)
            else:
                lo = -3.0 + 2.0 * i + 0.5 * j + 0.25 * s
                hi = lo + 1.5 + 0.75 * j + i
            comps.append((lo, hi))
        if info["vector"] and info["per"]:
            # per-component boundaries are listed in NON-increasing order across the components (each pair still is
            # (lower, upper)): a component must keep its own pair whatever the neighbours' values are
            comps = comps[::-1]
        out.append(comps if (info["vector"] and info["per"]) else comps[0])
    return out


def ref_walk(layout):
    """[(start, stop, info)] in declaration order: the reference slice walker."""
    out, a = [], 0
    for k in layout:
        info = kind_info(k)
        out.append((a, a + info["n"], info))
        a += info["n"]
    return out, a


def ref_bounds(layout, seed):
    """(decision lower, decision upper, linear lower, linear upper) per component."""
    decl = declared_bounds(layout, seed)
    dlo, dhi, llo, lhi = [], [], [], []
    for (a, b, info), bd in zip(ref_walk(layout)[0], decl):
        pairs = list(bd) if (info["vector"] and info["per"]) else [bd] * info["n"]
        for lo, hi in pairs:
            llo.append(lo)
            lhi.append(hi)
            dlo.append(float(np.log10(lo)) if info["log"] else lo)
            dhi.append(float(np.log10(hi)) if info["log"] else hi)
    return dlo, dhi, llo, lhi


def ref_convert(dv, layout):
    dv = [float(v) for v in dv]
    out = list(dv)
    for a, b, info in ref_walk(layout)[0]:
        if info["log"]:
            for t in range(a, b):
                out[t] = 10.0 ** dv[t]
    return out


def close(a, b, rtol=RTOL):
    a, b = np.asarray(a, dtype=float), np.asarray(b, dtype=float)
    return a.shape == b.shape and bool(np.all(np.abs(a - b) <= rtol * np.maximum(np.abs(a), np.abs(b)) + 1e-300))


def inside(v, lo, hi, rtol=RTOL):
    v, lo, hi = (np.asarray(z, dtype=float) for z in (v, lo, hi))
    slack = rtol * np.maximum(np.maximum(np.abs(lo), np.abs(hi)), np.abs(v)) + 1e-300
    return bool(np.all(np.isfinite(v)) and np.all(v >= lo - slack) and np.all(v <= hi + slack))


def decision_vectors(dlo, dhi):
    n = len(dlo)
    dvs = []
    if n <= 4:
        for bits in itertools.product((0, 1), repeat=n):
            dvs.append(("corner", [dhi[t] if b else dlo[t] for t, b in enumerate(bits)]))
    else:
        for pat in ([0] * n, [1] * n, [t % 2 for t in range(n)], [(t + 1) % 2 for t in range(n)]):
            dvs.append(("corner", [dhi[t] if b else dlo[t] for t, b in enumerate(pat)]))
        for t in range(n):       # single high component: localises an offset error
            dvs.append(("corner", [dhi[u] if u == t else dlo[u] for u in range(n)]))
    dvs.append(("centre", [(dlo[t] + dhi[t]) / 2.0 for t in range(n)]))
    dvs.append(("stair", [dlo[t] + (dhi[t] - dlo[t]) * (t + 1.0) / (n + 2.0) for t in range(n)]))
    return dvs


# ---------------------------------------------------------------- enumeration

def layouts(max_params):
    out = []
    for r in range(1, max_params + 1):
        out.extend(list(c) for c in itertools.product(KINDS, repeat=r))
    return out


ALGOS = ("sade", "sga", "nlopt")


def enumerate_cases(tier, seed):
    thorough = tier == "thorough"
    cases = [{"fam": "layout", "layout": lay} for lay in layouts(3 if thorough else 2)]
    small = layouts(2)
    # the placeholders of a vector parameter given as a tuple instead of a list (Python API)
    for lay in small:
        if any(kind_info(k)["vector"] for k in lay):
            cases.append({"fam": "layout", "layout": lay, "form": "tuple"})
    for t, lay in enumerate(small):
        if len(lay) == 2 and kind_info(lay[0])["vector"] and t % 4 == 0:
            cases.append({"fam": "run", "layout": lay, "algo": ALGOS[t % 3], "pygmo_seed": 1, "islands": 1, "form": "tuple"})
    if thorough:
        for lay in small:
            for algo in ALGOS:
                for ps in (1, 2):
                    for isl in (1, 2):
                        cases.append({"fam": "run", "layout": lay, "algo": algo, "pygmo_seed": ps, "islands": isl})
    else:
        # fixed sub-family: every single-parameter layout with each algorithm, every 2-parameter layout with one
        # algorithm (rotating), seeds and island counts rotating
        for t, lay in enumerate(small):
            for u, algo in enumerate(ALGOS if len(lay) == 1 else (ALGOS[t % 3],)):
                cases.append({"fam": "run", "layout": lay, "algo": algo, "pygmo_seed": 1 + (t + u) % 2,
                              "islands": 1 + ((t // 2) + u + 1) % 2})
    # ONE Calibration object used twice: a first optimisation with OTHER boundaries for the same keys, then the parameters
    # re-declared (attribute `parameters`) and the optimisation under test on the same object and processor
    for t, lay in enumerate(layouts(1) + [l for i, l in enumerate(small) if len(l) == 2 and i % 9 == 0]):
        cases.append({"fam": "run", "layout": lay, "algo": ALGOS[t % 3], "pygmo_seed": 1, "islands": 1 + t % 2,
                      "prelude": True})
    return cases


def expected_size(tier, seed):
    n_prelude = 10 + len([i for i, l in enumerate(layouts(2)) if len(l) == 2 and i % 9 == 0])
    if tier == "thorough":
        return 1110 + 110 * 3 * 2 * 2 + 124 + n_prelude
    return 110 + 10 * 3 + 100 + 124 + n_prelude


# ---------------------------------------------------------------- construction

def build(layout, seed, td, form="list", **calkw):
    from pyxel.observation import ParameterValues
    from pyxel.pipelines import Processor

    decl = declared_bounds(layout, seed)
    params, groups, keys = [], {}, []
    for i, (k, bd) in enumerate(zip(layout, decl)):
        info = kind_info(k)
        g = GROUPS[i % len(GROUPS)]
        name = f"m{i}"
        init = [0.5] * info["n"] if info["vector"] else 0.5
        groups.setdefault(g, []).append(("props.c10_calib_mapping.probe", name,
                                         {"x": init, "n": len(layout), "gain": 1.0 + i}))
        key = f"pipeline.{g}.{name}.arguments.x"
        keys.append(key)
        bnd = [tuple(p) for p in bd] if (info["vector"] and info["per"]) else tuple(bd)
        ph = ["_"] * info["n"]
        params.append(ParameterValues(key=key, values=(tuple(ph) if form == "tuple" else ph) if info["vector"] else "_",
                                      boundaries=bnd, logarithmic=info["log"]))
    det = mk.detector("ccd", 2, 3)
    pipe = mk.pipeline(groups)
    tgt = Path(td) / f"target_{int(seed)}.npy"
    np.save(tgt, np.arange(6, dtype=float).reshape(2, 3) * 3.0 + 1.0)
    cal = calib.calibration([tgt], params, result_type="pixel", fit_range=(0, 2, 0, 3), **calkw)
    return cal, Processor(detector=det, pipeline=pipe), keys


def _vec_of(rec, layout):
    """concatenate a run record {name: values} in declaration order; None when incomplete."""
    out = []
    for i, k in enumerate(layout):
        v = rec.get(f"m{i}")
        if v is None or len(v) != kind_info(k)["n"]:
            return None
        out.extend(v)
    return out


def _first_bad(layout, got, want, rtol=RTOL):
    """(parameter position, kind) of the first parameter whose slice differs."""
    got = list(np.asarray(got, dtype=float).ravel())
    for i, (a, b, info) in enumerate(ref_walk(layout)[0]):
        if len(got) < b or not close(got[a:b], want[a:b], rtol):
            return i, layout[i]
    return len(layout), "-"


def run_case(case):
    seed = int(os.environ.get("VERIF_SEED", "0") or 0)
    td = tempfile.mkdtemp(prefix="vp_c10_")
    try:
        if case["fam"] == "layout":
            return _run_layout(case, seed, td)
        return _run_optim(case, seed, td)
    finally:
        shutil.rmtree(td, ignore_errors=True)


def _run_layout(case, seed, td):
    layout = case["layout"]
    viol = []
    lname = "|".join(layout)

    def bad(code, what, pos=None, kind=None, **extra):
        key = {"fam": "layout", "code": code, "nparams": len(layout), "pos": pos, "kind": kind}
        if case.get("form", "list") != "list":
            key["form"] = case["form"]
        key.update(extra)
        viol.append((key, f"layout [{lname}] (declared boundaries {declared_bounds(layout, seed)}): {what}"))

    dlo, dhi, llo, lhi = ref_bounds(layout, seed)
    walk, ncomp = ref_walk(layout)
    sig = cfgx.sig(["layout", layout, dlo, dhi])
    try:
        cal, proc, keys = build(layout, seed, td, form=case.get("form", "list"), pygmo_seed=1)
        problem, _ = calib.real_problem(cal, proc)
    except Exception as e:  # noqa: BLE001
        bad("construction-raised", f"building the fitting problem raised {type(e).__name__}: {str(e)[:300]}")
        return {"viol": viol, "sig": sig, "nontrivial": False}

    n_eval = 0
    # 0. history: the same configuration objects used a second time (a second run of one configuration) must give
    #    the same problem - building a problem must not modify the declared boundaries
    try:
        problem_again, _ = calib.real_problem(cal, proc)
        b1 = [[float(v) for v in x] for x in problem.get_bounds()]
        b2 = [[float(v) for v in x] for x in problem_again.get_bounds()]
        same = len(b1[0]) == len(b2[0]) and all(
            (a == b) or (np.isnan(a) and np.isnan(b)) for x, y in zip(b1, b2) for a, b in zip(x, y))
        if not same:
            bad("second-build-differs", f"building the problem a second time from the same configuration objects gives "
                f"bounds {b2} instead of {b1} (the declared boundaries were modified)")
    except Exception as e:  # noqa: BLE001
        bad("second-build-differs", f"building the problem a second time raised {type(e).__name__}: {str(e)[:200]}")
    # 1. bounds
    try:
        lo, hi = problem.get_bounds()
        lo, hi = [float(v) for v in lo], [float(v) for v in hi]
    except Exception as e:  # noqa: BLE001
        lo = hi = None
        bad("bounds-raised", f"get_bounds() raised {type(e).__name__}: {e}")
    if lo is not None:
        if len(lo) != ncomp or len(hi) != ncomp:
            bad("bounds-length", f"get_bounds() has {len(lo)}/{len(hi)} components, expected {ncomp}")
        else:
            for nm, got, want in (("lower", lo, dlo), ("upper", hi, dhi)):
                if not close(got, want):
                    i, k = _first_bad(layout, got, want)
                    bad("bounds", f"{nm} bounds {got} != expected {want} (log10 on logarithmic slices)", i, k, which=nm)

    dvs = decision_vectors(dlo, dhi)
    # 2. conversion, 1-D and 2-D
    for tag, dv in dvs:
        want = ref_convert(dv, layout)
        try:
            arr = np.array(dv, dtype=float)
            got = problem.convert_to_parameters(arr)
            n_eval += 1
        except Exception as e:  # noqa: BLE001
            bad("convert-raised", f"convert_to_parameters({dv}) raised {type(e).__name__}: {e}")
            break
        if not close(np.asarray(got, dtype=float).ravel(), want):
            i, k = _first_bad(layout, got, want)
            bad("convert-1d", f"convert_to_parameters({dv}) = {np.asarray(got).tolist()} != expected {want}", i, k)
            break
        if not np.array_equal(arr, np.array(dv, dtype=float)):
            bad("convert-mutates-input", f"convert_to_parameters modified its input {dv} -> {arr.tolist()}")
            break
        if not inside(want, llo, lhi):
            raise RuntimeError("harness: reference conversion outside the declared bounds")
    try:
        mat = np.array([dv for _, dv in dvs], dtype=float)
        got2 = np.asarray(problem.convert_to_parameters(mat), dtype=float)
        want2 = np.array([ref_convert(dv, layout) for _, dv in dvs])
        n_eval += 1
        if got2.shape != want2.shape or not close(got2, want2):
            r = next((t for t in range(len(dvs)) if got2.shape != want2.shape or not close(got2[t], want2[t])), 0)
            i, k = _first_bad(layout, got2[r] if got2.shape == want2.shape else [], want2[r])
            bad("convert-2d", f"convert_to_parameters(2-D, row {dvs[r][1]}) = "
                f"{got2[r].tolist() if got2.shape == want2.shape else got2.shape} != expected {want2[r].tolist()}", i, k)
    except Exception as e:  # noqa: BLE001
        bad("convert-raised", f"convert_to_parameters(2-D array) raised {type(e).__name__}: {e}")

    # 3. values received by the probes in fitness(), values set by update_processor()
    chosen = [dvs[0], dvs[-3] if len(dvs) > 3 else dvs[-1], dvs[-2], dvs[-1]]
    if len(dvs) > 6:
        chosen += [dvs[1], dvs[2]]
    outcomes = []
    for tag, dv in chosen:
        want = ref_convert(dv, layout)
        del LOG[:]
        try:
            f = problem.fitness(np.array(dv, dtype=float))
            n_eval += 1
        except Exception as e:  # noqa: BLE001
            bad("fitness-raised", f"fitness({dv}) raised {type(e).__name__}: {str(e)[:300]}")
            break
        if len(LOG) != 1:
            bad("fitness-runs", f"fitness({dv}) ran the pipeline {len(LOG)} times (1 target)")
            break
        got = _vec_of(LOG[0], layout)
        if got is None or not close(got, want):
            shown = LOG[0]
            i, k = _first_bad(layout, got if got is not None else [], want)
            bad("fitness-args", f"fitness({dv}): probes received {shown}, expected slices of {want} under keys {keys}", i, k)
            break
        outcomes.append(float(np.ravel(f)[0]))
        try:
            newp = problem.update_processor(parameter=np.array(want, dtype=float), processor=proc)
            seen = []
            for key, (a, b, info) in zip(keys, walk):
                seen.extend(float(v) for v in np.asarray(newp.get(key), dtype=float).ravel())
            n_eval += 1
        except Exception as e:  # noqa: BLE001
            bad("update-raised", f"update_processor({want}) raised {type(e).__name__}: {e}")
            break
        if not close(seen, want):
            i, k = _first_bad(layout, seen, want)
            bad("update-processor", f"update_processor({want}) set {seen} under keys {keys}", i, k)
            break
    return {"viol": viol, "sig": sig, "nontrivial": bool(outcomes), "n": n_eval,
            "outcome": {"bounds": [dlo, dhi], "fitness": outcomes[:3]}}


def _run_optim(case, seed, td):
    import pyxel

    layout, algo, isl = case["layout"], case["algo"], int(case["islands"])
    pygmo_seed = int(case["pygmo_seed"]) + 10 * (seed % 7)
    lname = "|".join(layout)
    viol = []

    def bad(code, what, **extra):
        key = {"fam": "run", "code": code, "algo": algo, "islands": isl}
        if case.get("prelude"):
            key["prelude"] = True
        if case.get("form", "list") != "list":
            key["form"] = case["form"]
        key.update(extra)
        viol.append((key, f"optimisation {algo} pygmo_seed={pygmo_seed} islands={isl} layout [{lname}] "
                          f"(declared boundaries {declared_bounds(layout, seed)}): {what}"))

    dlo, dhi, llo, lhi = ref_bounds(layout, seed)
    walk, ncomp = ref_walk(layout)
    sig = cfgx.sig(["run", layout, algo, isl, case["pygmo_seed"], bool(case.get("prelude"))])
    del LOG[:]
    try:
        kw = {"maxeval": 12} if algo == "nlopt" else {}
        from pyxel.calibration import Algorithm

        cal, proc, keys = build(layout, seed, td, form=case.get("form", "list"), pygmo_seed=pygmo_seed, num_islands=isl, num_evolutions=2,
                                num_best_decisions=3)
        cal.algorithm = Algorithm(type=algo, generations=2 if algo != "nlopt" else 1, population_size=8, **kw)
        if case.get("prelude"):
            real = cal.parameters
            other, _p, _k = build(layout, seed + 1, td, form=case.get("form", "list"))      # same keys, other boundaries
            cal.parameters = other.parameters
            # (both runs through Calibration.run_calibration with the SAME Processor object - run_mode builds a new one
            #  per call)
            cal.run_calibration(processor=proc, output_dir=None, with_inherited_coords=True, with_progress_bar=False)
            cal.parameters = real
            del LOG[:]
            res = cal.run_calibration(processor=proc, output_dir=None, with_inherited_coords=True, with_progress_bar=False)
        else:
            res = pyxel.run_mode(cal, proc.detector, proc.pipeline, with_inherited_coords=True)
        n_logged = len(LOG)
        # the simulated outputs attached to the result: one pipeline run per island with that island's champion
        np.asarray(res["/simulated/pixel"].compute().values)
        applied = [_vec_of(r, layout) for r in (LOG[n_logged:] if len(LOG) > n_logged else LOG[-isl:])]
        del LOG[n_logged:]
    except Exception as e:  # noqa: BLE001
        bad("run-raised", f"run raised {type(e).__name__}: {str(e)[:300]}")
        return {"viol": viol, "sig": sig, "nontrivial": False}

    evals = []
    for rec in list(LOG):
        v = _vec_of(rec, layout)
        if v is None:
            bad("evaluation-incomplete", f"an evaluation logged {rec}: not one value set per declared key")
            break
        evals.append(v)
    evals.sort()            # islands evolve in concurrent threads: make the order (and so the reported case) deterministic
    E = np.array(evals, dtype=float).reshape(len(evals), ncomp)
    if len(evals) < isl * 8:
        bad("too-few-evaluations", f"only {len(evals)} pipeline evaluations were logged for {isl} island(s) of 8")
    for v in evals:
        if not inside(v, llo, lhi):
            i = next(t for t, (a, b, info) in enumerate(walk) if not inside(v[a:b], llo[a:b], lhi[a:b]))
            bad("evaluation-outside-bounds", f"evaluated parameters {v} outside the declared boundaries "
                f"{list(zip(llo, lhi))}", pos=i, kind=layout[i])
            break

    def member(p):
        if not len(E):
            return False
        return bool(np.any(np.all(np.abs(E - p) <= 1e-11 * np.maximum(np.abs(E), np.abs(p)) + 1e-300, axis=1)))

    n_checked = 0
    for grp in ("champion", "best"):
        try:
            dec = np.asarray(res[f"/{grp}/decision"].values, dtype=float)
            par = np.asarray(res[f"/{grp}/parameters"].values, dtype=float)
            dims = res[f"/{grp}/decision"].dims
        except Exception as e:  # noqa: BLE001
            bad("result-missing", f"cannot read /{grp}: {type(e).__name__}: {e}", group=grp)
            continue
        if dec.shape[-1] != ncomp or par.shape != dec.shape or dims[-1] != "param_id":
            bad("result-shape", f"/{grp}/decision dims {dims} shape {dec.shape}, parameters shape {par.shape}; "
                f"expected last dimension param_id of size {ncomp}", group=grp)
            continue
        if "island" not in dims or dec.shape[dims.index("island")] != isl:
            bad("result-shape", f"/{grp}/decision dims {dims} shape {dec.shape}: expected {isl} island(s)", group=grp)
            continue
        D, P = dec.reshape(-1, ncomp), par.reshape(-1, ncomp)
        for d, p in zip(D, P):
            n_checked += 1
            if not inside(d, dlo, dhi):
                i = next(t for t, (a, b, info) in enumerate(walk) if not inside(d[a:b], dlo[a:b], dhi[a:b]))
                bad("decision-outside-bounds", f"/{grp} decision {d.tolist()} outside the decision box "
                    f"{list(zip(dlo, dhi))}", group=grp, pos=i, kind=layout[i])
                break
            want = ref_convert(d, layout)
            if not close(p, want, 1e-11):
                i, k = _first_bad(layout, p, want, 1e-11)
                bad("parameters-not-conversion", f"/{grp} parameters {p.tolist()} are not the conversion {want} of the "
                    f"reported decision {d.tolist()}", group=grp, pos=i, kind=k)
                break
            if not inside(p, llo, lhi, 1e-11):
                bad("parameters-outside-bounds", f"/{grp} parameters {p.tolist()} outside the declared boundaries "
                    f"{list(zip(llo, lhi))}", group=grp)
                break
            if not member(p):
                bad("reported-not-evaluated", f"/{grp} parameters {p.tolist()} were never applied to the pipeline "
                    f"({len(evals)} logged evaluations)", group=grp)
                break
    # the pipeline runs behind /simulated used exactly the reported (last) champion of each island
    try:
        cp = res["/champion/parameters"].transpose("island", "evolution", "param_id")
        champs = sorted([float(x) for x in cp.isel(island=i, evolution=-1).values] for i in range(isl))
        got_applied = sorted(a for a in applied if a is not None)
        if len(got_applied) != isl or not all(close(a, c, 1e-11) for a, c in zip(got_applied, champs)):
            bad("simulated-not-champion", f"the pipeline runs behind /simulated were made with {got_applied}, the reported "
                f"champions of the {isl} island(s) are {champs}")
    except Exception as e:  # noqa: BLE001
        bad("result-missing", f"cannot compare /simulated with /champion: {type(e).__name__}: {e}", group="simulated")
    return {"viol": viol, "sig": sig, "nontrivial": len(evals) > 0, "n": len(evals) + n_checked,
            "counts": {"optim_runs": 1, "logged_evaluations": len(evals), "reported_individuals": n_checked},
            "outcome": {"evaluations": len(evals), "reported": n_checked}}


cfgx.install(__import__("sys").modules[__name__])
