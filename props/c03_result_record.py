"""C03 - the returned result is a faithful, complete record of every step.

Bounded exhaustive enumeration (vp.cfgx) of writer pipelines (one writer probe per bucket, every bucket written in
every step or never, deterministic injective values, all image / float dtypes, 2-D and multi-wavelength photons,
charge as array and as clusters, scene and processed-data trees), of 5 schedules, both readout modes, both result
layouts and debug capture off / on.  A probe that runs last in every step snapshots every bucket; the DataTree
returned by pyxel.run_mode is compared slice by slice with those snapshots.
"""
from __future__ import annotations

import os

import numpy as np

from vp import cfgx, mk
from vp import exp_util as U

ID = "C03"
LEVEL = "exploration"
ENGINE = "cfgx"
TIMEOUT = 1200
NSHARDS = 64
ENV = {"NUMBA_DISABLE_JIT": "1"}
TECHNIQUE = ("bounded exhaustive enumeration (k<=3 deviations of 8 bucket/dtype axes x 5 schedules x 2 readout modes, "
             "full dtype product on single-bucket pipelines) of writer-probe pipelines executed through pyxel.run_mode "
             "in both result layouts and with debug capture; returned DataTree compared with per-step snapshots taken "
             "by a last-position probe")
LEVEL_TEXT = ("Every configuration differing in at most 3 (quick: 1, plus 6 selected pairs) of 8 axes from the base pipeline (photon 2-D "
              "float64/32/16 or 2-3 wavelengths, charge array/clusters, pixel and signal float64/32/16, image "
              "uint16/8/32/64 incl. edge values and uint64 above 2**53, scene, flat/nested processed data, debug "
              "off/on/on with step-independent values), times 5 schedules (1-3 steps, uniform, non-uniform, start "
              "time != 0) and both readout modes, plus the full dtype x value-palette product on single-bucket "
              "pipelines, is executed in the flat and the hierarchical layout (and with debug when requested). For "
              "every initialised bucket the result must hold exactly one slice per readout, equal to the snapshot "
              "taken at the end of that step (integers compared as Python ints, floats after exact widening), "
              "labelled start+t_i and range(rows)/range(cols); the image must keep its unsigned dtype; /scene and "
              "/data must equal the final containers; both layouts and debug on/off must carry identical buckets; "
              "each debug node must list exactly the buckets the model changed (measured inside the model)."
              " Every case is also run through the legacy entry point pyxel.exposure_mode (buckets along readout_time); one value of the data axis replaces the processed-data container instead of writing into it.")
LEVEL_NOTE = ("Bounded: 2x3 detector, <=3 readouts, deviation bound 3, the value palette of the writer probe. Buckets "
              "written only in some steps are excluded (the statement does not define their slices). Variables are "
              "located by name in '/' or '/bucket'. Trusted: numpy/xarray equality, the 60-line comparison code.")
DESIGN_REF = "DESIGN.md section 4, C03"
RULE = ("cases = P (all configurations within k deviations of the base on 8 axes; k=1 quick, 3 thorough) x 5 schedules "
        "x 2 modes + T (single-bucket pipelines: full dtype x palette product) x 5 schedules x 2 modes; each case runs "
        "the hierarchical and the flat layout (+ debug run); non-trivial = at least one bucket slice was compared; "
        "distinct = distinct (configuration, schedule, mode, per-bucket dtype/shape of the result) signatures")
ASSUMPTIONS = [
    "every bucket is written in every step or never (buckets initialised only in some steps are out of scope)",
    "only buckets written by a writer model are demanded in the result (the framework's own zero pixel / charge "
    "arrays are not 'initialised by a model')",
    "a bucket 'changed by a model' is measured by snapshots taken inside the writer probe before and after its writes",
    "float dtypes of the result are free (only values are compared after widening); only the image dtype is demanded",
]

ROWS, COLS = 2, 3
SCHEDULES = [
    {"times": [1.0], "start": 0.0},
    {"times": [1.0, 2.0], "start": 0.0},
    {"times": [1.0, 2.0, 3.0], "start": 0.0},
    {"times": [0.5, 2.0, 3.0], "start": 0.25},
    {"times": [1.0, 2.0, 4.0], "start": 0.5},
]
BASE = {"photon": "f64", "charge": "array", "pixel": "f64", "signal": "f64", "image": "u16", "scene": "no",
        "data": "none", "debug": "off", "alias": "no", "flags": "no"}
AXES = {
    # wl2xy: the cube carries its own y / x coordinates; wl2shift: the wavelength grid moves from step to step
    "photon": ["none", "f64", "f32", "f16", "wl2", "wl3", "wl2xy", "wl2shift"],
    "charge": ["none", "array", "clusters"],
    "pixel": ["none", "f64", "f32", "f16"],
    "signal": ["none", "f64", "f32", "f16"],
    "image": ["none", "u16", "u8", "u32", "u64", "u64big", "u16>u32", "u32>u16"],
    "scene": ["no", "yes"],
    "data": ["none", "flat", "nested", "swapped"],
    "debug": ["off", "on", "const"],
    "flags": ["no", "ro_off"],    # ro_off: a model clears detector.read_out in odd steps (every step still is a readout)
    "alias": ["no", "yes"],       # yes: the pixel / signal / image writers re-use one buffer per bucket (see exp_util._assign)
}
FLOATS = {"f64": "float64", "f32": "float32", "f16": "float16"}
UINTS = {"u8": "uint8", "u16": "uint16", "u32": "uint32", "u64": "uint64"}
IDLE = {"m_photon_idle": "photon_collection", "m_charge_idle": "charge_generation", "m_pixel_idle": "charge_collection",
        "m_signal_idle": "charge_measurement", "m_image_idle": "readout_electronics"}
GROUP_OF = {**IDLE, "m_charge2": "charge_generation", "m_charge_scale": "charge_generation",
            "m_scene": "scene_generation", "m_photon": "photon_collection", "noop": "phasing",
            "m_charge": "charge_generation", "m_pixel": "charge_collection", "m_pixel_x2": "charge_transfer",
            "m_signal": "charge_measurement", "m_signal_same": "signal_transfer", "m_image": "readout_electronics",
            "m_flags": "phasing", "m_photon_x2": "photon_collection", "m_signal_cast": "signal_transfer", "m_image_cast": "readout_electronics", "m_pixel_zero": "charge_transfer",
            "m_data": "data_processing", "last": "data_processing"}


def _seed():
    return int(os.environ.get("VERIF_SEED", "0") or 0)


# ------------------------------------------------------------------ enumeration

def enumerate_cases(tier, seed):
    k = 3 if tier == "thorough" else 1
    cases = []
    for cfg in cfgx.k_deviations(BASE, AXES, k):
        cfg = {a: cfg[a] for a in AXES}
        for si in range(len(SCHEDULES)):
            for nd in (False, True):
                cases.append({"fam": "P", "cfg": cfg, "sched": si, "nd": nd})
    if tier != "thorough":
        # the deviation pairs that matter most for the merge / debug code, already in the quick tier
        for extra in ({"image": "u64big", "debug": "on"}, {"photon": "wl2", "scene": "yes"},
                      {"photon": "wl3", "scene": "yes"}, {"charge": "clusters", "debug": "const"},
                      {"image": "u64", "pixel": "f16"}, {"scene": "yes", "data": "nested"},
                      {"photon": "wl2", "debug": "on"}, {"photon": "wl3", "debug": "const"}):
            cfg = dict(BASE, **extra)
            for si in range(len(SCHEDULES)):
                for nd in (False, True):
                    cases.append({"fam": "P", "cfg": cfg, "sched": si, "nd": nd})
    empty = {"photon": "none", "charge": "none", "pixel": "none", "signal": "none", "image": "none", "scene": "no",
             "data": "none", "debug": "off", "alias": "no", "flags": "no"}
    for cfg in _single_bucket_cfgs(empty):
        for si in range(len(SCHEDULES)):
            for nd in (False, True):
                cases.append({"fam": "T", "cfg": cfg, "sched": si, "nd": nd})
    for c in cases:
        c["legacy"] = True           # every case is also run through the legacy entry point pyxel.exposure_mode
    return cases


def _single_bucket_cfgs(empty):
    out = []
    for v in ("f64", "f32", "f16"):
        for wl in ("", "+wl2", "+wl3"):
            out.append(dict(empty, photon=v + wl))
        out.append(dict(empty, pixel=v))
        out.append(dict(empty, signal=v))
    for dt in ("u8", "u16", "u32", "u64"):
        for pal in ("", "+edge"):
            out.append(dict(empty, image=dt + pal))
    out.append(dict(empty, image="u64big"))
    return out


def expected_size(tier, seed):
    k = 3 if tier == "thorough" else 1
    n_p = cfgx.n_k_deviations(BASE, AXES, k) + (0 if tier == "thorough" else 8)
    n_t = 3 * 3 + 3 + 3 + 4 * 2 + 1
    return (n_p + n_t) * len(SCHEDULES) * 2


# ------------------------------------------------------------------ pipeline construction

def _photon_spec(v, const):
    if v == "none":
        return None
    opt = {"const": const}
    if "+" in v:
        v, w = v.split("+")
        opt["wl"] = int(w[2:])
        opt["dtype"] = FLOATS[v]
    elif v.startswith("wl"):
        opt["xy"] = v.endswith("xy")
        opt["shift"] = v.endswith("shift")
        opt["wl"] = int(v[2:].replace("xy", "").replace("shift", ""))
        opt["dtype"] = "float64"
    else:
        opt["dtype"] = FLOATS[v]
    return opt


def _image_spec(v, const):
    if v == "none":
        return None
    if v == "u64big":
        return {"dtype": "uint64", "vals": "big", "const": const}
    if ">" in v:                 # the unsigned type changes after the first step; edge values of each type
        a, b = v.split(">")
        return {"dtype": UINTS[a], "by_step": [UINTS[a], UINTS[b]], "vals": "edge", "const": False}
    if "+" in v:
        dt, pal = v.split("+")
        return {"dtype": UINTS[dt], "vals": pal, "const": const}
    return {"dtype": UINTS[v], "vals": "ramp", "const": const}


def build_pipeline(cfg, salt, track=False):
    """One writer per bucket in its natural group; `last` observer at the very end.
    track: the writers measure which buckets they change (only in the debug run: it reads the charge bucket)"""
    debug = cfg["debug"] != "off"
    const = cfg["debug"] == "const"
    reuse = cfg.get("alias", "no") == "yes"
    g = {}

    def add(group, name, spec):
        g.setdefault(group, []).append(("vp.exp_util.write", name, {"spec": spec, "salt": salt, "track": track}))

    def idle(group, name):
        # debug pipelines: a model that changes nothing, listed AFTER a writer of the same group (its record must be
        # empty: a comparison base taken once per group, or never refreshed, would attribute the writer's bucket to it)
        if debug:
            g.setdefault(group, []).append(("vp.exp_util.tick", name, {}))

    if cfg["scene"] == "yes":
        add("scene_generation", "m_scene", {"scene": True})
    ph = _photon_spec(cfg["photon"], const)
    if ph is not None:
        add("photon_collection", "m_photon", {"photon": ph})
        idle("photon_collection", "m_photon_idle")
        if debug and ph.get("wl"):
            add("photon_collection", "m_photon_x2", {"photon": {"inplace3d": True}})
    if debug:
        g.setdefault("phasing", []).append(("vp.exp_util.tick", "noop", {}))
    if cfg["charge"] != "none":
        add("charge_generation", "m_charge", {"charge": {"how": cfg["charge"], "const": const}})
        idle("charge_generation", "m_charge_idle")
        if cfg["charge"] == "clusters":
            # a later model of the same step doubles the existing clusters IN PLACE (set_frame_values)
            add("charge_generation", "m_charge_scale", {"charge": {"how": "scale"}})
        if debug and cfg["charge"] == "array":
            # a second writer of the same bucket in the same group: the record of the first must keep the first's value
            add("charge_generation", "m_charge2", {"charge": {"how": "array", "const": const}})
    if cfg["pixel"] != "none":
        add("charge_collection", "m_pixel", {"pixel": {"dtype": FLOATS[cfg["pixel"]], "acc": True, "const": const,
                                                       "reuse": reuse}})
        idle("charge_collection", "m_pixel_idle")
        if debug:
            add("charge_transfer", "m_pixel_x2", {"pixel": {"dtype": FLOATS[cfg["pixel"]], "const": const, "mul": 2}})
            # a model that dumps the collected charge: non-zero pixel content replaced by zeros is a change too
            add("charge_transfer", "m_pixel_zero", {"pixel": {"dtype": FLOATS[cfg["pixel"]], "const": const, "mul": 0}})
    if cfg["signal"] != "none":
        add("charge_measurement", "m_signal", {"signal": {"dtype": FLOATS[cfg["signal"]], "const": const,
                                                         "reuse": reuse}})
        idle("charge_measurement", "m_signal_idle")
        if debug:
            add("signal_transfer", "m_signal_same", {"signal": {"dtype": FLOATS[cfg["signal"]], "const": const}})
            # a dtype-only change (same values): the record of this model must list the signal bucket
            add("signal_transfer", "m_signal_cast",
                {"signal": {"recast": "float32" if FLOATS[cfg["signal"]] == "float64" else "float64"}})
    im = _image_spec(cfg["image"], const)
    if im is not None:
        add("readout_electronics", "m_image", {"image": dict(im, reuse=reuse)})
        idle("readout_electronics", "m_image_idle")
        if debug and cfg["image"] in ("u8", "u16"):
            add("readout_electronics", "m_image_cast", {"image": {"recast": "uint32"}})
    if cfg.get("flags", "no") == "ro_off":
        g.setdefault("phasing", []).append(("vp.exp_util.flags", "m_flags", {"read_out_odd": False}))
    if cfg["data"] != "none":
        add("data_processing", "m_data", {"data": cfg["data"]})
    # without debug the observer does not read the charge bucket (a read refreshes Charge's cache); the expected
    # charge is then the writer's own value (reference model, see expected_charge)
    g.setdefault("data_processing", []).append(("vp.exp_util.observe", "last", {"charge": track}))
    return g


def expected_charge(cfg, step, salt):
    """what the charge writer put into the (emptied) charge bucket in this step"""
    if cfg["charge"] == "none":
        return np.zeros((ROWS, COLS))
    v = U.value_for("charge", 0 if cfg["debug"] == "const" else step, (ROWS, COLS), salt)
    if cfg["charge"] == "clusters":
        return 2 * v                                                                 # m_charge, doubled by m_charge_scale
    return 2 * v if (cfg["debug"] != "off" and cfg["charge"] == "array") else v      # m_charge + m_charge2


def run_once(cfg, sched, nd, hier, debug, salt, legacy=False):
    """-> (result tree, snapshots of `last` per step, CHANGES list)"""
    import pyxel

    U.reset()
    det = mk.detector("ccd", ROWS, COLS)
    pipe = mk.pipeline(build_pipeline(cfg, salt, track=debug))
    if legacy:
        # the deprecated but public entry point pyxel.exposure_mode returns a Dataset of the buckets along 'readout_time'
        import warnings

        import xarray as xr

        with warnings.catch_warnings():
            warnings.simplefilter("ignore")
            ds = pyxel.exposure_mode(mk.exposure(sched["times"], nd, sched["start"]), det, pipe)
        res = xr.DataTree(dataset=ds.rename({"readout_time": "time"}))
        return res, [s for name, step, s in U.SNAPS if name == "last"], list(U.CHANGES)
    res = pyxel.run_mode(mk.exposure(sched["times"], nd, sched["start"]), det, pipe, with_inherited_coords=hier,
                         debug=debug)
    snaps = [s for name, step, s in U.SNAPS if name == "last"]
    return res, snaps, list(U.CHANGES)


# ------------------------------------------------------------------ comparison helpers

def bucket_dataset(res):
    node = res["/bucket"] if "bucket" in res.children else res
    return node.to_dataset(inherit=False)


def exact_equal(result_slice, snap_value):
    """integers as Python ints, floats after exact widening to float64"""
    a, b = np.asarray(result_slice), np.asarray(snap_value)
    if a.shape != b.shape:
        return False
    if b.dtype.kind in "ui":
        if a.dtype.kind == "f" and not np.all(np.isfinite(a)):
            return False
        try:
            return [int(x) for x in a.ravel().tolist()] == [int(x) for x in b.ravel().tolist()] and \
                (a.dtype.kind in "ui" or bool(np.all(a == np.floor(a))))
        except (ValueError, OverflowError):
            return False
    return bool(np.array_equal(a.astype("float64"), b.astype("float64")))


def trees_equal(a, b):
    """same node paths, each node's own dataset identical"""
    if a is None or b is None:
        return a is None and b is None
    def rel(tree):
        root = tree.path.rstrip("/")
        return {("/" + n.path[len(root):].lstrip("/")): n for n in tree.subtree}

    pa, pb = rel(a), rel(b)
    if set(pa) != set(pb):
        return False
    return all(pa[p].to_dataset(inherit=False).identical(pb[p].to_dataset(inherit=False)) for p in pa)


def _above_2p53(v):
    v = np.asarray(v)
    return bool(v.dtype.kind in "ui" and any(int(x) > 2 ** 53 for x in v.ravel().tolist()))


def check_record(res, snaps, sched, cfg, layout, bad, salt=0):
    """result tree versus the per-step snapshots; returns the number of slices compared"""
    import xarray as xr

    times, start = sched["times"], sched["start"]
    n = len(times)
    compared = 0
    shapes = {}
    if len(snaps) != n:
        raise RuntimeError(f"harness: {len(snaps)} snapshots for {n} steps")
    ds = bucket_dataset(res)
    # (the legacy Dataset is indexed by 'readout_time' = t_i; the current result by the absolute time start + t_i)
    labels = list(times) if layout == "legacy" else [start + t for t in times]
    steps = "1" if n == 1 else ">=2"
    for b in U.BUCKETS:
        if cfg[b] == "none":
            continue                                     # no model initialised this bucket: nothing is demanded
        vals = [s[b] for s in snaps]
        if b == "charge" and all(v is None for v in vals):
            vals = [expected_charge(cfg, i, salt) for i in range(n)]       # observer did not read the charge bucket
        if all(v is None for v in vals):
            continue                                     # never initialised: nothing is demanded
        if any(v is None for v in vals):
            raise RuntimeError(f"harness: bucket {b} initialised in some steps only")
        if b not in ds.data_vars:
            bad("missing-variable", f"[{layout}] bucket {b} was initialised in every step but the result has no "
                f"variable '{b}' (variables: {sorted(map(str, ds.data_vars))})", bucket=b, layout=layout)
            continue
        var = ds[b]
        shapes[b] = [str(var.dtype), list(var.dims)]
        if "time" not in var.dims or var.sizes["time"] != n:
            bad("slice-count", f"[{layout}] {b}: dims {dict(var.sizes)}, expected exactly {n} slices along 'time'",
                bucket=b, layout=layout, steps=steps)
            continue
        got_labels = [float(x) for x in var["time"].values]
        if got_labels != labels:
            bad("time-label", f"[{layout}] {b}: time labels {got_labels}, expected start+t_i = {labels}", bucket=b,
                layout=layout)
        is3d = isinstance(vals[0], xr.DataArray)
        want_dims = ("wavelength", "y", "x") if is3d else ("y", "x")
        if set(var.dims) != set(("time",) + want_dims):
            bad("dims", f"[{layout}] {b}: dims {var.dims}, expected time + {want_dims}", bucket=b, layout=layout)
            continue
        for dim, size in (("y", ROWS), ("x", COLS)):
            if dim not in var.coords or [int(v) for v in var[dim].values] != list(range(size)):
                bad("coords", f"[{layout}] {b}: coordinate {dim} is "
                    f"{var[dim].values.tolist() if dim in var.coords else None}, expected {list(range(size))}",
                    bucket=b, layout=layout, dim=dim)
        if is3d:
            # (a model may use another wavelength grid in every step: the result's axis is the union of the grids and each
            # slice holds its step's cube at that step's own wavelengths)
            wl_want = sorted({float(x) for v_ in vals for x in v_["wavelength"].values})
            wl_got = [float(x) for x in var["wavelength"].values] if "wavelength" in var.coords else None
            if wl_got is None or sorted(wl_got) != wl_want:
                bad("coords", f"[{layout}] {b}: wavelength coordinate {wl_got}, expected {wl_want}", bucket=b,
                    layout=layout, dim="wavelength")
                continue
        for i in range(n):
            if is3d:
                sl = var.isel(time=i).sel(wavelength=vals[i]["wavelength"].values).transpose(*want_dims).values
            else:
                sl = var.isel(time=i).transpose(*want_dims).values
            sv = vals[i].transpose(*want_dims).values if is3d else vals[i]
            compared += 1
            if not exact_equal(sl, sv):
                extra = {}
                if b == "image":
                    extra = {"dtype": str(np.asarray(sv).dtype), "above_2p53": _above_2p53(sv)}
                bad("slice-value", f"[{layout}] {b}: slice {i} of the result is {np.asarray(sl).tolist()} "
                    f"({np.asarray(sl).dtype}) but the detector held {np.asarray(sv).tolist()} "
                    f"({np.asarray(sv).dtype}) at the end of step {i}", bucket=b, layout=layout, steps=steps, **extra)
                break
        if b == "image":
            # the unsigned type: the detector's own type when it is the same in every step, otherwise an unsigned type
            # wide enough for the widest step
            kinds = {np.asarray(v).dtype for v in vals}
            want = max(kinds, key=lambda d: d.itemsize)
            ok = var.dtype.kind == "u" and (var.dtype == want if len(kinds) == 1 else var.dtype.itemsize >= want.itemsize)
            if not ok:
                bad("image-dtype", f"[{layout}] image variable has dtype {var.dtype}, the detector's image is {want}",
                    layout=layout, dtype=str(want), steps=steps)
    # scene and processed data: returned unchanged (the legacy entry point returns the buckets only)
    final = snaps[-1]
    for name in (() if layout == "legacy" else ("scene", "data")):
        try:
            got = res["/" + name]
        except KeyError:
            got = None
        if got is None:
            if not U.tree_is_empty(final[name]):
                bad(name + "-changed", f"[{layout}] the result has no /{name} node but the detector's {name} holds "
                    f"{U.tree_paths(final[name])}", layout=layout)
        elif not trees_equal(got, final[name]):
            bad(name + "-changed", f"[{layout}] /{name} of the result {U.tree_paths(got)} differs from the detector's "
                f"{name} container at the end of the run {U.tree_paths(final[name])}", layout=layout)
        compared += 1
    return compared, shapes


def compare_layouts(res_a, res_b, what, code, bad, **extra):
    a, b = bucket_dataset(res_a), bucket_dataset(res_b)
    va, vb = sorted(map(str, a.data_vars)), sorted(map(str, b.data_vars))
    if va != vb:
        bad(code, f"{what}: variables {va} versus {vb}", why="variables", **extra)
        return
    for v in va:
        x, y = a[v], b[v]
        same = x.dims == y.dims and x.dtype == y.dtype and x.shape == y.shape and \
            bool(np.array_equal(x.values, y.values, equal_nan=(x.dtype.kind == "f")))
        if same and "time" in x.coords and "time" in y.coords:
            same = bool(np.array_equal(x["time"].values, y["time"].values))
        if not same:
            bad(code, f"{what}: variable {v} differs: {x.values.tolist()} ({x.dtype}, {x.dims}) versus "
                f"{y.values.tolist()} ({y.dtype}, {y.dims})", why="values", bucket=v, **extra)
    for name in ("scene", "data"):
        try:
            ta, tb = res_a["/" + name], res_b["/" + name]
        except KeyError:
            continue
        if not trees_equal(ta, tb):
            bad(code, f"{what}: /{name} differs: {U.tree_paths(ta)} versus {U.tree_paths(tb)}", why=name, **extra)


def check_debug(res, changes, snaps, cfg, sched, nd, bad):
    """every /intermediate/time_idx_i/<group>/<model> node lists exactly the buckets that model changed"""
    n = len(sched["times"])
    try:
        inter = res["/intermediate"]
    except KeyError:
        bad("debug-missing", "the debug run returned no /intermediate node", why="no-intermediate", bucket="*")
        return 0
    checked = 0
    models = {}
    for name, step, changed, post in changes:
        models[(name, step)] = (changed, post)
    for step in range(n):
        for name in ("noop", "last") + tuple(IDLE):   # these probes change nothing
            models[(name, step)] = ([], None)
    for (name, step), (changed, post) in sorted(models.items()):
        path = f"time_idx_{step}/{GROUP_OF[name]}/{name}"
        try:
            node = inter[path]
            got = sorted(str(v) for v in node.to_dataset(inherit=False).data_vars)
        except KeyError:
            got = None
        checked += 1
        if got is None:
            if changed:
                bad("debug-missing", f"no node /intermediate/{path} although model {name} changed {changed} in step "
                    f"{step}", why="no-node", bucket="*")
            continue
        prev = snaps[step - 1] if step > 0 else None
        for b in changed:
            if b not in got:
                same_prev = prev is not None and post is not None and U.same_value(prev[b], post[b])
                bad("debug-missing", f"model {name} changed bucket {b} in step {step} (to "
                    f"{U.describe(post[b])}) but /intermediate/{path} records only {got}",
                    why="same-values-as-previous-step" if same_prev else "other", bucket=b)
        for b in got:
            if b not in changed:
                differs_prev = prev is not None and post is not None and b in prev and \
                    not U.same_value(prev[b], post[b])
                bad("debug-extra", f"/intermediate/{path} records bucket {b} although model {name} did not change it "
                    f"in step {step} (it changed {changed})",
                    why="differs-from-end-of-previous-step" if differs_prev else "other", bucket=b,
                    mode="non-destructive" if nd else "destructive")
        if post is not None:
            ds = node.to_dataset(inherit=False)
            for b in got:
                if b in changed:
                    want = post[b]
                    import xarray as xr

                    if isinstance(want, xr.DataArray):
                        ok = exact_equal(ds[b].transpose("wavelength", "y", "x").values, want.values)
                    else:
                        ok = exact_equal(ds[b].values, want)
                    if not ok:
                        bad("debug-value", f"/intermediate/{path}/{b} = {ds[b].values.tolist()} but the bucket held "
                            f"{U.describe(want)} after the model", bucket=b)
    return checked


# ------------------------------------------------------------------ case execution

def run_case(case):
    cfg, nd = case["cfg"], bool(case["nd"])
    sched = SCHEDULES[case["sched"]]
    salt = _seed() % 5
    viol = []
    steps = "1" if len(sched["times"]) == 1 else ">=2"

    def bad(code, what, **extra):
        key = {"fam": case["fam"], "code": code}
        key.update(extra)
        viol.append((key, f"{what}; cfg={cfg} times={sched['times']} start={sched['start']} non_destructive={nd}"))

    compared = 0
    shapes = {}
    results = {}
    for layout, hier in (("hier", True), ("flat", False)):
        try:
            res, snaps, _ = run_once(cfg, sched, nd, hier, False, salt)
        except Exception as e:  # noqa: BLE001
            bad("raised", f"[{layout}] the run raised {type(e).__name__}: {str(e)[:300]}", layout=layout, steps=steps,
                scene=cfg["scene"], photon3d=("wl" in cfg["photon"]))
            continue
        results[layout] = (res, snaps)
        c, sh = check_record(res, snaps, sched, cfg, layout, bad, salt)
        compared += c
        shapes[layout] = sh
    if case.get("legacy") and "wl" not in cfg["photon"]:      # (the legacy entry refuses multi-wavelength photons loudly)
        try:
            res_l, snaps_l, _ = run_once(cfg, sched, nd, True, False, salt, legacy=True)
        except Exception as e:  # noqa: BLE001
            bad("raised", f"[legacy] pyxel.exposure_mode raised {type(e).__name__}: {str(e)[:300]}", layout="legacy", steps=steps,
                scene=cfg["scene"], photon3d=("wl" in cfg["photon"]))
        else:
            c, _ = check_record(res_l, snaps_l, sched, cfg, "legacy", bad, salt)
            compared += c
    if "hier" in results and "flat" in results:
        compare_layouts(results["flat"][0], results["hier"][0], "flat versus hierarchical layout", "layout-differs", bad)
        compared += 1
    if cfg["debug"] != "off" and "hier" in results:
        try:
            res_d, snaps_d, changes = run_once(cfg, sched, nd, True, True, salt)
        except Exception as e:  # noqa: BLE001
            bad("raised", f"[debug] the run raised {type(e).__name__}: {str(e)[:300]}", layout="debug", steps=steps)
        else:
            c, _ = check_record(res_d, snaps_d, sched, cfg, "debug", bad, salt)
            compared += c
            compare_layouts(res_d, results["hier"][0], "debug on versus debug off", "debug-alters-result", bad)
            compared += check_debug(res_d, changes, snaps_d, cfg, sched, nd, bad)
    sig = cfgx.sig([cfg, case["sched"], nd, shapes])
    return {"viol": viol, "sig": sig, "nontrivial": compared > 0, "n": compared,
            "outcome": {"compared": compared, "result_vars": shapes.get("hier")}}


cfgx.install(__import__("sys").modules[__name__])
