"""C12 - a configuration file means what it says, and nonsense is refused.

Bounded exhaustive enumeration (vp.cfgx), three families, all executed on the real entry points:

  doc       YAML documents generated from a nested Python description (4 detector types x 3 running modes x palettes
            of field sets, value-range spellings and readout-time spellings): every setting of the objects returned
            by pyxel.loads equals the description (expressions evaluated to the numbers they denote), and
            pyxel.run_mode on the loaded objects gives the same result tree as on the same objects built in Python.
  presence  all 2^3 x 2^4 presence patterns of the three mode keys and the four detector keys, as a YAML document
            and as a Configuration object: accepted iff exactly one of each.
  range     table of validated physical quantities x boundary values {low-d, low, low+d, mid, high-d, high, high+d, 0}
            x paths {constructor, YAML, attribute setter, Processor.set, observation sweep built in Python, observation
            sweep written in YAML} x detector types: every
            path gives the table's verdict and an accepted value reads back equal.
"""
from __future__ import annotations

import json
import os
import shutil
import sys
import tempfile

import numpy as np

from vp import cfgx, mk
from vp.e_util import diff, plain, snap_tree

ID = "C12"
LEVEL = "exploration"
ENGINE = "cfgx"
TIMEOUT = 900
TECHNIQUE = ("bounded exhaustive enumeration of generated YAML documents (detector type x running mode x field palettes), "
             "of all presence patterns of mode / detector keys, and of a table of range-checked quantities x boundary "
             "values x five ways of setting them; loaded objects compared setting by setting with the generating "
             "description, runs compared with runs of the same objects built in Python")
LEVEL_TEXT = ("Every document of the finite family (4 detector types x 3 modes x 5 detector palettes x 8/5/3 mode "
              "palettes) is loaded with pyxel.loads and each setting of detector, pipeline and running mode is compared "
              "with the description that generated the text; both constructions are executed with pyxel.run_mode and "
              "the result trees compared node by node. All 128 presence patterns are decided on both construction "
              "paths. Every (quantity, boundary value, path, detector type) cell of the range table is executed and "
              "compared with the verdict of the documented range."
              " Assignment path yaml-exp writes the value in exponent notation without a decimal point (loaded as text by PyYAML); one pipeline palette repeats a model name inside a group.")
LEVEL_NOTE = ("Bounded: palettes of values, one pipeline shape with probe models, detector 2x3; ranges are taken from the "
              "constructors' messages / docstrings and the property statement (inclusive bounds, temperature and array "
              "sizes strictly positive). Trusted: PyYAML's safe_dump writes the description faithfully. Calibration "
              "runs use population 8 x 1 generation with a fixed pygmo seed. Not covered: custom observation mode, "
              "command-line overrides, outputs other than the output folder.")
DESIGN_REF = "DESIGN.md section 4, C12"
ASSUMPTIONS = [
    "'between a and b' in a constructor message means a <= x <= b (the property statement names 0..1 and 4..64 as valid)",
    "a key written with an empty mapping / null (environment, characteristics, exposure) leaves every optional setting unset",
    "numbers compare by value (1 == 1.0); list and tuple spellings are the same value",
    "an exception of any type is a refusal; an observation sweep is accepted when the run completes and the model saw the value",
]
RULE = ("doc: product(detector type, detector palette, mode, mode palette), run on both constructions for the cases "
        "marked run; presence: all 128 patterns x 2 construction paths; range: product(table row, detector class, path) "
        "each evaluating all boundary values; non-trivial = document accepted / at least one accepted and one refused "
        "value; distinct = distinct expected setting snapshots or verdict vectors")
NSHARDS = 48

GROUPS = ["scene_generation", "photon_collection", "phasing", "charge_generation", "charge_collection",
          "charge_transfer", "charge_measurement", "signal_transfer", "readout_electronics", "data_processing"]
MARK = "props.c12_configuration.m_mark"
SEEN = "props.c12_configuration.m_seen"
ROWS, COLS = 2, 3


def _seed():
    return int(os.environ.get("VERIF_SEED", "0") or 0)


# ================================================================== probe models (importable by dotted name)

TRACE: list = []


def _readable_settings(detector):
    out = []
    for obj, names in ((detector.geometry, ("total_thickness", "pixel_vert_size", "pixel_horz_size", "pixel_scale")),
                       (detector.environment, ("temperature",)),
                       (detector.characteristics, ("quantum_efficiency", "charge_to_volt_conversion",
                                                   "pre_amplification", "full_well_capacity", "adc_bit_resolution",
                                                   "avalanche_gain"))):
        for n in names:
            try:
                v = getattr(obj, n)
            except Exception:  # noqa: BLE001
                continue
            if isinstance(v, (int, float)):
                out.append(float(v))
    return out


def m_mark(detector, a=0.0, v=None, label=""):
    """Deterministic function of the received arguments and of every readable numeric setting, accumulated in the
    pixel bucket (photon / image hold the last contribution)."""
    shape = detector.geometry.shape
    base = np.arange(shape[0] * shape[1], dtype="float64").reshape(shape) + 1.0
    vv = [float(x) for x in (v if v is not None else [])]
    s = _readable_settings(detector)
    contrib = base * (1.0 + float(a)) + 1000.0 * sum((i + 1) * x for i, x in enumerate(vv)) \
        + sum((i + 1) * x for i, x in enumerate(s)) / 1024.0
    prev = detector.pixel.array if detector.pixel._array is not None else 0.0
    detector.pixel.array = np.asarray(prev + contrib, dtype="float64")
    detector.photon.array = np.abs(contrib)
    detector.image.array = (np.abs(contrib) % 60000).astype("uint16")
    TRACE.append({"name": detector.current_running_model_name, "a": float(a), "v": vv, "label": label})


def m_seen(detector, section="", field=""):
    """Record the value of detector.<section>.<field> as the running model sees it."""
    try:
        val = plain(getattr(getattr(detector, section), field))
    except Exception as e:  # noqa: BLE001
        val = f"<unreadable {type(e).__name__}>"
    TRACE.append({"name": detector.current_running_model_name, "value": val})


# ================================================================== descriptions

DET_PALETTES = ["full", "min", "null", "multiwl", "ints"]


def detector_fields(kind, pal):
    """(geometry, environment, characteristics) as written in the document; None = key written as null."""
    s = _seed() % 4
    geo = {"row": ROWS, "col": COLS}
    if pal in ("full", "multiwl"):
        geo.update(total_thickness=10.5 + s, pixel_vert_size=2.0, pixel_horz_size=0.5, pixel_scale=1.5)
    elif pal == "ints":
        geo.update(total_thickness=10 + s, pixel_vert_size=2, pixel_horz_size=1)
    if pal == "full":
        env = {"temperature": 100.5 + s, "wavelength": 600.0}
    elif pal == "multiwl":
        env = {"temperature": 100.5 + s, "wavelength": {"cut_on": 500.0, "cut_off": 900.0, "resolution": 100}}
    elif pal == "ints":
        env = {"temperature": 100 + s, "wavelength": 600}
    elif pal == "null":
        env = None
    else:
        env = {}
    if kind == "apd":
        if pal in ("full", "multiwl"):
            cha = {"roic_gain": 0.5, "quantum_efficiency": 0.5, "full_well_capacity": 1000.5 + s, "adc_bit_resolution": 16,
                   "adc_voltage_range": [0.0, 8.0], "avalanche_gain": 2.0, "pixel_reset_voltage": 3.0}
        elif pal == "ints":
            cha = {"roic_gain": 1, "quantum_efficiency": 1, "full_well_capacity": 1000 + s, "adc_bit_resolution": 12,
                   "adc_voltage_range": [0, 8], "avalanche_gain": 2, "common_voltage": -3}
        else:
            cha = {"roic_gain": 0.5, "avalanche_gain": 2.0, "common_voltage": -2.5}
    else:
        if pal in ("full", "multiwl"):
            cha = {"quantum_efficiency": 0.5, "charge_to_volt_conversion": 1e-3, "pre_amplification": 4.5 + s,
                   "full_well_capacity": 1000.5, "adc_bit_resolution": 16, "adc_voltage_range": [0.0, 8.0]}
        elif pal == "ints":
            cha = {"quantum_efficiency": 1, "charge_to_volt_conversion": 1, "pre_amplification": 4 + s,
                   "full_well_capacity": 1000, "adc_bit_resolution": 12, "adc_voltage_range": [0, 8]}
        elif pal == "null":
            cha = None
        else:
            cha = {}
    return geo, env, cha


GEO_FIELDS = ("row", "col", "total_thickness", "pixel_vert_size", "pixel_horz_size", "pixel_scale")
STD_FIELDS = ("quantum_efficiency", "charge_to_volt_conversion", "pre_amplification", "full_well_capacity",
              "adc_bit_resolution", "adc_voltage_range")
APD_FIELDS = ("roic_gain", "quantum_efficiency", "full_well_capacity", "adc_bit_resolution", "adc_voltage_range",
              "avalanche_gain", "pixel_reset_voltage", "common_voltage")


def expected_detector(kind, geo, env, cha):
    e = {"type": {"ccd": "CCD", "cmos": "CMOS", "mkid": "MKID", "apd": "APD"}[kind]}
    e["geometry"] = {f: geo.get(f, "<unset>") for f in GEO_FIELDS}
    env = env or {}
    e["environment"] = {"temperature": env.get("temperature", "<unset>"), "wavelength": env.get("wavelength", "<unset>")}
    cha = cha or {}
    if kind == "apd":
        e["characteristics"] = {f: cha.get(f, "<unset>") for f in APD_FIELDS if f in cha
                                or f not in ("avalanche_gain", "pixel_reset_voltage", "common_voltage")}
    else:
        e["characteristics"] = {f: cha.get(f, "<unset>") for f in STD_FIELDS}
    return e


PIPE_PALETTES = ["sparse", "dense"]


def pipeline_desc(pal="sparse"):
    s = _seed() % 3
    if pal == "dup":            # two entries of one group carry the same name (a step applied twice): both are in the file
        return {
            "photon_collection": [{"name": "mark1", "func": MARK, "enabled": True, "arguments": {"a": 1.5 + s, "v": [1]}},
                                  {"name": "mark1", "func": MARK, "enabled": True, "arguments": {"a": 2.5 + s, "v": [2]}}],
            "charge_collection": [{"name": "mark2", "func": MARK, "enabled": True, "arguments": {"a": 7}},
                                  {"name": "other", "func": MARK, "enabled": True, "arguments": {"a": 8}},
                                  {"name": "mark2", "func": MARK, "enabled": False, "arguments": {"a": 9}}],
            "readout_electronics": [{"name": "mark3", "func": MARK, "enabled": True, "arguments": {"a": 3}}],
        }
    if pal == "dense":          # one model in every group, written in reverse group order
        return {g: [{"name": f"m{i}", "func": MARK, "enabled": i % 4 != 1, "arguments": {"a": i + s, "v": [i]}}]
                for i, g in reversed(list(enumerate(GROUPS)))} | {
            "photon_collection": [{"name": "mark1", "func": MARK, "enabled": True, "arguments": {"a": 1.5 + s, "v": [1, 2.5]}}],
            "readout_electronics": [{"name": "mark3", "func": MARK, "enabled": True, "arguments": {"a": 3}}]}
    return {
        "photon_collection": [{"name": "mark1", "func": MARK, "enabled": True, "arguments": {"a": 1.5 + s, "v": [1, 2.5]}}],
        "charge_collection": [{"name": "mark2", "func": MARK, "enabled": False, "arguments": {"a": 7}},
                              {"name": "mark2b", "func": MARK, "enabled": True}],
        "charge_transfer": None,
        "readout_electronics": [{"name": "mark3", "func": MARK, "enabled": True, "arguments": {"a": 3, "label": "x y"}}],
    }


def expected_pipeline(p):
    out = {}
    for g, lst in p.items():
        if lst:
            out[g] = [{"name": m["name"], "func": m["func"], "enabled": m.get("enabled", True),
                       "arguments": m.get("arguments") or {}} for m in lst]
    return out


MODE_PALETTES = {
    "exposure": ["null", "list", "scalar", "nparray", "arange", "linspace", "tiny", "file", "file-row", "file-line",
                 "outputs"],
    "observation": ["product-lists", "product-numpy", "product-numpy-fine", "sequential", "disabled-step", "dask"],
    "calibration": ["one-parameter", "vector-parameter", "readout"],
}


def mode_desc(mode, pal, tmp):
    """returns (doc value under the mode key, expected settings, python kwargs description)"""
    s = _seed() % 3
    if mode == "exposure":
        readout = {"list": {"times": [1.0, 2.0, 4.0], "non_destructive": False},
                   "scalar": {"times": 2.5},
                   "nparray": {"times": "numpy.array([0.5, 1, 2])", "non_destructive": True},
                   "arange": {"times": "numpy.arange(1, 4)", "start_time": 0.5},
                   "linspace": {"times": "numpy.linspace(1, 3, 3)", "start_time": 0.25, "non_destructive": True},
                   "tiny": {"times": "numpy.linspace(1e-13, 5e-13, 5)"},
                   "outputs": {"times": [1.0, 2.0]}}.get(pal)
        times = {"list": [1.0, 2.0, 4.0], "scalar": [2.5], "nparray": [0.5, 1.0, 2.0], "arange": [1.0, 2.0, 3.0],
                 "linspace": [1.0, 2.0, 3.0], "outputs": [1.0, 2.0], "null": [1.0], "file": [1.0, 3.0],
                 "file-row": [1.0, 3.0, 4.5], "file-line": [1.0, 2.5, 4.0, 8.0],
                 "tiny": np.linspace(1e-13, 5e-13, 5).tolist()}[pal]
        if pal == "file":
            path = os.path.join(tmp, "times.npy")
            np.save(path, np.array([1.0, 3.0]))
            readout = {"times_from_file": path}
        elif pal == "file-row":          # the times stored as ONE ROW of a 2-D array
            path = os.path.join(tmp, "times_row.npy")
            np.save(path, np.array([[1.0, 3.0, 4.5]]))
            readout = {"times_from_file": path}
        elif pal == "file-line":         # ... as one comma-separated line of a text table
            path = os.path.join(tmp, "times_line.csv")
            with open(path, "w") as fh:
                fh.write("1.0,2.5,4.0,8.0\n")
            readout = {"times_from_file": path}
        doc = None if pal == "null" else {"readout": readout}
        exp = {"readout": {"times": times, "start_time": (readout or {}).get("start_time", 0.0),
                           "non_destructive": (readout or {}).get("non_destructive", False)},
               "result_type": "all", "pipeline_seed": None}
        if pal in ("arange", "linspace"):
            doc["result_type"] = "image" if pal == "arange" else "pixel"
            doc["pipeline_seed"] = 42 + s
            exp["result_type"], exp["pipeline_seed"] = doc["result_type"], doc["pipeline_seed"]
        if pal == "outputs":
            doc["outputs"] = {"output_folder": os.path.join(tmp, "out"), "custom_dir_name": "vp_"}
            exp["outputs"] = {"output_folder": os.path.join(tmp, "out"), "custom_dir_name": "vp_"}
        return doc, exp
    if mode == "observation":
        k1 = "pipeline.photon_collection.mark1.arguments.a"
        k3 = "pipeline.readout_electronics.mark3.arguments.a"
        if pal == "product-lists":
            params = [{"key": k1, "values": [1, 2, 3 + s]}, {"key": k3, "values": [0.5, 1.5]}]
            vals = [[1, 2, 3 + s], [0.5, 1.5]]
            doc = {"mode": "product", "parameters": params}
        elif pal == "product-numpy":
            params = [{"key": k1, "values": "numpy.arange(1, 4)"}, {"key": k3, "values": "numpy.linspace(0, 1, 3)"}]
            vals = [[1, 2, 3], [0.0, 0.5, 1.0]]
            doc = {"mode": "product", "parameters": params, "readout": {"times": [1.0, 2.0]}, "pipeline_seed": 5}
        elif pal == "product-numpy-fine":
            # expressions whose values need all 17 significant digits / are tiny in magnitude
            params = [{"key": k1, "values": "numpy.logspace(-14, -12, 3)"}, {"key": k3, "values": "numpy.linspace(0, 1, 7)"}]
            vals = [np.logspace(-14, -12, 3).tolist(), np.linspace(0, 1, 7).tolist()]
            doc = {"mode": "product", "parameters": params}
        elif pal == "sequential":
            params = [{"key": k1, "values": [1, 2]}, {"key": k3, "values": "numpy.array([3.5, 4.5, 5.5])"}]
            vals = [[1, 2], [3.5, 4.5, 5.5]]
            doc = {"mode": "sequential", "parameters": params, "result_type": "pixel"}
        elif pal == "disabled-step":
            params = [{"key": k1, "values": [1, 2], "enabled": False}, {"key": k3, "values": [3, 4 + s], "logarithmic": False}]
            vals = [[1, 2], [3, 4 + s]]
            doc = {"parameters": params}
        else:
            params = [{"key": k1, "values": [1, 2]}]
            vals = [[1, 2]]
            doc = {"mode": "product", "parameters": params, "with_dask": True}
        exp = {"parameters": [{"key": p["key"], "values": v, "enabled": p.get("enabled", True),
                               "logarithmic": p.get("logarithmic", False)} for p, v in zip(params, vals)],
               "with_dask": doc.get("with_dask", False), "result_type": doc.get("result_type", "all"),
               "pipeline_seed": doc.get("pipeline_seed"),
               "readout": {"times": (doc.get("readout") or {}).get("times", [1.0]), "start_time": 0.0,
                           "non_destructive": False}}
        return doc, exp
    # calibration
    target = os.path.join(tmp, "target.npy")
    fit = [0, ROWS, 0, COLS]
    if pal == "readout":        # explicit readout times => time-domain simulation => 3-D target and 6 range values
        np.save(target, np.zeros((1, ROWS, COLS)) + s)
        fit = [0, 1, 0, ROWS, 0, COLS]
    else:
        np.save(target, np.zeros((ROWS, COLS)) + s)
    k1 = "pipeline.photon_collection.mark1.arguments.a"
    kv = "pipeline.photon_collection.mark1.arguments.v"
    if pal == "vector-parameter":
        params = [{"key": k1, "values": "_", "boundaries": [0.0, 10.0]},
                  {"key": kv, "values": ["_", "_"], "boundaries": [[0.0, 1.0], [2.0, 3.0]], "logarithmic": False}]
    else:
        params = [{"key": k1, "values": "_", "boundaries": [0.5, 10.0 + s], "logarithmic": False}]
    doc = {"result_type": "pixel", "result_fit_range": list(fit), "target_fit_range": list(fit),
           "target_data_path": [target],
           "fitness_function": {"func": "pyxel.calibration.fitness.sum_of_abs_residuals"},
           "algorithm": {"type": "sade", "generations": 1, "population_size": 8},
           "pygmo_seed": 7 + s, "num_islands": 1, "num_evolutions": 1, "topology": "unconnected",
           "parameters": params}
    if pal == "readout":
        doc["readout"] = {"times": 2.0}
        doc["pipeline_seed"] = 11
    exp = {"result_type": "pixel", "result_fit_range": list(fit), "target_fit_range": list(fit),
           "target_data_path": [target], "fitness_function": "pyxel.calibration.fitness.sum_of_abs_residuals",
           "algorithm": {"type": "sade", "generations": 1, "population_size": 8},
           "pygmo_seed": 7 + s, "num_islands": 1, "num_evolutions": 1, "topology": "unconnected",
           "pipeline_seed": doc.get("pipeline_seed"),
           "parameters": [{"key": p["key"], "values": p["values"], "boundaries": p["boundaries"],
                           "enabled": True, "logarithmic": False} for p in params],
           "readout": {"times": [2.0] if pal == "readout" else [1.0], "start_time": 0.0, "non_destructive": False}}
    return doc, exp


# ================================================================== snapshots of real objects (public attributes)

def _get(obj, name):
    try:
        return plain(getattr(obj, name))
    except Exception:  # noqa: BLE001       (getters raise when a value was not specified)
        return "<unset>"


def snap_detector(det):
    g, e, c = det.geometry, det.environment, det.characteristics
    out = {"type": type(det).__name__, "geometry": {f: _get(g, f) for f in GEO_FIELDS}}
    env = {"temperature": _get(e, "temperature")}
    try:
        w = e.wavelength
        env["wavelength"] = ({"cut_on": plain(w.cut_on), "cut_off": plain(w.cut_off), "resolution": plain(w.resolution)}
                             if hasattr(w, "cut_on") else plain(w))
    except Exception:  # noqa: BLE001
        env["wavelength"] = "<unset>"
    out["environment"] = env
    names = APD_FIELDS if type(det).__name__ == "APD" else STD_FIELDS
    out["characteristics"] = {f: _get(c, f) for f in names}
    return out


def _only_written(got, expected):
    """APD: of (avalanche_gain, pixel_reset_voltage, common_voltage) two are written and the third is derived by the
    library; only the written ones are settings of the document."""
    cha = got["detector"]["characteristics"]
    for f in ("avalanche_gain", "pixel_reset_voltage", "common_voltage"):
        if f in cha and f not in expected["detector"]["characteristics"]:
            del cha[f]
    return got


def snap_pipeline(pipe):
    out = {}
    for g in GROUPS:
        grp = getattr(pipe, g, None)
        if grp is None:
            continue
        models = []
        for m in grp.models:
            f = m.func
            models.append({"name": m.name, "func": f"{f.__module__}.{f.__name__}", "enabled": bool(m.enabled),
                           "arguments": plain(dict(m.arguments))})
        if models:
            out[g] = models
    return out


def snap_readout(r):
    return {"times": [float(x) for x in np.asarray(r.times).ravel()], "start_time": float(r.start_time),
            "non_destructive": bool(r.non_destructive)}


def _func_name(ff):
    f = getattr(ff, "_func", None) or ff
    return f"{f.__module__}.{f.__name__}"


def snap_mode(obj, mode):
    out = {"readout": snap_readout(obj.readout), "result_type": str(plain(obj.result_type)),
           "pipeline_seed": plain(obj.pipeline_seed)}
    if mode == "exposure":
        if obj.outputs is not None:
            out["outputs"] = {"output_folder": str(obj.outputs.output_folder),
                              "custom_dir_name": str(obj.outputs.custom_dir_name)}
    elif mode == "observation":
        out["with_dask"] = bool(obj.with_dask)
        out["parameters"] = [{"key": p.key, "values": [plain(v) for v in p], "enabled": bool(p.enabled),
                              "logarithmic": bool(p.logarithmic)} for p in obj.parameter_mode.parameters]
    else:
        out.update({
            "result_fit_range": plain(list(obj.result_fit_range)), "target_fit_range": plain(list(obj.target_fit_range)),
            "target_data_path": [str(p) for p in obj.target_data_path],
            "fitness_function": _func_name(obj.fitness_function),
            "algorithm": {"type": str(getattr(obj.algorithm.type, "value", obj.algorithm.type)),
                          "generations": plain(obj.algorithm.generations),
                          "population_size": plain(obj.algorithm.population_size)},
            "pygmo_seed": plain(obj.pygmo_seed), "num_islands": plain(obj.num_islands),
            "num_evolutions": plain(obj.num_evolutions), "topology": str(plain(obj.topology)),
            "parameters": [{"key": p.key, "values": plain(p.values), "enabled": bool(p.enabled),
                            "logarithmic": bool(p.logarithmic),
                            "boundaries": plain(p.boundaries) if p.boundaries is not None else None}
                           for p in obj.parameters]})
    return out


# ================================================================== building the same objects in Python

def build_detector(kind, geo, env, cha):
    from pyxel.detectors import (APD, CCD, CMOS, MKID, APDCharacteristics, APDGeometry, CCDGeometry, Characteristics,
                                 CMOSGeometry, Environment, MKIDGeometry)
    from pyxel.detectors.environment import WavelengthHandling

    gcls = {"ccd": CCDGeometry, "cmos": CMOSGeometry, "mkid": MKIDGeometry, "apd": APDGeometry}[kind]
    dcls = {"ccd": CCD, "cmos": CMOS, "mkid": MKID, "apd": APD}[kind]
    env = dict(env or {})
    if isinstance(env.get("wavelength"), dict):
        env["wavelength"] = WavelengthHandling(**env["wavelength"])
    cha = dict(cha or {})
    if "adc_voltage_range" in cha:
        cha["adc_voltage_range"] = tuple(cha["adc_voltage_range"])
    ccls = APDCharacteristics if kind == "apd" else Characteristics
    return dcls(geometry=gcls(**geo), environment=Environment(**env), characteristics=ccls(**cha))


def build_pipeline(p):
    from pyxel.pipelines import DetectionPipeline, ModelFunction

    kw = {}
    for g, lst in p.items():
        if lst is None:
            kw[g] = None
        else:
            kw[g] = [ModelFunction(func=m["func"], name=m["name"], arguments=json.loads(json.dumps(m.get("arguments"))),
                                   enabled=m.get("enabled", True)) for m in lst]
    return DetectionPipeline(**kw)


def build_mode(mode, doc, exp):
    """Python construction from the *denoted* values (expected settings), not from the textual spellings."""
    from pyxel.exposure import Exposure, Readout
    from pyxel.observation import Observation, ParameterValues

    r = exp["readout"]
    if mode == "exposure" and doc is None:
        readout = Readout()
    elif mode != "exposure" and "readout" not in (doc or {}):
        readout = None
    else:
        readout = Readout(times=list(r["times"]), start_time=r["start_time"], non_destructive=r["non_destructive"])
    if mode == "exposure":
        outputs = None
        if "outputs" in exp:
            from pyxel.outputs import ExposureOutputs

            outputs = ExposureOutputs(**exp["outputs"])
        return Exposure(readout=readout, outputs=outputs, result_type=exp["result_type"],
                        pipeline_seed=exp["pipeline_seed"])
    if mode == "observation":
        params = [ParameterValues(key=p["key"], values=list(p["values"]), enabled=p["enabled"],
                                  logarithmic=p["logarithmic"]) for p in exp["parameters"]]
        return Observation(parameters=params, readout=readout, mode=doc.get("mode", "product"),
                           with_dask=exp["with_dask"], result_type=exp["result_type"],
                           pipeline_seed=exp["pipeline_seed"])
    from pyxel.calibration import Algorithm, Calibration
    from pyxel.pipelines import FitnessFunction

    params = [ParameterValues(key=p["key"], values=p["values"], boundaries=p["boundaries"],
                              logarithmic=p["logarithmic"]) for p in exp["parameters"]]
    return Calibration(target_data_path=list(exp["target_data_path"]),
                       fitness_function=FitnessFunction(func=exp["fitness_function"]),
                       algorithm=Algorithm(**exp["algorithm"]), parameters=params, readout=readout,
                       result_type=exp["result_type"], result_fit_range=tuple(exp["result_fit_range"]),
                       target_fit_range=tuple(exp["target_fit_range"]), pygmo_seed=exp["pygmo_seed"],
                       pipeline_seed=exp["pipeline_seed"], num_islands=exp["num_islands"],
                       num_evolutions=exp["num_evolutions"], topology=exp["topology"])


# ================================================================== part doc

def _reversed_keys(obj, depth=0):
    """the same document with the keys of every nested mapping written in reverse order (YAML mappings are unordered);
    the top level and the model lists keep their order (group / model order is the subject of C01)"""
    if isinstance(obj, dict):
        items = [(k, _reversed_keys(v, depth + 1)) for k, v in obj.items()]
        return dict(items[::-1] if depth >= 1 else items)
    if isinstance(obj, list):
        return [_reversed_keys(v, depth + 1) for v in obj]
    return obj


def yaml_text(docdict, korder="asis"):
    import yaml

    if korder == "rev":
        docdict = _reversed_keys(docdict)
    return yaml.safe_dump(docdict, sort_keys=False, default_flow_style=None)


def _run(mode_obj, det, pipe, mode):
    import dask
    import pyxel

    del TRACE[:]
    with dask.config.set(scheduler="synchronous"):
        res = pyxel.run_mode(mode_obj, det, pipe)
        trace = [dict(t) for t in TRACE]          # calls made by the run itself
        # lazy parts of the result are computed here, one after the other
        tree = snap_tree(res) if hasattr(res, "subtree") else plain(res)
    if isinstance(tree, dict):
        # /output lists the files written into the run folder, which is a fresh folder for every run (see C19)
        tree = {k: v for k, v in tree.items() if not (k == "/output" or k.startswith("/output/"))}
    return tree, trace


def _load_and_scribble(text):
    """Load the document and change the loaded objects in place through public attributes."""
    import pyxel

    try:
        c0 = pyxel.loads(text)
    except Exception:  # noqa: BLE001  (refusals are judged on the load under test)
        return
    steps = [
        lambda: setattr(c0.running_mode.readout, "times", [7.0, 8.0, 9.0]),
        lambda: setattr(c0.running_mode.readout, "non_destructive", not c0.running_mode.readout.non_destructive),
        lambda: setattr(c0.running_mode, "pipeline_seed", 987),
        lambda: setattr(c0.detector.environment, "temperature", 77.0),
        lambda: setattr(c0.detector.characteristics, "quantum_efficiency", 0.0625),
    ]
    for grp in c0.pipeline.model_group_names:
        g = getattr(c0.pipeline, grp)
        for m in (g.models if g else []):
            steps.append(lambda m=m: setattr(m, "enabled", not m.enabled))
            for k in list(m.arguments):
                steps.append(lambda m=m, k=k: m.arguments.__setitem__(k, "scribbled"))
    for st in steps:
        try:
            st()
        except Exception:  # noqa: BLE001
            pass


def run_doc(case):
    import pyxel

    kind, dpal, mode, mpal = case["det"], case["detpal"], case["mode"], case["modepal"]
    viol, seen = [], set()
    tag = f"{kind}/{dpal} {mode}/{mpal}" + (f" pipeline={case['pipe']}" if case.get("pipe", "sparse") != "sparse" else "") \
        + (" keys-reversed" if case.get("korder") == "rev" else "")

    def bad(code, where, what):
        key = {"part": "doc", "code": code, "where": where, "mode": mode}
        if where.startswith("detector.characteristics"):
            key["det"] = "apd" if kind == "apd" else "std"
        kk = json.dumps(key, sort_keys=True)
        if kk not in seen:
            seen.add(kk)
            viol.append((key, f"[{tag}] {what}"))

    tmp = tempfile.mkdtemp(prefix="vp_")
    accepted = False
    expected = None
    try:
        geo, env, cha = detector_fields(kind, dpal)
        pdesc = pipeline_desc(case.get("pipe", "sparse"))
        mdoc, mexp = mode_desc(mode, mpal, tmp)
        expected = {"detector": expected_detector(kind, geo, env, cha), "pipeline": expected_pipeline(pdesc),
                    "mode": mexp}
        docdict = {mode: mdoc, f"{kind}_detector": {"geometry": geo, "environment": env, "characteristics": cha},
                   "pipeline": pdesc}
        text = yaml_text(docdict, case.get("korder", "asis"))
        try:
            # an earlier load of the SAME document whose objects the user then changed: the load under test must not see
            # any of that (no object may be shared between two loads)
            _load_and_scribble(text)
            cfg = pyxel.loads(text)
            accepted = True
        except Exception as e:  # noqa: BLE001
            bad("load-failed", "document", f"a valid document was refused with {type(e).__name__}: {str(e)[:200]}\n{text}")
            cfg = None
        if cfg is not None:
            try:
                got = {"detector": snap_detector(cfg.detector), "pipeline": snap_pipeline(cfg.pipeline),
                       "mode": snap_mode(cfg.running_mode, mode)}
            except Exception as e:  # noqa: BLE001
                bad("unreadable", "loaded-objects", f"reading the loaded objects raised {type(e).__name__}: {str(e)[:200]}")
                got = None
            if got is not None:
                got = _only_written(got, expected)
                if type(cfg.running_mode).__name__.lower() != mode:
                    bad("setting", "mode.type", f"running mode is a {type(cfg.running_mode).__name__}, document says {mode}")
                for path, a, b in diff(expected, got):
                    where = ".".join(path.replace("[", ".[").split(".")[:3])
                    bad("setting", where, f"{path}: the document says {json.dumps(a, default=str)[:160]} but the loaded "
                        f"object has {json.dumps(b, default=str)[:160]}")
        # the same objects built in Python: settings (harness sanity + python path) and runs
        try:
            pdet, ppipe, pmode = build_detector(kind, geo, env, cha), build_pipeline(pdesc), build_mode(mode, mdoc, mexp)
            pgot = _only_written({"detector": snap_detector(pdet), "pipeline": snap_pipeline(ppipe),
                                  "mode": snap_mode(pmode, mode)}, expected)
            for path, a, b in diff(expected, pgot):
                where = ".".join(path.replace("[", ".[").split(".")[:3])
                bad("python-setting", where, f"{path}: built in Python with {json.dumps(a, default=str)[:160]} but the "
                    f"object reports {json.dumps(b, default=str)[:160]}")
        except Exception as e:  # noqa: BLE001
            bad("python-build-failed", "python", f"building the described objects in Python raised {type(e).__name__}: "
                f"{str(e)[:200]}")
            pdet = None
        nruns = 0
        both_failed = None
        if case.get("run") and cfg is not None and pdet is not None and not viol:
            r1 = r2 = None
            e1 = e2 = None
            try:
                r1, t1 = _run(cfg.running_mode, cfg.detector, cfg.pipeline, mode)
            except Exception as e:  # noqa: BLE001
                e1 = f"{type(e).__name__}: {str(e)[:300]}"
            try:
                r2, t2 = _run(pmode, pdet, ppipe, mode)
            except Exception as e:  # noqa: BLE001
                e2 = f"{type(e).__name__}: {str(e)[:300]}"
            if (e1 is None) != (e2 is None):
                # the property is relational: the two constructions must behave alike (a run that fails on both
                # alike is the business of the property that owns the failing feature)
                bad("run-differs", "exception", f"run_mode on the YAML-loaded objects: {e1 or 'completed'}; on the "
                    f"Python-built objects: {e2 or 'completed'}")
            elif e1 is not None and _strip_tmp(e1) != _strip_tmp(e2):
                bad("run-differs", "exception", f"both runs fail, differently: yaml {e1} / python {e2}")
            elif e1 is not None:
                both_failed = e1
            if r1 is not None and r2 is not None:
                nruns = len(t1)
                d = diff(r2, r1)
                if d:
                    p0, a0, b0 = d[0]
                    bad("run-differs", "result", f"{len(d)} leaves of the result tree differ between the Python-built and "
                        f"the YAML-loaded run; first: {p0}: python {json.dumps(a0, default=str)[:120]} != yaml "
                        f"{json.dumps(b0, default=str)[:120]}")
                if t1 != t2:
                    bad("run-differs", "trace", f"model calls differ: yaml {t1[:4]} ... python {t2[:4]} ...")
                if not t1:
                    bad("run-empty", "trace", "no model was executed by the run")
    finally:
        try:
            import pyxel as _p

            _p.set_options(working_directory=None)
        except Exception:  # noqa: BLE001
            pass
        shutil.rmtree(tmp, ignore_errors=True)
    return {"viol": viol, "sig": cfgx.sig(_strip_tmp(expected)), "nontrivial": accepted, "n": 1 + (2 if nruns else 0),
            "counts": {"doc_runs_compared": 1 if nruns else 0, "doc_runs_failing_alike": 1 if both_failed else 0},
            "sets": {"runs_failing_alike": [f"{mode}/{mpal}: {_strip_tmp(both_failed)[1:-1][:120]}"] if both_failed else []},
            "outcome": {"accepted": accepted, "model_calls_per_run": nruns, "violations": len(viol)}}


def _strip_tmp(obj):
    import re

    txt = json.dumps(obj, default=str, sort_keys=True)

    return re.sub(r"/tmp/vp_[A-Za-z0-9_]+", "<tmp>", txt)


# ================================================================== part presence

MODE_KEYS = ["exposure", "observation", "calibration"]
DET_KEYS = ["ccd", "cmos", "mkid", "apd"]


def run_presence(case):
    import pyxel
    from pyxel.configuration import Configuration

    modes, dets, path = case["modes"], case["dets"], case["path"]
    viol = []
    should = len(modes) == 1 and len(dets) == 1

    def bad(code, what):
        viol.append(({"part": "presence", "path": path, "code": code, "n_modes": len(modes), "n_detectors": len(dets)},
                     f"[{path}] mode keys {modes}, detector keys {dets}: {what}"))

    tmp = tempfile.mkdtemp(prefix="vp_")
    accepted = False
    try:
        pdesc = pipeline_desc()
        mdocs, mexps = {}, {}
        for m in MODE_KEYS:
            mdocs[m], mexps[m] = mode_desc(m, {"exposure": "list", "observation": "product-lists",
                                               "calibration": "one-parameter"}[m], tmp)
        fields = {k: detector_fields(k, "full") for k in DET_KEYS}
        cfg = None
        try:
            if path == "yaml":
                d = {}
                # key order of the document rotates with the pattern so that "first wins" / "last wins" both show
                for m in (modes if case["order"] == 0 else modes[::-1]):
                    d[m] = mdocs[m]
                for k in (dets if case["order"] == 0 else dets[::-1]):
                    g, e, c = fields[k]
                    d[f"{k}_detector"] = {"geometry": g, "environment": e, "characteristics": c}
                d["pipeline"] = pdesc
                cfg = pyxel.loads(yaml_text(d))
            else:
                kw = {m: build_mode(m, mdocs[m], mexps[m]) for m in modes}
                kw.update({f"{k}_detector": build_detector(k, *fields[k]) for k in dets})
                cfg = Configuration(pipeline=build_pipeline(pdesc), **kw)
            accepted = True
        except Exception as e:  # noqa: BLE001
            if should:
                bad("valid-rejected", f"exactly one mode and one detector, but refused with {type(e).__name__}: {str(e)[:200]}")
        if accepted and not should:
            bad("invalid-accepted", f"accepted although there are {len(modes)} running modes and {len(dets)} detectors "
                f"(got mode={type(cfg.running_mode).__name__ if modes else None}, "
                f"detector={type(cfg.detector).__name__ if dets else None})")
        if accepted and should:
            if type(cfg.running_mode).__name__.lower() != modes[0]:
                bad("wrong-object", f"running_mode is {type(cfg.running_mode).__name__}")
            if type(cfg.detector).__name__.lower() != dets[0]:
                bad("wrong-object", f"detector is {type(cfg.detector).__name__}")
    finally:
        try:
            pyxel.set_options(working_directory=None)
        except Exception:  # noqa: BLE001
            pass
        shutil.rmtree(tmp, ignore_errors=True)
    return {"viol": viol, "sig": cfgx.sig([sorted(modes), sorted(dets), accepted]), "nontrivial": True, "n": 1,
            "counts": {"presence_accepted": int(accepted), "presence_refused": int(not accepted)},
            "outcome": {"accepted": accepted, "expected": should}}


# ================================================================== part range

ALL, STD, APD = ("ccd", "cmos", "mkid", "apd"), ("ccd", "cmos", "mkid"), ("apd",)
# section, field, low, high, low inclusive, high inclusive, delta, integer, detector types
TABLE = [
    ("geometry", "row", 0, None, False, None, 1, True, ALL),
    ("geometry", "col", 0, None, False, None, 1, True, ALL),
    ("geometry", "total_thickness", 0.0, 10000.0, True, True, 0.5, False, ALL),
    ("geometry", "pixel_vert_size", 0.0, 1000.0, True, True, 0.25, False, ALL),
    ("geometry", "pixel_horz_size", 0.0, 1000.0, True, True, 0.25, False, ALL),
    ("geometry", "pixel_scale", 0.0, 1000.0, True, True, 0.25, False, ALL),
    ("environment", "temperature", 0.0, 1000.0, False, True, 0.5, False, ALL),
    ("environment", "wavelength", 0.0, None, False, None, 0.5, False, ALL),
    ("characteristics", "quantum_efficiency", 0.0, 1.0, True, True, 0.125, False, ALL),
    ("characteristics", "charge_to_volt_conversion", 0.0, 100.0, True, True, 0.5, False, STD),
    ("characteristics", "pre_amplification", 0.0, 10000.0, True, True, 0.5, False, STD),
    ("characteristics", "full_well_capacity", 0.0, 1.0e7, True, True, 0.5, False, ALL),
    ("characteristics", "adc_bit_resolution", 4, 64, True, True, 1, True, ALL),
    ("characteristics", "adc_voltage_range", "len", 2, True, True, 1, True, ALL),
    ("characteristics", "avalanche_gain", 1.0, 1000.0, True, True, 0.5, False, APD),
    # settings without a documented range (low == "free"): every listed value is valid; what is checked is that the value
    # arrives, reads back, and that the derived quantities follow it on every assignment path
    ("characteristics", "pixel_reset_voltage", "free", [4.0, 5.5, 7.0], True, True, 0.5, False, APD),
    ("characteristics", "common_voltage", "free", [0.5, 1.25, 2.0], True, True, 0.5, False, APD),
]
PATHS = ["ctor", "yaml", "setter", "procset", "sweep", "yaml-sweep", "yaml-exp"]
# "yaml-exp": the value is written in the file the way people write it by hand, in exponent notation without a decimal
# point (-1e2, 1e9, 1e0): YAML 1.1 hands such a scalar to the application as TEXT. The file may be refused, but an
# out-of-range quantity must not get in through it and an accepted one must read back as the number written.
_SENTINEL = 123456789.25


def exp_values(row):
    sec, field, low, high, li, hi, d, integer, _ = row
    if integer or low in ("len", "free"):
        return []
    out = [("exp-below", "-1e2", -100.0, False), ("exp-inside", "1e0", 1.0, True)]
    if high is not None:
        out.append(("exp-above", "1e9", 1.0e9, False))
    return out
THOROUGH_PATHS = ["yaml+setter", "yaml+procset"]      # the loaded objects changed afterwards


def table_values(row):
    """[(label, value, valid)] - boundary values of one table row"""
    sec, field, low, high, li, hi, d, integer, _ = row
    s = _seed() % 3
    if low == "len":
        vals = {0: [], 1: [1.5 + s], 2: [1.0, 5.0 + s], 3: [1.0, 2.0, 3.0 + s]}
        return [(f"len{n}", v, n == 2) for n, v in vals.items()]
    if low == "free":
        return [(f"v{i}", float(v) + 0.125 * s, True) for i, v in enumerate(high)]
    out = [("low-d", low - d), ("low", low), ("low+d", low + d)]
    if high is None:
        out.append(("mid", low + (5 + s) * d))
    else:
        mid = (low + high) // 2 + s if integer else (low + high) / 2.0 + s * d
        out += [("mid", mid), ("high-d", high - d), ("high", high), ("high+d", high + d)]
    if not any(v == 0 for _, v in out):
        out.append(("zero", 0 if integer else 0.0))
    if not integer:
        out.append(("nan", float("nan")))           # not a number: inside no range
        if high is not None:
            out += [("+inf", float("inf")), ("-inf", float("-inf"))]

    def valid(v):
        if v != v:
            return False
        if v < low or (v == low and not li):
            return False
        if high is not None and (v > high or (v == high and not hi)):
            return False
        return True

    return [(lab, (int(v) if integer else float(v)), valid(v)) for lab, v in out]


def _base_fields(kind):
    geo = {"row": ROWS, "col": COLS, "total_thickness": 10.0, "pixel_vert_size": 2.0, "pixel_horz_size": 0.5,
           "pixel_scale": 1.5}
    env = {"temperature": 100.0, "wavelength": 600.0}
    if kind == "apd":
        cha = {"roic_gain": 0.5, "quantum_efficiency": 0.5, "full_well_capacity": 1000.0, "adc_bit_resolution": 16,
               "adc_voltage_range": [0.0, 8.0], "avalanche_gain": 2.0, "pixel_reset_voltage": 3.0}
    else:
        cha = {"quantum_efficiency": 0.5, "charge_to_volt_conversion": 1e-3, "pre_amplification": 4.0,
               "full_well_capacity": 1000.0, "adc_bit_resolution": 16, "adc_voltage_range": [0.0, 8.0]}
    return {"geometry": geo, "environment": env, "characteristics": cha}


def _same_value(got, want):
    if isinstance(want, (list, tuple)):
        return isinstance(got, (list, tuple)) and len(got) == len(want) and all(_same_value(g, w) for g, w in zip(got, want))
    return isinstance(got, (int, float)) and not isinstance(got, bool) and got == want


def _public_values(obj):
    """{name: value} of every public readable property (exceptions are recorded by type)"""
    out = {}
    for name in dir(type(obj)):
        if name.startswith("_") or not isinstance(getattr(type(obj), name, None), property):
            continue
        try:
            out[name] = getattr(obj, name)
        except Exception as e:  # noqa: BLE001
            out[name] = f"<{type(e).__name__}>"
    out.pop("numbytes", None)
    return out


def _same_loose(a, b):
    if isinstance(a, (list, tuple)) and isinstance(b, (list, tuple)):      # the container type is not a setting
        return len(a) == len(b) and all(_same_loose(x, y) for x, y in zip(a, b))
    try:
        if isinstance(a, (int, float)) and isinstance(b, (int, float)):
            return a == b or abs(a - b) <= 1e-12 * max(abs(a), abs(b))
        return bool(np.all(np.asarray(a == b)))
    except Exception:  # noqa: BLE001
        return repr(a) == repr(b)


def run_range(case):
    import pyxel
    from pyxel.observation import Observation, ParameterValues
    from pyxel.pipelines import Processor

    row = [r for r in TABLE if r[0] == case["section"] and r[1] == case["field"]][0]
    sec, field, kind, path = case["section"], case["field"], case["det"], case["path"]
    cls = ("apd" if kind == "apd" else "std") if sec == "characteristics" else "any"
    viol, seen, verdicts = [], set(), []

    def bad(code, label, what):
        key = {"part": "range", "field": f"{sec}.{field}", "cls": cls, "path": path, "code": code, "value": label}
        kk = json.dumps(key, sort_keys=True)
        if kk not in seen:
            seen.add(kk)
            viol.append((key, f"{kind} {sec}.{field} via {path}: {what}"))

    cells = [(lab, num, ok, txt) for lab, txt, num, ok in exp_values(row)] if path == "yaml-exp" else \
        [(lab, v, ok, None) for lab, v, ok in table_values(row)]
    for label, value, valid, text in cells:
        base = _base_fields(kind)
        got = "<none>"
        holder = None                   # the detector whose setting an assignment path tries to change
        try:
            if path == "yaml-exp":
                f = json.loads(json.dumps(base))
                f[sec][field] = _SENTINEL
                d = {"exposure": {"readout": {"times": [1.0]}}, f"{kind}_detector": f, "pipeline": {}}
                doc = yaml_text(d)
                if doc.count(repr(_SENTINEL)) != 1:
                    raise RuntimeError("harness: sentinel not found in the generated document")
                cfg = pyxel.loads(doc.replace(repr(_SENTINEL), text))
                got = _get(getattr(cfg.detector, sec), field)
            elif path == "ctor":
                f = json.loads(json.dumps(base))
                f[sec][field] = value
                if field == "common_voltage":
                    f[sec].pop("pixel_reset_voltage")       # (an APD is described by two of gain / reset / common voltage)
                det = build_detector(kind, f["geometry"], f["environment"], f["characteristics"])
                got = _get(getattr(det, sec), field)
            elif path == "yaml":
                f = json.loads(json.dumps(base))
                f[sec][field] = value
                if field == "common_voltage":
                    f[sec].pop("pixel_reset_voltage")
                d = {"exposure": {"readout": {"times": [1.0]}}, f"{kind}_detector": f, "pipeline": {}}
                cfg = pyxel.loads(yaml_text(d))
                got = _get(getattr(cfg.detector, sec), field)
            elif path == "setter":
                det = build_detector(kind, base["geometry"], base["environment"], base["characteristics"])
                holder = det
                setattr(getattr(det, sec), field, tuple(value) if isinstance(value, list) else value)
                got = _get(getattr(det, sec), field)
            elif path in ("yaml+setter", "yaml+procset"):
                d = {"exposure": {"readout": {"times": [1.0]}}, f"{kind}_detector": base, "pipeline": {}}
                cfg = pyxel.loads(yaml_text(d))
                holder = cfg.detector
                if path == "yaml+setter":
                    setattr(getattr(cfg.detector, sec), field, tuple(value) if isinstance(value, list) else value)
                else:
                    Processor(detector=cfg.detector, pipeline=cfg.pipeline).set(f"detector.{sec}.{field}", value)
                got = _get(getattr(cfg.detector, sec), field)
            elif path == "procset":
                det = build_detector(kind, base["geometry"], base["environment"], base["characteristics"])
                proc = Processor(detector=det, pipeline=build_pipeline({}))
                holder = proc.detector
                proc.set(f"detector.{sec}.{field}", value)
                got = _get(getattr(proc.detector, sec), field)
            elif path == "yaml-sweep":
                d = {"observation": {"mode": "sequential",
                                     "parameters": [{"key": f"detector.{sec}.{field}", "values": [base[sec].get(field, 1.0), value]}]},
                     f"{kind}_detector": base,
                     "pipeline": {"photon_collection": [{"name": "seen", "func": SEEN,
                                                         "arguments": {"section": sec, "field": field}}]}}
                cfg = pyxel.loads(yaml_text(d))
                del TRACE[:]
                pyxel.run_mode(cfg.running_mode, cfg.detector, cfg.pipeline)
                if len(TRACE) != 2:
                    raise RuntimeError(f"sweep executed {len(TRACE)} runs instead of 2")
                got = TRACE[1]["value"]
            else:
                det = build_detector(kind, base["geometry"], base["environment"], base["characteristics"])
                pipe = build_pipeline({"photon_collection": [{"name": "seen", "func": SEEN,
                                                              "arguments": {"section": sec, "field": field}}]})
                obs = Observation(parameters=[ParameterValues(key=f"detector.{sec}.{field}",
                                                              values=[base[sec].get(field, 1.0), value])],
                                  mode="sequential", readout=mk.readout([1.0]))
                del TRACE[:]
                pyxel.run_mode(obs, det, pipe)
                if len(TRACE) != 2:
                    raise RuntimeError(f"sweep executed {len(TRACE)} runs instead of 2")
                got = TRACE[1]["value"]
            accepted = True
        except Exception as e:  # noqa: BLE001
            accepted = False
            err = f"{type(e).__name__}: {str(e)[:120]}"
            if holder is not None and not valid:
                # a refused assignment must leave the previous (valid) setting in place
                try:
                    now = _get(getattr(holder, sec), field)
                except Exception as e2:  # noqa: BLE001
                    now = f"<unreadable: {type(e2).__name__}>"
                if not _same_value(now, base[sec][field]):
                    bad("refused-but-stored", label, f"value {value!r} ({label}) was refused ({err}) but the setting now "
                        f"reads {now!r} instead of the previous {base[sec][field]!r}")
        verdicts.append([label, accepted])
        if accepted and valid and holder is not None:
            # derived quantities: an object changed through a setter must be indistinguishable from the object rebuilt
            # from its own stored settings (to_dict -> from_dict recomputes everything that is derived)
            try:
                sect = getattr(holder, sec)
                rebuilt = type(sect).from_dict(sect.to_dict())
                a, b = _public_values(sect), _public_values(rebuilt)
                diff = [k for k in a if k in b and not _same_loose(a[k], b[k])]
                if diff:
                    bad("derived-stale", label, f"after setting {field}={value!r} the readable quantities {diff} differ "
                        f"from those of the same settings rebuilt from scratch: "
                        f"{ {k: (a[k], b[k]) for k in diff[:3]} }")
            except Exception:  # noqa: BLE001  (sections without to_dict/from_dict: nothing to compare)
                pass
        if accepted and not valid:
            bad("invalid-accepted", label, f"value {value!r} ({label}) is outside the documented range but was accepted "
                f"(reads back {got!r})")
        elif not accepted and valid and path == "yaml-exp":
            pass                        # the scalar reaches the application as text: refusing it loudly is legitimate
        elif not accepted and valid:
            bad("valid-rejected", label, f"value {value!r} ({label}) is inside the documented range but was refused: {err}")
        elif accepted and valid and not _same_value(got, value):
            bad("readback", label, f"value {value!r} ({label}) was accepted but reads back as {got!r}")
    try:
        pyxel.set_options(working_directory=None)
    except Exception:  # noqa: BLE001
        pass
    nacc = sum(1 for _, a in verdicts if a)
    return {"viol": viol, "sig": cfgx.sig([sec, field, cls, path, verdicts]),
            "nontrivial": 0 < nacc < len(verdicts), "n": len(verdicts),
            "counts": {"range_cells": len(verdicts), "range_accepted": nacc},
            "outcome": {"verdicts": verdicts}}


# ================================================================== part readout (start time versus readout times)

RO_TIMES = {"list": ([1.0, 2.0, 4.0], [1.0, 2.0, 4.0]), "expr": ("numpy.linspace(1, 3, 3)", [1.0, 2.0, 3.0]),
            "one": ([2.0], [2.0])}


def run_readout(case):
    """The start time must lie before the first readout time: every boundary value, through constructor / YAML / setter,
    in the readout section of every running mode."""
    import pyxel
    from pyxel.exposure import Readout

    mode, path, tk = case["mode"], case["path"], case["times"]
    written, times = RO_TIMES[tk]
    s = _seed() % 3
    first, last = times[0], times[-1]
    vals = [("default", 0.0), ("before", first - 0.5 - 0.125 * s), ("first", first), ("between", (first + last) / 2.0 + 0.0625 * s),
            ("last", last), ("after", last + 1.0), ("negative", -1.0 - s), ("nan", float("nan"))]
    viol, verdicts, seen = [], [], set()

    def bad(code, label, what):
        key = {"part": "readout", "mode": mode, "path": path, "code": code, "value": label}
        kk = json.dumps(key, sort_keys=True)
        if kk not in seen:
            seen.add(kk)
            viol.append((key, f"{mode} readout times={written!r} start_time via {path}: {what}"))

    for label, v, in vals:
        valid = v == v and v < first
        got, holder = None, None
        try:
            if path == "ctor":
                r = Readout(times=written if tk != "expr" else eval(written, {"numpy": np}), start_time=v)
                got = r.start_time
            elif path == "yaml":
                ro = {"times": written, "start_time": v}
                d = {f"ccd_detector": _base_fields("ccd"), "pipeline": {}}
                if mode == "exposure":
                    d["exposure"] = {"readout": ro}
                elif mode == "observation":
                    d["observation"] = {"readout": ro, "parameters": [{"key": "detector.environment.temperature",
                                                                        "values": [100, 200]}]}
                cfg = pyxel.loads(yaml_text(d))
                got = cfg.running_mode.readout.start_time
            else:
                r = Readout(times=written if tk != "expr" else eval(written, {"numpy": np}), start_time=0.0)
                holder = r
                r.start_time = v
                got = r.start_time
            accepted = True
        except Exception as e:  # noqa: BLE001
            accepted = False
            err = f"{type(e).__name__}: {str(e)[:120]}"
            if holder is not None and holder.start_time != 0.0:
                bad("refused-but-stored", label, f"start_time={v!r} was refused ({err}) but the readout now has start_time="
                    f"{holder.start_time!r}")
        verdicts.append([label, accepted])
        if accepted and not valid:
            bad("invalid-accepted", label, f"start_time={v!r} ({label}) is not before the first readout time {first!r} but was "
                f"accepted (reads back {got!r})")
        elif not accepted and valid:
            bad("valid-rejected", label, f"start_time={v!r} ({label}) lies before the first readout time but was refused: {err}")
        elif accepted and valid and not (got == v):
            bad("readback", label, f"start_time={v!r} reads back as {got!r}")
    try:
        pyxel.set_options(working_directory=None)
    except Exception:  # noqa: BLE001
        pass
    nacc = sum(1 for _, a in verdicts if a)
    return {"viol": viol, "sig": cfgx.sig(["readout", mode, path, tk, verdicts]), "nontrivial": 0 < nacc < len(verdicts),
            "n": len(verdicts), "counts": {"range_cells": len(verdicts), "range_accepted": nacc},
            "outcome": {"verdicts": verdicts}}


# ================================================================== enumeration

def enumerate_cases(tier, seed):
    thorough = tier == "thorough"
    cases = []
    # doc
    for kind in DET_KEYS:
        for dpal in DET_PALETTES:
            for mode in MODE_KEYS:
                for mpal in MODE_PALETTES[mode]:
                    if mode == "calibration":         # a calibration run costs ~0.5 s per construction
                        run = thorough or dpal == "full" or (dpal == "min" and mpal == "one-parameter")
                    else:
                        run = True
                    cases.append({"part": "doc", "det": kind, "detpal": dpal, "mode": mode, "modepal": mpal, "run": run})
                    # the same document with every nested mapping written in reverse key order (settings only)
                    cases.append({"part": "doc", "det": kind, "detpal": dpal, "mode": mode, "modepal": mpal, "run": False,
                                  "korder": "rev"})
                    if thorough:
                        cases.append({"part": "doc", "det": kind, "detpal": dpal, "mode": mode, "modepal": mpal,
                                      "run": mode != "calibration", "pipe": "dense"})
    # a pipeline in which two entries of one group share their name
    for kind in DET_KEYS:
        for mode, mpal in (("exposure", "list"), ("observation", "disabled-step")):   # (sweeps the uniquely named model)
            cases.append({"part": "doc", "det": kind, "detpal": "full", "mode": mode, "modepal": mpal, "run": True,
                          "pipe": "dup"})
    # presence
    for ms in cfgx.subsets(MODE_KEYS):
        for ds in cfgx.subsets(DET_KEYS):
            for path in ("yaml", "python"):
                cases.append({"part": "presence", "modes": ms, "dets": ds, "path": path, "order": 0})
            if len(ms) + len(ds) > 2 and (len(ms) > 1 or len(ds) > 1):
                cases.append({"part": "presence", "modes": ms, "dets": ds, "path": "yaml", "order": 1})
    # range
    for row in TABLE:
        for kind in row[8]:
            for path in PATHS + (THOROUGH_PATHS if thorough else []):
                cases.append({"part": "range", "section": row[0], "field": row[1], "det": kind, "path": path})
    # readout
    for tk in RO_TIMES:
        for path in ("ctor", "setter"):
            cases.append({"part": "readout", "mode": "any", "path": path, "times": tk})
        for mode in ("exposure", "observation"):
            cases.append({"part": "readout", "mode": mode, "path": "yaml", "times": tk})
    return cases


def expected_size(tier, seed):
    n_doc = len(DET_KEYS) * len(DET_PALETTES) * sum(len(v) for v in MODE_PALETTES.values())
    n_rev = n_doc
    from math import comb

    n_pres = 0
    for m in range(0, 4):
        for d in range(0, 5):
            k = comb(3, m) * comb(4, d)
            n_pres += 2 * k + (k if (m + d > 2 and (m > 1 or d > 1)) else 0)
    n_range = sum(len(r[8]) for r in TABLE) * (len(PATHS) + (len(THOROUGH_PATHS) if tier == "thorough" else 0))
    if tier == "thorough":
        n_doc *= len(PIPE_PALETTES)
    return n_doc + n_rev + n_pres + n_range + len(RO_TIMES) * 4 + len(DET_KEYS) * 2


def run_case(case):
    return {"doc": run_doc, "presence": run_presence, "range": run_range, "readout": run_readout}[case["part"]](case)


def extra_coverage(tier, seed, agg):
    return {"bounds": {"detector_palettes": DET_PALETTES, "mode_palettes": MODE_PALETTES,
                       "pipeline_palettes": PIPE_PALETTES if tier == "thorough" else PIPE_PALETTES[:1],
                       "presence_patterns": 128, "paths": PATHS + (THOROUGH_PATHS if tier == "thorough" else []),
                       "range_table": [[r[0], r[1], r[2], r[3], r[4], r[5]] for r in TABLE]}}


cfgx.install(sys.modules[__name__])
