"""C16 - digitised images are bounded, monotone, saturating and never wrap.

Bounded exhaustive enumeration (vp.cfgx): all 61 bit resolutions x 40 voltage ranges; per setting one sorted
input vector (infinities, far outside, range ends +-1 ulp, every code-transition point +-1 ulp for small
resolutions - computed with fractions.Fraction from the exact values of the float range ends -, transition
points near both ends and mid-scale for the larger resolutions, 21 interior points) is digitised by the real
models simple_adc (default type and the four explicit types), sar_adc and sar_adc_with_noise(zero noise) on a
real detector.  The oracle is the statement only: unsigned type wide enough, codes in [0, 2^b - 1],
non-decreasing, <= min -> 0, >= max -> 2^b - 1 (simple ADC), noisy(0) == SAR.
"""
from __future__ import annotations

import math
import os
from fractions import Fraction

import numpy as np

from vp import cfgx, mk

ID = "C16"
LEVEL = "exploration"
ENGINE = "cfgx"
TIMEOUT = 900
TECHNIQUE = ("bounded exhaustive enumeration of converter settings (61 bit resolutions x 40 voltage ranges x 7 model "
             "variants) with an input vector containing every code transition +-1 ulp (exact rational arithmetic) for "
             "small resolutions; bounds / monotonicity / saturation / type-width oracle")
LEVEL_TEXT = ("Every (bit resolution 4..64, voltage range out of 40) pair is run through simple_adc (default and the four "
              "explicit data types), sar_adc and sar_adc_with_noise with zero noise on a real detector whose signal frame "
              "holds the sorted input vector: -inf, far below, min -1/0/+1 ulp, all 2^b-1 transition points of the ideal "
              "transfer functions (simple and SAR) -1/0/+1 ulp for b <= 10 (quick) / <= 16 (thorough), nine transition "
              "points at both ends and mid-scale for every larger b, 21 interior points, max -1/0/+1 ulp, far above, +inf. "
              "The image must be unsigned and wide enough, within [0, 2^b-1], non-decreasing, 0 at or below min and full "
              "scale at or above max (simple ADC); the noisy SAR with zero noise must equal the SAR bit for bit.")
LEVEL_NOTE = ("Bounded: 40 voltage ranges; all code transitions only for b <= 10 / 16, selected transitions above; "
              "monotonicity between enumerated points of larger resolutions is not claimed. No expected code values are "
              "used - only the relations of the statement. Trusted: numpy comparisons, Python's exact Fraction->float "
              "rounding.")
DESIGN_REF = "DESIGN.md section 4, C16"
RULE = ("cases = 61 bit resolutions x 40 voltage ranges; each case evaluates 7 model variants on one sorted input vector; "
        "non-trivial = the default simple_adc image holds at least two different codes; distinct = distinct (codes, "
        "dtype) vectors of all variants")
NSHARDS = 48
ASSUMPTIONS = [
    "voltage ranges with min < max only; 40 ranges (zero, negative and positive minimum, negative maximum, spans 1e-6 .. 1e12)",
    "NaN is not a voltage and is not an input",
    "an explicit data_type narrower than the bit resolution is treated as a setting the model must refuse or widen",
]

RANGES = [
    # zero minimum
    (0.0, 1.0), (0.0, 1.1), (0.0, 0.3), (0.0, 6.0), (0.0, 3.3), (0.0, 5.0), (0.0, 2.5), (0.0, 10.0), (0.0, 0.1),
    (0.0, 0.7), (0.0, 1e-6), (0.0, 1e-3), (0.0, 1e6), (0.0, 1e12), (0.0, 1.0 / 3.0), (0.0, 65535.0), (0.0, 4.096),
    (0.0, 1.8), (0.0, 12.0), (0.0, 2.048),
    # negative minimum
    (-1.0, 1.0), (-5.0, 5.0), (-0.3, 0.7), (-1.1, 2.2), (-1e-3, 1e-3), (-2.5, 2.5), (-1e6, 1e6), (-0.1, 3.3),
    (-0.7, 0.1),
    # positive minimum
    (0.5, 3.3), (1.0, 2.0), (0.1, 0.2), (1.1, 3.3), (2.5, 5.0), (1e-3, 1.0), (100.0, 101.0), (0.3, 0.9),
    # maximum not positive
    (-2.0, -1.0), (-3.3, -0.5), (-10.0, 0.0),
]
BITS = list(range(4, 65))
DATA_TYPES = [None, "uint8", "uint16", "uint32", "uint64"]


def expected_size(tier, seed):
    return len(BITS) * len(RANGES)


def enumerate_cases(tier, seed):
    full = 16 if tier == "thorough" else 10
    return [{"bits": b, "ri": ri, "range": list(RANGES[ri]), "all_transitions": b <= full}
            for b in BITS for ri in range(len(RANGES))]


def bits_band(b):
    return "<=52" if b <= 52 else ("53-63" if b <= 63 else "64")


def range_class(lo, hi):
    if hi <= 0:
        return "max<=0"
    return "min=0" if lo == 0 else ("min<0" if lo < 0 else "min>0")


def _key(model, code, band, rcls, narrow):
    """narrow classification: model, failure code, band of bit resolutions; the voltage range class only where the
    model's behaviour depends on it (the SAR models ignore the minimum and assume a positive maximum); simple_adc with
    the default type and with an explicit type that is wide enough are the same code path"""
    key = {"model": model, "code": code, "bits_band": band}
    if narrow:
        key["data_type"] = "explicit-narrow"
    if model != "simple_adc" and rcls == "max<=0":
        key["range"] = rcls
    return key


# ------------------------------------------------------------------ inputs (exact arithmetic)

def _around(v):
    v = float(v)
    return [float(np.nextafter(v, -np.inf)), v, float(np.nextafter(v, np.inf))]


def inputs(bits, lo, hi, all_transitions, seed):
    flo, fhi = Fraction(lo), Fraction(hi)
    span = fhi - flo
    n = 2 ** bits
    pts = [-math.inf, math.inf, -1e300, 1e300,
           float(flo - (10 + seed) * span), float(fhi + (10 + seed) * span),
           float(flo - span / 1024), float(fhi + span / 1024)]
    pts += _around(lo) + _around(hi) + _around(0.0)
    if all_transitions:
        ks = range(1, n)
    else:
        ks = sorted({1, 2, 3, n // 2 - 1, n // 2, n // 2 + 1, n - 3, n - 2, n - 1})
    for k in ks:
        pts += _around(float(flo + k * span / (n - 1)))          # ideal simple ADC: code k starts here
        pts += _around(float(k * fhi / n))                       # ideal SAR: code k starts here
    pts += _around(float(fhi * (n - 1) / n))
    for j in range(21):
        pts.append(float(flo + span * Fraction(2 * j + 1 + (seed % 2), 43)))
    xs = np.array(sorted(set(pts)), dtype=float)
    return xs


def to_frame(xs, seed, cols=8):
    """sorted vector -> 2-D frame (rotated by a seed dependent offset, padded with the last value); returns the frame
    and the index array that restores the sorted order"""
    n = len(xs)
    rows = -(-n // cols)
    pad = np.concatenate([xs, np.full(rows * cols - n, xs[-1])])
    off = (7 * seed + 3) % len(pad)
    rolled = np.roll(pad, off)
    back = (np.arange(n) + off) % len(pad)
    return rolled.reshape(rows, cols), back


# ------------------------------------------------------------------ running the real models

def run_model(det, variant, frame, bits, layout="C", keep_image=False, reuse_signal=False):
    from pyxel.models.readout_electronics import sar_adc, sar_adc_with_noise, simple_adc

    if not reuse_signal:      # (reuse_signal: convert the signal the detector still holds from the previous conversion)
        det.signal.array = np.array(frame, order=layout)      # layout "F": the same values, column-major in memory
    if not keep_image:
        det.image.empty() if hasattr(det.image, "empty") else None
    if variant[0] == "simple_adc":
        if variant[1] is None:
            simple_adc(det)
        else:
            simple_adc(det, data_type=variant[1])
    elif variant[0] == "sar_adc":
        sar_adc(det)
    else:
        sar_adc_with_noise(det, strengths=tuple([0.0] * bits), noises=tuple([0.0] * bits))
    return np.array(det.image.array, copy=True)


def check_codes(model, dt_arg, bits, lo, hi, xs, y, img_dtype, bad):
    """the relations of the statement on the sorted inputs xs and their codes y (same order)"""
    full = 2 ** bits - 1
    band = bits_band(bits)
    # type
    if img_dtype.kind != "u":
        bad("dtype-not-unsigned", f"image dtype is {img_dtype}")
        return
    if int(np.iinfo(img_dtype).max) < full:
        if dt_arg is not None:
            bad("narrow-type-accepted", f"data_type={dt_arg!r} cannot hold full scale {full} of a {bits}-bit converter, "
                f"but the model accepted it (image dtype {img_dtype}; codes wrap)")
        else:
            bad("dtype-too-narrow", f"image dtype {img_dtype} cannot hold full scale {full}")
        return
    yi = [int(v) for v in y]                      # exact Python integers
    n = len(yi)
    # bounds
    over = [i for i in range(n) if yi[i] > full]
    if over:
        i = over[0]
        bad("exceeds-max", f"input {float(xs[i])!r} V -> code {yi[i]} > 2^{bits}-1 = {full} ({len(over)} inputs)")
    # monotone
    drops = [i for i in range(1, n) if yi[i] < yi[i - 1]]
    wrapped = False
    if drops:
        i = drops[0]
        type_bits = np.iinfo(img_dtype).bits
        # a drop from the upper to the lower half of a converter that uses the whole integer type = float -> integer
        # overflow in the cast
        if bits == type_bits and yi[i - 1] > full // 2 >= yi[i]:
            wrapped = True
            bad("wrap", f"input {float(xs[i - 1])!r} V -> {yi[i - 1]} but the higher input {float(xs[i])!r} V -> {yi[i]} "
                f"(wrapped around at the top of {img_dtype})")
        else:
            bad("non-monotone", f"input {float(xs[i - 1])!r} V -> {yi[i - 1]} but the higher input {float(xs[i])!r} V -> {yi[i]} "
                f"({len(drops)} decreasing steps)")
    if model == "simple_adc":
        low = [i for i in range(n) if xs[i] <= lo and yi[i] != 0]
        if low:
            i = low[0]
            bad("zero-missed", f"input {float(xs[i])!r} V <= min {lo!r} V -> code {yi[i]} instead of 0")
        if not over and not wrapped:
            top = [i for i in range(n) if xs[i] >= hi and yi[i] != full]
            if top:
                i = top[0]
                bad("fullscale-missed", f"input {float(xs[i])!r} V >= max {hi!r} V -> code {yi[i]} instead of full scale {full}")


def run_case(case):
    seed = int(os.environ.get("VERIF_SEED", "0") or 0)
    bits, (lo, hi) = case["bits"], case["range"]
    xs = inputs(bits, lo, hi, case["all_transitions"], seed)
    frame, back = to_frame(xs, seed)
    det = mk.detector("ccd", frame.shape[0], frame.shape[1],
                      char_kw={"adc_bit_resolution": bits, "adc_voltage_range": (lo, hi)})
    viol = []
    band, rcls = bits_band(bits), range_class(lo, hi)
    outs = {}
    sigs = []
    nontrivial = False
    variants = [("simple_adc", dt) for dt in DATA_TYPES] + [("sar_adc",), ("sar_adc_with_noise",)]
    for variant in variants:
        model = variant[0]
        dt_arg = variant[1] if model == "simple_adc" else None
        narrow = dt_arg is not None and int(np.iinfo(np.dtype(dt_arg)).max) < 2 ** bits - 1

        def bad(code, what, model=model, dt_arg=dt_arg, narrow=narrow):
            key = _key(model, code, band, rcls, narrow)
            viol.append((key, f"{model}{'' if dt_arg is None else f'(data_type={dt_arg})'} bits={bits} "
                              f"range=({lo!r}, {hi!r}): {what}"))

        try:
            with np.errstate(all="ignore"):
                img = run_model(det, variant, frame, bits)
        except Exception as e:  # noqa: BLE001
            if narrow:
                # refusing a type that cannot hold full scale is fine - but then also for a frame that never saturates
                inner = np.where((frame > lo) & (frame < hi), frame, 0.5 * lo + 0.5 * hi)
                try:
                    with np.errstate(all="ignore"):
                        img2 = run_model(det, variant, inner, bits)
                except Exception:  # noqa: BLE001
                    sigs.append([model, dt_arg, "refused"])
                else:
                    bad("narrow-type-accepted", f"data_type={dt_arg!r} cannot hold full scale {2 ** bits - 1} of a "
                        f"{bits}-bit converter; refused ({type(e).__name__}) only when the frame saturates, accepted "
                        f"otherwise (image dtype {img2.dtype})")
                continue
            bad("raised", f"raised {type(e).__name__}: {str(e)[:200]}")
            continue
        if img.shape != frame.shape:
            bad("shape", f"image shape {img.shape} != signal shape {frame.shape}")
            continue
        # the signal bucket the detector still holds converted once more (two converters in one pipeline, a converter
        # applied twice): the first conversion must have left the signal as it was
        try:
            with np.errstate(all="ignore"):
                img_re = run_model(det, variant, frame, bits, reuse_signal=True)
        except Exception as e:  # noqa: BLE001
            bad("second-call-raised", f"converting the same signal bucket again raised {type(e).__name__}: {str(e)[:200]}")
            continue
        if img_re.dtype != img.dtype or not np.array_equal(img_re, img):
            j = int(np.nonzero(img_re.reshape(-1) != img.reshape(-1))[0][0])
            bad("reconversion-differs", f"converting the signal bucket a second time (not re-assigned in between) gives another "
                f"image, e.g. pixel {j} (signal {float(frame.reshape(-1)[j])!r} V): {img.reshape(-1)[j]} then {img_re.reshape(-1)[j]}")
        # history: the same conversion once more on the same detector (a second readout / second run in the same
        # process) must give the same image - converters are functions of (signal, settings) only
        # (the second call receives the frame in column-major memory layout: the same values)
        try:
            with np.errstate(all="ignore"):
                img_again = run_model(det, variant, frame, bits, layout="F")
        except Exception as e:  # noqa: BLE001
            bad("second-call-raised", f"second call on the same input raised {type(e).__name__}: {str(e)[:200]}")
            continue
        if img_again.dtype != img.dtype or not np.array_equal(img_again, img):
            j = int(np.nonzero(img_again.reshape(-1) != img.reshape(-1))[0][0])
            bad("second-call-differs", f"the second conversion of the same frame differs from the first, e.g. pixel {j}: "
                f"{img.reshape(-1)[j]} then {img_again.reshape(-1)[j]}")
        # a converter works pixel by pixel: the code of a pixel must not depend on WHICH other values are in the frame
        # (frames without negative / over-range values, without under-range values, without over-range values)
        mid = 0.5 * lo + 0.5 * hi
        for tag, keep in (("no negative and no over-range value", (frame >= 0) & (frame <= hi)),
                          ("no under-range value", frame >= lo), ("no over-range value", frame <= hi)):
            sub = np.where(keep, frame, mid)
            try:
                with np.errstate(all="ignore"):
                    img_sub = run_model(det, variant, sub, bits)
            except Exception as e:  # noqa: BLE001
                bad("partial-frame-raised", f"a frame with {tag} raised {type(e).__name__}: {str(e)[:200]}")
                continue
            diff = keep & (img_sub != img) if img_sub.shape == img.shape else None
            if diff is None or diff.any():
                j = int(np.nonzero(diff.reshape(-1))[0][0]) if diff is not None else 0
                bad("code-depends-on-frame", f"pixel value {float(frame.reshape(-1)[j])!r} V is digitised as "
                    f"{img.reshape(-1)[j]} in the full test frame but as {img_sub.reshape(-1)[j]} in a frame with {tag}")
                break
        # history on ONE detector that is not emptied in between: a conversion with a smaller resolution first (its image
        # stays in the detector), then the resolution under test
        if dt_arg is None and bits > 4:
            try:
                det2 = mk.detector("ccd", frame.shape[0], frame.shape[1],
                                   char_kw={"adc_bit_resolution": 4 if bits <= 8 else 8, "adc_voltage_range": (lo, hi)})
                with np.errstate(all="ignore"):
                    run_model(det2, variant, frame, 4 if bits <= 8 else 8)
                    det2.characteristics.adc_bit_resolution = bits
                    img_hist = run_model(det2, variant, frame, bits, keep_image=True)
            except Exception as e:  # noqa: BLE001
                bad("history-raised", f"conversion after a conversion with a smaller resolution raised {type(e).__name__}: "
                    f"{str(e)[:200]}")
            else:
                if img_hist.dtype != img.dtype or not np.array_equal(img_hist, img):
                    bad("history-differs", f"on a detector that already holds an image of a {4 if bits <= 8 else 8}-bit conversion "
                        f"the result is dtype {img_hist.dtype}, max {int(img_hist.max())}; on a fresh detector dtype {img.dtype}, "
                        f"max {int(img.max())}")
        y = img.reshape(-1)[back]
        outs[variant] = (y, img.dtype)
        check_codes(model, dt_arg, bits, lo, hi, xs, y, img.dtype, bad)
        sigs.append([model, dt_arg, str(img.dtype), mk.arr_sig(y)])
        if variant == ("simple_adc", None):
            nontrivial = len(set(y.tolist())) >= 2
    if ("sar_adc",) in outs and ("sar_adc_with_noise",) in outs:
        (a, da), (b, db) = outs[("sar_adc",)], outs[("sar_adc_with_noise",)]
        if da != db or not np.array_equal(a, b):
            i = int(np.nonzero(a != b)[0][0]) if da == db and a.shape == b.shape and (a != b).any() else 0
            key = _key("sar_adc_with_noise", "noisy-differs", band, rcls, False)
            viol.append((key, f"sar_adc_with_noise(zero noise) bits={bits} range=({lo!r}, {hi!r}): differs from sar_adc, "
                              f"e.g. input {float(xs[i])!r} V -> {b[i]} vs {a[i]} (dtypes {db} / {da})"))
    y0 = outs.get(("simple_adc", None), (np.zeros(0), None))[0]
    return {"viol": viol, "sig": cfgx.sig(sigs), "nontrivial": nontrivial, "n": len(variants) * len(xs),
            "counts": {"model_calls": len(variants), "inputs": int(len(xs))},
            "outcome": {"inputs": int(len(xs)), "distinct_codes_simple_adc": int(len(set(y0.tolist())))}}


cfgx.install(__import__("sys").modules[__name__])
