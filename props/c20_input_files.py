"""C20 - input files are read and placed on the detector faithfully.

Three bounded exhaustive families, all executed on the real code:

  fmt    (cfgx)  arrays / tables of several shapes and value kinds written as .npy, .fits, .txt/.data with each of
                 the five delimiters and .csv, read back through pyxel.load_image / pyxel.load_table and through
                 the load_image / load_charge models running in a real pipeline.
  place  (cfgx)  the placement rule  out[y, x] = in[y - py, x - px]  (else 0; no overlap => rejected), checked pixel
                 by pixel for ALL input shapes 1..4 x 1..4, detector shapes 1..4 x 1..4 and offsets -5..5 on both
                 axes (30 976 combinations) plus the five alignment keywords, on three routes: fit_into_array,
                 load_cropped_and_aligned_image (through a file) and the two models in a pipeline.
  hist   (seqx)  BFS over histories of one path: write version A / B (same shape) / C (other shape), replace by
                 rename, load through the loader, through the cropping helper, run the load_image / load_charge
                 model in a pipeline, run an observation over two files; every load must return the content of
                 the most recent write.
"""
from __future__ import annotations

import json
import os
import shutil
import tempfile
import types

import numpy as np

from vp import cfgx, mk, probes, seqx

ID = "C20"
LEVEL = "exploration"
ENGINE = "cfgx+seqx"
TIMEOUT = 900
TECHNIQUE = ("bounded exhaustive enumeration: (a) format x shape x value-kind round trips through the real loaders and "
             "loading models, (b) every (input shape, detector shape, offset) combination up to 4x4 / +-5 and the five "
             "alignment keywords against a pixel-by-pixel reference of the placement rule, on three routes, (c) "
             "explicit-state BFS over write/rename/load histories of one path (depth <= 4) executed in a scratch "
             "directory with the process caches left alive inside one history")
LEVEL_TEXT = ("Every member of the three finite families is executed on the implementation: loaders and models read "
              "files written by numpy/astropy/plain text writers and the returned arrays are compared with the numbers "
              "the file text denotes; the placement rule is compared pixel by pixel with a 10-line reference for all "
              "30 976 (input shape, detector shape, offset) combinations and all 1 280 keyword combinations; all "
              "histories up to depth 4 (thorough: 5) over 9-10 operations are replayed in a fresh directory and every load is "
              "compared with the content of the most recent write."
              " The readers pyxel.inputs.load_image_v2 / load_table_v2 are part of the format round trips.")
LEVEL_NOTE = ("Bounded: shapes <= 4x4, offsets in -5..5, value palette of 5 text kinds and 6 binary dtypes, histories of "
              "depth <= 4 on one path (plus a fixed second file for the observation). Trusted: numpy.save, "
              "astropy.io.fits.writeto and Python text writing produce the file the oracle describes; os.replace is "
              "atomic. Image formats that are lossy or need Pillow (jpg/png/bmp/tiff) and xlsx are outside the "
              "statement's list and not exercised. 'top' = highest row index (row 0 is the bottom row), as documented "
              "in the load_charge docstring.")
DESIGN_REF = "DESIGN.md section 4, C20"
ASSUMPTIONS = [
    "row 0 is the bottom row: 'top_*' keywords align the last input row with the last detector row",
    "negative input values are not sent through the load_image model (Photon clips negatives by design, see C13)",
    "a history starts in a fresh process state: unique directory per history and cache of the cropping helper cleared",
    "readout time 1.0 s, time_scale 1.0, multiplier 1.0, so the models add the file values unscaled",
    "every write / rename of a history sets an explicit, strictly increasing mtime (1 s apart) with os.utime: two "
    "versions of the same size written within one timestamp tick of the file system are not modelled",
]
RULE = ("fmt: product(shape in 5, value kind, writer/format, reader) ; place: product(input shape 4x4, detector shape "
        "4x4) per route, each case evaluating all 121 offsets and 5 keywords; non-trivial = at least one accepted "
        "placement / a successfully compared read; distinct = distinct expected outputs; hist: BFS states = (version "
        "on disk, set of (reader, version) already read)")

SEPS = {"tab": "\t", "space": " ", "comma": ",", "bar": "|", "semicolon": ";"}
FMT_SHAPES = [(1, 1), (1, 4), (4, 1), (2, 3), (3, 2)]
ALIGNS = ["center", "top_left", "top_right", "bottom_left", "bottom_right"]
F_IMG = "pyxel.models.photon_collection.load_image"
F_CHG = "pyxel.models.charge_generation.load_charge"


def _seed():
    return int(os.environ.get("VERIF_SEED", "0") or 0)


# ------------------------------------------------------------------ payloads

TEXT_KINDS = ("int", "frac", "neg", "exp", "mixed")
BIN_DTYPES = ("float64", "float32", "int64", "int16", "uint16", "uint8")


def text_tokens(kind, n, seed):
    """n text tokens of the requested kind; the expected number is float(token)."""
    b = seed % 5
    out = []
    for i in range(n):
        k = i + 1 + b
        if kind == "gap":
            t = "" if i == 1 else f"{k}.5"           # the second cell of the first row is empty
        elif kind == "int":
            t = str(k)
        elif kind == "frac":
            t = f"{k}.{(25 * (i + 1)) % 1000:03d}".rstrip("0") if (i % 2) else f"0.{125 * (k % 7 + 1)}"
        elif kind == "neg":
            t = f"-{k}.5"
        elif kind == "exp":
            t = [f"{k}.5e-3", f"{k}E+2", f"{k}.25e0", f"-{k}e-1"][i % 4]
        else:
            t = [str(k), f"0.{k}5", f"-{k}.75", f"{k}e2", f"{k}.0"][i % 5]
        out.append(t)
    return out


def write_text(path, tokens, shape, sep):
    rows = [tokens[r * shape[1]:(r + 1) * shape[1]] for r in range(shape[0])]
    with open(path, "w") as f:
        f.write("\n".join(sep.join(r) for r in rows) + "\n")


def bin_array(dtype, shape, seed):
    n = shape[0] * shape[1]
    base = np.arange(n, dtype="float64") + 1 + seed % 5
    if np.dtype(dtype).kind == "f":
        base = base * 1.5 + 0.25
    return base.reshape(shape).astype(dtype)


def ramp(shape, seed, salt=0):
    """injective non-zero payload for placement cases"""
    n = shape[0] * shape[1]
    return (np.arange(n, dtype="float64") + 1.0 + 10.0 * (seed % 7) + salt).reshape(shape)


# ------------------------------------------------------------------ reference model of the placement rule

def ref_place(inp, oshape, py, px):
    """out[y, x] = in[y - py, x - px] when inside the input, else 0 ; None when nothing overlaps."""
    oy, ox = oshape
    iy, ix = inp.shape
    out = np.zeros(oshape, dtype="float64")
    hit = False
    for y in range(oy):
        for x in range(ox):
            sy, sx = y - py, x - px
            if 0 <= sy < iy and 0 <= sx < ix:
                out[y, x] = inp[sy, sx]
                hit = True
    return out if hit else None


def ref_align_candidates(ishape, oshape, align):
    """offsets (py, px) allowed by the keyword: named corners coincide (row 0 = bottom); centre: margins differ by <= 1"""
    iy, ix = ishape
    oy, ox = oshape
    if align == "bottom_left":
        return [(0, 0)]
    if align == "bottom_right":
        return [(0, ox - ix)]
    if align == "top_left":
        return [(oy - iy, 0)]
    if align == "top_right":
        return [(oy - iy, ox - ix)]
    ys = [p for p in range(-6, 7) if abs(p - ((oy - iy) - p)) <= 1]
    xs = [p for p in range(-6, 7) if abs(p - ((ox - ix) - p)) <= 1]
    return [(a, b) for a in ys for b in xs]


# ------------------------------------------------------------------ running the models in a real pipeline

def run_model(kind, path, dshape, position=(0, 0), align=None, working_directory=None, time=1.0):
    """Run load_image / load_charge in an exposure pipeline; returns the bucket seen by the probe placed after it."""
    import pyxel

    probes.reset()
    det = mk.detector("ccd", dshape[0], dshape[1])
    args = {"position": [int(position[0]), int(position[1])], "align": align}
    if kind == "image":
        groups = {"photon_collection": [(F_IMG, "load_image", dict(args, image_file=str(path)))]}
    else:
        groups = {"charge_generation": [(F_CHG, "load_charge", dict(args, filename=str(path)))]}
    groups["charge_collection"] = [("vp.probes.rec_buckets", "after", {})]
    kw = {"working_directory": working_directory} if working_directory else {}
    pyxel.run_mode(mk.exposure([float(time)], **kw), det, mk.pipeline(groups))
    tr = [t for t in probes.TRACE if t["name"] == "after"]
    if len(tr) != 1:
        raise RuntimeError(f"probe after the loading model ran {len(tr)} times")
    b = tr[0]["buckets"]
    if kind == "image":
        if b["photon"] is None:
            return None
        return np.asarray(b["photon"][2], dtype="float64")
    return np.asarray(b["charge_array"], dtype="float64")


def _clear_caches():
    try:
        from pyxel.util import load_cropped_and_aligned_image as f

        if hasattr(f, "cache_clear"):
            f.cache_clear()
    except Exception:  # noqa: BLE001
        pass


class Scratch:
    def __enter__(self):
        self.dir = tempfile.mkdtemp(prefix="vp_")
        return self.dir

    def __exit__(self, *a):
        shutil.rmtree(self.dir, ignore_errors=True)


def _same(got, exp):
    if got is None or exp is None:
        return got is None and exp is None
    got = np.asarray(got)
    return got.shape == tuple(exp.shape) and bool(np.array_equal(got.astype("float64"), np.asarray(exp, "float64"),
                                                                 equal_nan=True))


def _txt(a):
    return "None" if a is None else json.dumps(np.asarray(a).tolist())


# ================================================================== part fmt

def _fmt_cases(tier):
    cases = []
    for shape in FMT_SHAPES:
        for kind in TEXT_KINDS:
            for ext in (".txt", ".data", ".csv"):
                for sep in SEPS:
                    readers = ["table", "table-v2"] if ext == ".csv" else ["image", "table", "m-image", "m-charge",
                                                                            "image-v2", "table-v2"]
                    for rd in readers:
                        if rd == "m-image" and kind in ("neg", "exp", "mixed"):
                            continue            # negatives are clipped by Photon (documented, C13)
                        if rd.startswith("m-") and tier == "quick" and ext == ".data":
                            continue
                        cases.append({"part": "fmt", "shape": list(shape), "kind": kind, "ext": ext, "sep": sep,
                                      "reader": rd})
        for dt in BIN_DTYPES:
            for ext in (".npy", ".fits"):
                for rd in ("image", "table", "m-image", "m-charge", "image-v2", "table-v2"):
                    if ext == ".fits" and rd in ("table", "table-v2"):
                        continue
                    cases.append({"part": "fmt", "shape": list(shape), "kind": dt, "ext": ext, "sep": None,
                                  "reader": rd})
        cases.append({"part": "fmt", "shape": list(shape), "kind": "float64", "ext": ".fits", "sep": None,
                      "reader": "fits-table"})
        # text tables with an EMPTY cell (how a missing value is written): the cell is "not a number", its neighbours stay
        # in their columns
        if shape == (2, 3):
            for ext in (".txt", ".csv"):
                for sep in SEPS:
                    cases.append({"part": "fmt", "shape": list(shape), "kind": "gap", "ext": ext, "sep": sep,
                                  "reader": "table"})
        # two DIFFERENT files given as file:// URLs, loaded one after the other through the cropping loader and the models
        if shape == (2, 3):
            for ext in (".npy", ".fits"):
                for rd in ("cropped", "m-image", "m-charge"):
                    cases.append({"part": "fmt", "shape": list(shape), "kind": "float64", "ext": ext, "sep": None,
                                  "reader": rd, "url_pair": True})
        # WIDE text tables (3 x 400: lines of ~2000 characters, more than 4096 characters in all)
        if shape == (2, 3):
            for ext in (".txt", ".data", ".csv"):
                for sep in SEPS:
                    for rd in ("table", "table-v2"):
                        cases.append({"part": "fmt", "shape": [3, 400], "kind": "int", "ext": ext, "sep": sep,
                                      "reader": rd})
        # NumPy files saved from a column-major (Fortran-ordered) array: the file records that order
        if shape in ((2, 3), (3, 2)):
            for dt in ("float64", "int16"):
                for rd in ("image", "table", "m-image", "m-charge", "image-v2", "table-v2"):
                    cases.append({"part": "fmt", "shape": list(shape), "kind": dt, "ext": ".npy", "sep": None,
                                  "reader": rd, "layout": "fortran"})
        # text images that start with a comment line (what numpy.savetxt(..., header="flat field") writes)
        if shape in ((2, 3), (3, 2)):
            for ext in (".txt", ".data"):
                for sep in SEPS:
                    for rd in ("image", "m-charge"):
                        cases.append({"part": "fmt", "shape": list(shape), "kind": "int", "ext": ext, "sep": sep,
                                      "reader": rd, "title": True})
        # FITS files whose primary HDU is empty and whose image sits in the first extension (multi-extension files)
        for rd in ("image", "m-image", "m-charge"):
            cases.append({"part": "fmt", "shape": list(shape), "kind": "float64", "ext": ".fits", "sep": None,
                          "reader": rd, "layout": "ext1"})
    return cases


def _n_fmt(tier):
    per_shape = 0
    for kind in TEXT_KINDS:
        mimg = 0 if kind in ("neg", "exp", "mixed") else 1
        per_shape += 5 * (4 + mimg + 1)                                   # .txt
        per_shape += 5 * (4 + (0 if tier == "quick" else mimg + 1))       # .data
        per_shape += 5 * 2                                                # .csv
    per_shape += len(BIN_DTYPES) * (6 + 4) + 1 + 3
    return per_shape * len(FMT_SHAPES) + 2 * 5 + 2 * 2 * 5 * 2 + 2 * 2 * 6 + 3 * 5 * 2 + 2 * 3


def _run_url_pair(case):
    """two files with different content, each given as a file:// URL: every load returns the content of ITS file"""
    from pyxel.util import load_cropped_and_aligned_image

    seed = _seed()
    shape = tuple(case["shape"])
    rd = case["reader"]
    viol = []
    outs = []
    with Scratch() as d:
        _clear_caches()
        arrs, urls = [], []
        for i in range(2):
            arr = bin_array("float64", shape, seed) + 1000.0 * i
            path = os.path.join(d, f"url{i}_{seed}{case['ext']}")
            if case["ext"] == ".npy":
                np.save(path, arr)
            else:
                from astropy.io import fits

                fits.writeto(path, arr, overwrite=True)
            arrs.append(arr)
            urls.append("file://" + path)
        for order in ((0, 1), (1, 0, 1)):
            for i in order:
                try:
                    if rd == "cropped":
                        got = np.asarray(load_cropped_and_aligned_image(shape=shape, filename=urls[i]), dtype="float64")
                    else:
                        got = run_model("image" if rd == "m-image" else "charge", urls[i], shape)
                except Exception as e:  # noqa: BLE001
                    viol.append(({"part": "fmt", "reader": rd, "ext": case["ext"] + "[url]", "code": "read-failed"},
                                 f"{rd} of {urls[i]}: raised {type(e).__name__}: {str(e)[:200]}"))
                    return {"viol": viol, "sig": cfgx.sig(["url", rd, case["ext"], "raised"]), "nontrivial": False, "n": 1}
                outs.append(_txt(got)[:60])
                if not _same(got, arrs[i]):
                    viol.append(({"part": "fmt", "reader": rd, "ext": case["ext"] + "[url]", "code": "values"},
                                 f"{rd} of the URL of file {i} (loaded in the order {order}) returned {_txt(got)}, that file "
                                 f"holds {arrs[i].tolist()}"))
                    return {"viol": viol, "sig": cfgx.sig(["url", rd, case["ext"], "wrong"]), "nontrivial": True, "n": 1}
    return {"viol": viol, "sig": cfgx.sig(["url", rd, case["ext"], outs]), "nontrivial": True, "n": 5, "outcome": outs[:2]}


def _run_fmt(case):
    import pyxel

    if case.get("url_pair"):
        return _run_url_pair(case)
    seed = _seed()
    shape = tuple(case["shape"])
    n = shape[0] * shape[1]
    viol = []
    rd = case["reader"]

    def bad(code, what):
        viol.append(({"part": "fmt", "reader": rd, "ext": case["ext"] + (f"[{case['layout']}]" if case.get("layout") else "")
                      + ("[title]" if case.get("title") else ""),
                      "sep": case["sep"], "code": code, "cols": "1col" if shape[1] == 1 else "ncol"},
                     f"{rd} of a {shape} '{case['kind']}' file{case['ext']} (sep={case['sep']}): {what}"))

    with Scratch() as d:
        _clear_caches()
        path = os.path.join(d, f"in{seed}_{case['kind']}{case['ext']}")
        if case["sep"] is not None:
            toks = text_tokens(case["kind"], n, seed)
            write_text(path, toks, shape, SEPS[case["sep"]])
            if case.get("title"):
                with open(path) as fh:
                    body = fh.read()
                with open(path, "w") as fh:
                    fh.write("# flat field\n" + body)
            exp = np.array([float(t) if t else np.nan for t in toks], dtype="float64").reshape(shape)
            shown = toks
        elif rd == "fits-table":
            from astropy.table import Table

            exp = bin_array("float64", shape, seed)
            Table(exp, names=[f"c{i}" for i in range(shape[1])]).write(path, overwrite=True)
            shown = exp.tolist()
        else:
            arr = bin_array(case["kind"], shape, seed)
            if case["ext"] == ".npy":
                np.save(path, np.asfortranarray(arr) if case.get("layout") == "fortran" else arr)
            else:
                from astropy.io import fits

                if case.get("layout") == "ext1":
                    fits.HDUList([fits.PrimaryHDU(), fits.ImageHDU(arr, name="SCI")]).writeto(path, overwrite=True)
                else:
                    fits.writeto(path, arr, overwrite=True)
            exp = arr.astype("float64")
            shown = arr.tolist()
        try:
            if rd == "image":
                got = pyxel.load_image(path)
            elif rd in ("table", "fits-table"):
                got = pyxel.load_table(path).to_numpy()
            elif rd == "image-v2":
                from pyxel.inputs import load_image_v2

                got = np.asarray(load_image_v2(path, rename_dims={}).values)
            elif rd == "table-v2":
                from pyxel.inputs import load_table_v2

                got = load_table_v2(path).to_numpy()
            else:
                got = run_model("image" if rd == "m-image" else "charge", path, shape)
        except Exception as e:  # noqa: BLE001
            bad("read-failed", f"raised {type(e).__name__}: {str(e)[:200]} (content {shown})")
            got = None
        else:
            if got is None or tuple(np.shape(got)) != shape:
                bad("shape", f"returned shape {None if got is None else np.shape(got)}, written {shape} (content {shown})")
            elif not _same(got, exp):
                bad("values", f"returned {_txt(got)}, file holds {shown}")
    return {"viol": viol, "sig": cfgx.sig([case["shape"], case["kind"], case["ext"], case["sep"], rd, case.get("layout"),
                                           case.get("title")]),
            "nontrivial": got is not None, "n": 1, "outcome": _txt(got)[:200]}


# ================================================================== part place

def _place_cases(tier):
    cases = []
    shapes = [(a, b) for a in range(1, 5) for b in range(1, 5)]
    for ish in shapes:
        for osh in shapes:
            cases.append({"part": "place", "route": "fit", "ishape": list(ish), "oshape": list(osh), "off": 5})
    file_osh = shapes if tier == "thorough" else [(1, 1), (2, 3), (3, 2), (4, 4)]
    for ish in shapes:
        for osh in file_osh:
            cases.append({"part": "place", "route": "file", "ishape": list(ish), "oshape": list(osh), "off": 5})
    if tier == "thorough":
        m_ish, m_osh, off = shapes, [(2, 3), (3, 2)], 5
    else:
        m_ish, m_osh, off = [(1, 1), (2, 3), (3, 2), (4, 4), (1, 4), (4, 1)], [(2, 3)], 3
    for i, ish in enumerate(m_ish):
        for j, osh in enumerate(m_osh):
            for kind in (("image", "charge") if tier == "thorough" else (("image", "charge")[(i + j) % 2],)):
                cases.append({"part": "place", "route": "model-" + kind, "ishape": list(ish), "oshape": list(osh),
                              "off": off})
    return cases


def _n_place(tier):
    if tier == "thorough":
        return 256 + 256 + 16 * 2 * 2
    return 256 + 16 * 4 + 6


def _relation(ish, osh):
    a = "smaller" if ish[0] < osh[0] else ("larger" if ish[0] > osh[0] else "equal")
    b = "smaller" if ish[1] < osh[1] else ("larger" if ish[1] > osh[1] else "equal")
    return a if a == b else "mixed"


def _run_place(case):
    from pyxel.util import fit_into_array, load_cropped_and_aligned_image

    seed = _seed()
    ish, osh, route, off = tuple(case["ishape"]), tuple(case["oshape"]), case["route"], case["off"]
    inp = ramp(ish, seed)
    viol, n, accepted, exps = [], 0, 0, []
    seen = set()

    def bad(code, what, align=None, sign=None):
        key = {"part": "place", "route": route, "code": code, "align": align, "relation": _relation(ish, osh)}
        if sign is not None:
            key["offset"] = sign
        kk = json.dumps(key, sort_keys=True)
        if kk in seen:
            return
        seen.add(kk)
        viol.append((key, f"[{route}] input {ish} values {inp.tolist()} onto detector {osh}: {what}"))

    with Scratch() as d:
        _clear_caches()
        path = os.path.join(d, f"img{seed}_{ish[0]}x{ish[1]}.npy")
        if route != "fit":
            np.save(path, inp)

        def call(py, px, align):
            if route == "fit":
                if align is None:
                    return fit_into_array(array=inp, output_shape=osh, relative_position=(py, px))
                return fit_into_array(array=inp, output_shape=osh, align=align)
            if route == "file":
                return load_cropped_and_aligned_image(shape=osh, filename=path, position_x=px, position_y=py,
                                                      align=align)
            return run_model(route.split("-")[1], path, osh, (py, px), align)

        for py in range(-off, off + 1):
            for px in range(-off, off + 1):
                n += 1
                exp = ref_place(inp, osh, py, px)
                sign = ("neg" if py < 0 else "zero" if py == 0 else "pos") + "/" + \
                       ("neg" if px < 0 else "zero" if px == 0 else "pos")
                try:
                    got = call(py, px, None)
                except Exception as e:  # noqa: BLE001
                    if exp is not None:
                        bad("valid-rejected", f"offset (y={py}, x={px}) raised {type(e).__name__}: {str(e)[:120]}; "
                            f"expected {exp.tolist()}", sign=sign)
                    continue
                if exp is None:
                    bad("no-overlap-accepted", f"offset (y={py}, x={px}) does not overlap the detector but "
                        f"{_txt(got)} was returned", sign=sign)
                    continue
                accepted += 1
                exps.append(exp.tolist())
                if not _same(got, exp):
                    bad("wrong-pixels", f"offset (y={py}, x={px}) gave {_txt(got)}, rule gives {exp.tolist()}", sign=sign)
        for align in ALIGNS:
            n += 1
            cands = ref_align_candidates(ish, osh, align)
            exp_list = [ref_place(inp, osh, a, b) for a, b in cands]
            try:
                got = call(0, 0, align)
            except Exception as e:  # noqa: BLE001
                bad("valid-rejected", f"align='{align}' raised {type(e).__name__}: {str(e)[:120]}", align=align)
                continue
            accepted += 1
            exps.append([align, exp_list[0].tolist()])
            if not any(_same(got, e) for e in exp_list):
                bad("wrong-pixels", f"align='{align}' gave {_txt(got)}, allowed {[e.tolist() for e in exp_list]}",
                    align=align)
    return {"viol": viol, "sig": cfgx.sig(exps), "nontrivial": accepted > 0, "n": n,
            "counts": {"placements_accepted": accepted, "placements": n},
            "outcome": {"accepted": accepted, "of": n}}


# ================================================================== cfgx adapter for fmt + place

def _enumerate_cases(tier, seed):
    return _fmt_cases(tier) + _place_cases(tier)


def _expected_size(tier, seed):
    return _n_fmt(tier) + _n_place(tier)


def _run_case(case):
    return _run_fmt(case) if case["part"] == "fmt" else _run_place(case)


_cfg = types.SimpleNamespace(enumerate_cases=_enumerate_cases, run_case=_run_case, expected_size=_expected_size,
                             NSHARDS=40, RULE=RULE)
cfgx.install(_cfg)


# ================================================================== part hist (seqx)

H_DSHAPE = (2, 3)
_HOME = os.getcwd()
MTIME_BASE = 1_700_000_000          # seconds; every write of a history gets MTIME_BASE + k
VERSIONS = {"A": (2, 3), "B": (2, 3), "C": (3, 2), "Z": (2, 3)}


def version_array(v, seed):
    return ramp(VERSIONS[v], seed, salt={"A": 0, "B": 100, "C": 200, "Z": 300}[v])


def _write(path, arr, ext):
    if ext == ".npy":
        with open(path, "wb") as f:
            np.save(f, arr)
    elif ext == ".fits":
        from astropy.io import fits

        fits.writeto(path, arr, overwrite=True)
    else:
        write_text(path, [repr(float(x)) for x in arr.ravel()], arr.shape, ",")


class HState:
    __slots__ = ("hist", "version", "reads")

    def __init__(self, hist, version, reads):
        self.hist, self.version, self.reads = hist, version, reads


class HistModel:
    """State = history (replayed from scratch in a fresh directory); reference = version on disk."""

    counter = 0

    def __init__(self, ext, tier, prefix=(), style="abs"):
        # style: how the models / loaders are given the path - "abs" (absolute), "cwd" (relative to the process's
        # current directory), "wd" (relative to pyxel's `working_directory` option)
        self.ext, self.tier, self.prefix, self.style = ext, tier, [list(p) for p in prefix], style
        # "image2" / "charge2": the same models in an exposure of 2 s (the file values are scaled by the time step)
        ops = [["cropped"], ["model", "image"], ["model", "charge"], ["model", "image2"], ["model", "charge2"]]
        if tier == "thorough":
            ops.append(["obs"])
        ops.append(["load"])
        ops += [["w", "B"], ["w", "C"], ["w", "A"], ["rn", "B"], ["rn", "A"], ["rno", "B"], ["rno", "A"]]
        self._ops = ops

    def initial(self):
        st = HState([], "A", frozenset())
        for op in self.prefix:
            st, _ = self.apply(st, op)
        return st

    def ops(self, st):
        return self._ops

    def canon(self, st):
        # version on disk + what has been read so far + HOW the current version got there (in-place write, rename,
        # replacement by an older file): the file's metadata is state the library may key a cache on
        lastw = next((o[0] for o in reversed(st.hist) if o[0] in ("w", "rn", "rno")), "-")
        return (st.version, tuple(sorted(st.reads)), lastw)

    # ---- execution of one history on the implementation
    def _exec(self, hist):
        """returns list of outcomes (None for writes, array / ('exc', text) for loads)"""
        import pyxel
        from pyxel.util import load_cropped_and_aligned_image

        seed = _seed()
        HistModel.counter += 1
        root = tempfile.mkdtemp(prefix="vp_")
        outs = []
        try:
            _clear_caches()
            d = os.path.join(root, f"h{HistModel.counter:06d}_{seed}")
            os.mkdir(d)
            path = os.path.join(d, "input" + self.ext)
            other = os.path.join(d, "second" + self.ext)
            nwrites = 0
            nold = 0
            name, name2 = path, other                   # what the library is given
            if self.style == "link":
                # `path` is a symbolic link that is re-pointed to a NEW file by every write; the library receives a
                # pathlib.Path
                import pathlib

                name, name2 = pathlib.Path(path), pathlib.Path(other)
            elif self.style != "abs":
                name, name2 = os.path.basename(path), os.path.basename(other)
                if self.style == "cwd":
                    os.chdir(d)
                else:
                    pyxel.set_options(working_directory=d)

            def stamp():
                # explicit, strictly increasing modification time (1 s per write): the verdict must not depend on
                # the timestamp granularity of the file system
                nonlocal nwrites
                t = (MTIME_BASE + nwrites) * 1_000_000_000
                os.utime(path, ns=(t, t))
                nwrites += 1

            nlinks = [0]

            def relink(arr):
                """write `arr` into a new file and atomically re-point the link `path` to it"""
                nlinks[0] += 1
                target = os.path.join(d, f"version{nlinks[0]:03d}" + self.ext)
                _write(target, arr, self.ext)
                tmp_link = path + ".lnk"
                os.symlink(target, tmp_link)
                os.replace(tmp_link, path)

            if self.style == "link":
                relink(version_array("A", seed))
            else:
                _write(path, version_array("A", seed), self.ext)
            stamp()
            for op in hist:
                try:
                    if self.style == "wd":          # running modes (re)set the option from their own argument
                        pyxel.set_options(working_directory=d)
                    if self.style == "link" and op[0] in ("w", "rn", "rno"):
                        relink(version_array(op[1], seed))
                        stamp()
                        outs.append(None)
                    elif op[0] == "w":
                        _write(path, version_array(op[1], seed), self.ext)
                        stamp()
                        outs.append(None)
                    elif op[0] == "rn":
                        tmp = path + ".new" + self.ext
                        _write(tmp, version_array(op[1], seed), self.ext)
                        os.replace(tmp, path)
                        stamp()
                        outs.append(None)
                    elif op[0] == "rno":
                        # replaced by a file that is OLDER than everything before (a restored backup, `cp -p`, `mv`):
                        # the modification time goes backwards, the content is new
                        tmp = path + ".old" + self.ext
                        _write(tmp, version_array(op[1], seed), self.ext)
                        nold += 1
                        t = (MTIME_BASE - 1000 * nold) * 1_000_000_000
                        os.utime(tmp, ns=(t, t))
                        os.replace(tmp, path)
                        outs.append(None)
                    elif op[0] == "load":
                        outs.append(np.asarray(pyxel.load_image(name), dtype="float64"))
                    elif op[0] == "cropped":
                        outs.append(np.asarray(load_cropped_and_aligned_image(shape=H_DSHAPE, filename=name),
                                               dtype="float64"))
                    elif op[0] == "model":
                        outs.append(run_model(op[1].rstrip("2"), name, H_DSHAPE,
                                              working_directory=d if self.style == "wd" else None,
                                              time=2.0 if op[1].endswith("2") else 1.0))
                    elif op[0] == "obs":
                        _write(other, version_array("Z", seed), self.ext)
                        outs.append(self._obs(name, name2, seed, d if self.style == "wd" else None))
                except Exception as e:  # noqa: BLE001
                    outs.append(("exc", f"{type(e).__name__}: {str(e)[:160]}"))
        finally:
            if self.style == "cwd":
                os.chdir(_HOME)
            elif self.style == "wd":
                pyxel.set_options(working_directory=None)
            shutil.rmtree(root, ignore_errors=True)
        return outs

    def _obs(self, path, other, seed, working_directory=None):
        import pyxel
        from pyxel.observation import Observation, ParameterValues

        probes.reset()
        det = mk.detector("ccd", *H_DSHAPE)
        pipe = mk.pipeline({"photon_collection": [(F_IMG, "load_image", {"image_file": path})],
                            "charge_collection": [("vp.probes.rec_buckets", "after", {})]})
        obs = Observation(parameters=[ParameterValues(key="pipeline.photon_collection.load_image.arguments.image_file",
                                                      # (a sweep takes text / numbers: a pathlib.Path is refused by
                                                      #  ParameterValues itself - the swept values are given as text)
                                                      values=[os.fspath(path), os.fspath(other)])],
                          mode="sequential", readout=mk.readout([1.0]),
                          **({"working_directory": working_directory} if working_directory else {}))
        pyxel.run_mode(obs, det, pipe)
        tr = [t for t in probes.TRACE if t["name"] == "after"]
        if len(tr) != 2:
            raise RuntimeError(f"observation over two files ran the pipeline {len(tr)} times")
        return [None if t["buckets"]["photon"] is None else np.asarray(t["buckets"]["photon"][2], dtype="float64")
                for t in tr]

    # ---- one transition
    def apply(self, st, op):
        seed = _seed()
        hist = st.hist + [op]
        viols = []
        version, reads = st.version, st.reads
        if op[0] in ("w", "rn", "rno"):   # executed (in order) when a later load replays the history
            return HState(hist, op[1], reads), viols
        out = self._exec(hist)[-1]
        kind = op[0] if op[0] != "model" else "model-" + op[1]
        content = version_array(version, seed)
        scale = 2.0 if kind.endswith("2") else 1.0
        placed = content if kind == "load" else ref_place(content, H_DSHAPE, 0, 0) * scale
        written = [o[1] for o in hist if o[0] in ("w", "rn", "rno")]
        prior = [v for v in (["A"] + written)[:-1] if v != version]

        def bad(code, what):
            rel = "-"
            if code == "stale":
                rel = "other-shape" if VERSIONS[stale_v] != VERSIONS[version] else "same-shape"
            key = {"part": "hist", "op": kind, "code": code, "previous": rel, "ext": self.ext}
            if self.style != "abs":
                key["path"] = self.style
            viols.append((key, f"history {hist} on one path ({self.ext}, given {self.style}): {what}"))

        def judge(got, exp, label):
            nonlocal stale_v
            if isinstance(got, tuple):
                bad("load-failed", f"{label} raised {got[1]}; the file holds version {version} = {content.tolist()}")
            elif not _same(got, exp):
                stale_v = None
                for v in prior:
                    c = version_array(v, seed)
                    e = c if kind == "load" else ref_place(c, H_DSHAPE, 0, 0) * scale
                    if _same(got, e):
                        stale_v = v
                if stale_v is not None:
                    bad("stale", f"{label} returned the content of the earlier version {stale_v} ({_txt(got)}) although "
                        f"the file now holds version {version} = {content.tolist()}")
                else:
                    bad("wrong-content", f"{label} returned {_txt(got)}, the file holds {content.tolist()}")

        stale_v = None
        if kind == "obs":
            if isinstance(out, tuple):
                judge(out, None, "observation over [path, second]")
            else:
                judge(out[0], placed, "observation run 0 (path)")
                judge(out[1], version_array("Z", seed), "observation run 1 (second file)")
        else:
            judge(out, placed, kind)
        reads = frozenset(set(reads) | {(kind, version)})
        return HState(hist, version, reads), viols


def _hist_shards(tier, seed):
    exts = [".npy"] if tier == "quick" else [".npy", ".fits", ".txt"]
    out = []
    for ext in exts:
        m = HistModel(ext, tier)
        out.append({"part": "hist", "ext": ext, "tier": tier, "seed": seed, "prefix": [], "depth": 1})
        for op in m._ops:
            d = 4 if tier == "quick" else (5 if ext == ".npy" else 4)
            out.append({"part": "hist", "ext": ext, "tier": tier, "seed": seed, "prefix": [op], "depth": d - 1})
    # the same histories with the path given relative to the current directory / to pyxel's working_directory
    for style in ("wd", "cwd", "link"):
        m = HistModel(".npy", tier, style=style)
        for op in m._ops:
            out.append({"part": "hist", "ext": ".npy", "tier": tier, "seed": seed, "prefix": [op], "style": style,
                        "depth": 2 if tier == "quick" else 3})
    return out


def _run_hist(shard):
    os.environ["VERIF_SEED"] = str(shard["seed"])
    m = HistModel(shard["ext"], shard["tier"], prefix=shard["prefix"], style=shard.get("style", "abs"))
    stats, viols = seqx.bfs(m, shard["depth"])
    out = []
    for v in viols:
        out.append({"key": v["key"], "what": v["what"],
                    "case": {"part": "hist", "ext": shard["ext"], "tier": shard["tier"], "_seed": shard["seed"],
                             "style": shard.get("style", "abs"), "ops": shard["prefix"] + v["ops"]}})
    return {"violations": out,
            "counts": {"hist_states": stats["states"], "hist_transitions": stats["transitions"],
                       "evaluations": stats["transitions"], "cap_hit": int(stats["cap_hit"])},
            "sets": {"hist_explored": [f"{shard['ext']}/{shard.get('style', 'abs')}:{json.dumps(shard['prefix'])}"
                                       f"+depth{stats['depth_completed']}"]},
            "samples": [{"part": "hist", "ext": shard["ext"], "ops": shard["prefix"] + (stats["sample"] or [])}]}


# ================================================================== module interface

def shards(tier, seed):
    out = [dict(s, part="cfg") for s in _cfg.shards(tier, seed)]
    return out + _hist_shards(tier, seed)


def run_shard(shard):
    if shard["part"] == "hist":
        return _run_hist(shard)
    return _cfg.run_shard(shard)


def replay(case):
    if case.get("part") == "hist":
        os.environ["VERIF_SEED"] = str(case.get("_seed", "0"))
        m = HistModel(case["ext"], case.get("tier", "quick"), style=case.get("style", "abs"))
        return [{"key": v["key"], "what": v["what"], "case": dict(case, ops=v["ops"])}
                for v in seqx.run_sequence(m, case["ops"])]
    return _cfg.replay(case)


def coverage(tier, seed, agg):
    cov = _cfg.coverage(tier, seed, agg)
    c = agg["counts"]
    cov["exhaustive"] = c.get("cap_hit", 0) == 0
    cov["bounds"] = {"fmt_shapes": FMT_SHAPES, "text_kinds": list(TEXT_KINDS), "binary_dtypes": list(BIN_DTYPES),
                     "delimiters": list(SEPS), "placement": "input 1..4 x 1..4, detector 1..4 x 1..4, offsets -5..5 "
                     "(route fit: all 30976 + 1280 keyword cases; other routes: see cases)",
                     "histories": "quick: depth 4 (.npy); thorough: depth 5 (.npy), depth 4 (.fits, .txt)"}
    cov["hist_states_note"] = "hist_states is summed over shards (one BFS per first operation)"
    return cov
