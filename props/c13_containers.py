"""C13 - data buckets only ever hold arrays of the detector's shape and unit type.

Explicit-state BFS (vp.seqx) over operation sequences on the real Photon / Pixel / Signal /
Image / Phase containers of real detectors, with a reference cell `None | ndarray` per
container.  Every transition is executed on the implementation.
"""
from __future__ import annotations

import copy
import os

import numpy as np

from vp import mk, seqx

ID = "C13"
LEVEL = "model_checking"
ENGINE = "seqx"
TECHNIQUE = "explicit-state BFS over operation sequences on the real containers, compared with a reference cell at every transition"
LEVEL_TEXT = ("All operation sequences (assign, update, +=, empty, reads, ==, detector setter) up to depth 3 (quick) / 4 "
              "(thorough) over a finite palette of arrays (14 dtypes, 7 shapes, negative/NaN/inf/max values, 2-D and 3-D "
              "photons) are executed on the real Photon/Pixel/Signal/Image/Phase containers of real CCD/CMOS/MKID/APD "
              "detectors; after every transition the shape/dtype invariant, the untouched-on-error rule, the read rules "
              "and the symmetric equality are checked against a reference cell. States are deduplicated by stored bytes.")
LEVEL_NOTE = ("Bounded: depth and palette; numpy/xarray semantics are trusted; the reference cell is 60 lines of Python; "
              "value of += on filled containers checked only where numpy defines it without overflow.")
DESIGN_REF = "DESIGN.md section 4, C13"
TIMEOUT = 900
ASSUMPTIONS = [
    "palette of arrays is finite (14 dtypes x value patterns x 6 shapes); values outside it are not explored",
    "aliasing between a stored array and the caller's array is not part of the property and not checked",
    "value of `+=` on a filled container is only checked where numpy defines it without overflow",
]

ROWS, COLS = 2, 3
FLOATS = ("<f2", "<f4", "<f8")
UINTS = ("|u1", "<u2", "<u4", "<u8")
ALLOWED = {"photon": FLOATS, "pixel": FLOATS, "signal": FLOATS, "phase": FLOATS, "image": UINTS}
DTYPES = ("bool", "int8", "int16", "int32", "int64", "uint8", "uint16", "uint32", "uint64",
          "float16", "float32", "float64", "complex64", "object")
SHAPES = {"ok": (ROWS, COLS), "T": (COLS, ROWS), "big": (ROWS + 1, COLS + 1), "row": (1, COLS),
          "1d": (COLS,), "3d": (2, ROWS, COLS), "0d": ()}


def _seedval():
    return 1 + int(os.environ.get("VERIF_SEED", "0") or 0) % 7


def make_array(name: str):
    """name = '<dtype>:<shape>:<pattern>'"""
    dt, shp, pat = name.split(":")
    shape = SHAPES[shp]
    n = int(np.prod(shape)) if shape else 1
    b = _seedval()
    dtype = np.dtype(dt)
    if pat == "zero":
        vals = np.zeros(n)
    elif pat == "ramp":
        vals = np.arange(n) + b
    elif pat == "neg":
        vals = np.arange(n) - 2.0
    elif pat == "nan":
        vals = np.arange(n) + b + 0.0
        vals[0] = np.nan
    elif pat == "inf":
        vals = np.arange(n) + b + 0.0
        vals[-1] = np.inf
    elif pat == "nanneg":              # special values combined: NaN next to negative numbers
        vals = np.arange(n) - 2.0
        vals[-1] = np.nan
    elif pat == "infneg":
        vals = np.arange(n) - 2.0
        vals[-1] = np.inf
        vals[0] = -np.inf
    elif pat == "max":
        if dtype.kind in "iu":
            vals = np.full(n, np.iinfo(dtype).max, dtype=dtype)
        elif dtype.kind == "f":
            vals = np.full(n, np.finfo(dtype).max, dtype=dtype)
        else:
            vals = np.ones(n)
    else:
        raise KeyError(pat)
    with np.errstate(all="ignore"):
        if dtype.kind == "O":
            a = np.array([float(v) for v in vals], dtype=object)
        else:
            a = np.asarray(vals).astype(dtype)
    return a.reshape(shape)


def make_da(name: str):
    """3-D photon palette."""
    import xarray as xr

    b = float(_seedval())
    base = np.arange(2 * ROWS * COLS, dtype=float).reshape(2, ROWS, COLS) + b
    wl = [500.0, 600.0]
    if name == "da_ok":
        return xr.DataArray(base, dims=["wavelength", "y", "x"], coords={"wavelength": wl})
    if name == "da_f32":
        return xr.DataArray(base.astype("float32"), dims=["wavelength", "y", "x"], coords={"wavelength": wl})
    if name == "da_neg":
        return xr.DataArray(base - 5.0, dims=["wavelength", "y", "x"], coords={"wavelength": wl})
    if name == "da_nanneg":
        c = base - 5.0
        c[0, 0, 0] = np.nan
        return xr.DataArray(c, dims=["wavelength", "y", "x"], coords={"wavelength": wl})
    if name == "da_int":
        return xr.DataArray(base.astype("int64"), dims=["wavelength", "y", "x"], coords={"wavelength": wl})
    if name == "da_order":
        return xr.DataArray(np.moveaxis(base, 0, -1), dims=["y", "x", "wavelength"], coords={"wavelength": wl})
    if name == "da_nocoord":
        return xr.DataArray(base, dims=["wavelength", "y", "x"])
    if name == "da_shape":
        return xr.DataArray(np.ones((2, COLS, ROWS)), dims=["wavelength", "y", "x"], coords={"wavelength": wl})
    if name == "da_2d":
        return xr.DataArray(base[0], dims=["y", "x"])
    if name == "da_wl3":
        return xr.DataArray(np.ones((3, ROWS, COLS)), dims=["wavelength", "y", "x"],
                            coords={"wavelength": [500.0, 600.0, 700.0]})
    if name == "nd_3d":
        return base
    raise KeyError(name)


DA_VALID = {"da_ok", "da_f32", "da_neg", "da_nanneg", "da_wl3"}
DA_NAMES = ("da_ok", "da_f32", "da_neg", "da_nanneg", "da_int", "da_order", "da_nocoord", "da_shape", "da_2d", "da_wl3", "nd_3d")


def array_names(kind: str, tier: str):
    names = []
    for dt in DTYPES:
        pats = ["ramp"]
        k = np.dtype(dt).kind
        if dt in ("float64", "uint16", "float32"):
            pats += ["zero"]
        if k in "if":
            pats += ["neg"]
        if k == "f" and dt != "float16":
            pats += ["nan", "inf"]
        if k == "f":
            pats += ["nanneg", "infneg"]
        if dt in ("uint64", "float64", "uint8", "int64") and tier == "thorough":
            pats += ["max"]
        for p in pats:
            names.append(f"{dt}:ok:{p}")
    good = "uint16" if kind == "image" else "float64"
    for shp in ("T", "big", "row", "1d", "3d", "0d"):
        names.append(f"{good}:{shp}:ramp")
        names.append(f"int32:{shp}:ramp")
    return names


def is_valid_assign(kind: str, a) -> bool:
    return isinstance(a, np.ndarray) and a.dtype.str in ALLOWED[kind] and a.shape == (ROWS, COLS)


# ------------------------------------------------------------------ canonical forms

def canon_value(v):
    import xarray as xr

    if v is None:
        return None
    if isinstance(v, xr.DataArray):
        wl = v.coords["wavelength"].values.tobytes() if "wavelength" in v.coords else b""
        return ("da", v.dtype.str, tuple(v.dims), tuple(v.shape), np.ascontiguousarray(v.values).tobytes(), wl)
    if isinstance(v, np.ndarray):
        return ("nd", v.dtype.str, tuple(v.shape), np.ascontiguousarray(v).tobytes() if v.dtype != object else repr(v.tolist()))
    return ("other", type(v).__name__, repr(v))


def describe(v):
    import xarray as xr

    if v is None:
        return "EMPTY"
    if isinstance(v, xr.DataArray):
        return f"DataArray(dims={v.dims}, shape={v.shape}, dtype={v.dtype}, values={v.values.tolist()})"
    if isinstance(v, np.ndarray):
        return f"ndarray(shape={v.shape}, dtype={v.dtype}, values={v.tolist()})"
    return repr(v)


class State:
    __slots__ = ("det", "ref", "rsw", "sib")

    def __init__(self, det, ref, rsw=False, sib=()):
        self.det, self.ref = det, ref
        self.rsw = rsw      # "read since the last write": abstraction of possible hidden cache state, part of canon
        self.sib = sib      # dtypes validly assigned to a SIBLING container of another kind so far (part of canon)


class Model:
    def __init__(self, det_type: str, kind: str, tier: str):
        self.det_type, self.kind, self.tier = det_type, kind, tier
        self.arrays = array_names(kind, tier)
        self._ops = self._build_ops()

    # -- helpers
    def cont(self, st):
        return getattr(st.det, self.kind)

    def others(self):
        """containers used as right operands of == and of `detector.<bucket> = other`."""
        base = ("same_empty", "same_equal", "same_diff", "geo_empty", "geo_full", "kind_empty", "kind_full")
        # photons: the same cube on a wavelength grid moved by 1 nm is another array (for 2-D content = same_equal)
        return base + (("same_wlshift",) if self.kind == "photon" else ())

    def make_other(self, st, which):
        kind = self.kind
        good = "uint16" if kind == "image" else "float64"
        if which.startswith("same"):
            d = mk.detector(self.det_type, ROWS, COLS)
            c = getattr(d, kind)
            if which == "same_empty":
                c._array = None
            elif which == "same_equal":
                c._array = copy.deepcopy(self.cont(st)._array)
            elif which == "same_wlshift":
                import xarray as xr

                cur = copy.deepcopy(self.cont(st)._array)
                if isinstance(cur, xr.DataArray) and "wavelength" in cur.coords:
                    cur = cur.assign_coords(wavelength=np.asarray(cur.coords["wavelength"].values, dtype=float) + 1.0)
                c._array = cur
            else:
                c._array = make_array(f"{good}:ok:ramp") + (7 if kind == "image" else 0.5)
                c._array = c._array.astype(good)
            return c
        if which.startswith("geo"):
            d = mk.detector(self.det_type, COLS, ROWS)
            c = getattr(d, kind)
            c._array = None
            if which == "geo_full":
                c._array = np.ones((COLS, ROWS), dtype=good)
            return c
        okind = "signal" if kind in ("pixel", "photon", "phase") else "pixel"
        if kind == "signal":
            okind = "pixel"
        d = mk.detector(self.det_type, ROWS, COLS)
        c = getattr(d, okind)
        c._array = None
        if which == "kind_full":
            cur = self.cont(st)._array
            if isinstance(cur, np.ndarray) and cur.dtype.str in ALLOWED[okind]:
                c._array = cur.copy()
            else:
                c._array = np.ones((ROWS, COLS), dtype="float64")
        return c

    def _build_ops(self):
        ops = [["empty"], ["read"]]
        for n in self.arrays:
            ops.append(["set", n])
        for n in self.arrays:
            ops.append(["iadd", n])
        if self.kind != "photon":         # Photon has no update() in its public API
            for n in self.arrays:
                ops.append(["update", n])
            ops += [["update_list", "float"], ["update_list", "int"], ["update_list", "ragged"], ["update_none"]]
        if self.kind == "photon":
            for n in self.arrays:
                if n.split(":")[0] in ("float64", "int32", "float32") :
                    ops.append(["set2d", n])
            for n in DA_NAMES:
                ops.append(["set3d", n])
            for n in DA_NAMES:
                ops.append(["iadd", n])
        # an assignment of a VIEW of the container's own buffer (a column slice, the transpose, the same bytes under
        # another type, the whole buffer): judged like any other array
        for how in ("cols", "T", "retype", "whole"):
            ops.append(["setview", how])
        for o in self.others():
            ops.append(["eq", o])
        if self.kind != "phase":
            for o in self.others():
                ops.append(["detset", o])
            # the detector-level resets: the full one and the partial one made between the steps of a
            # non-destructive readout (pixel content kept, everything else emptied)
            ops += [["detempty", "full"], ["detempty", "keep"]]
        if self.kind != "phase":
            # Detector.replace_data (what the load_detector model calls): all-or-nothing
            ops += [["replace", "geo_fresh"], ["replace", "geo_emptied"], ["replace", "same_full"], ["replace", "same_fresh"]]
        # a valid assignment to a sibling container of ANOTHER kind (its dtype is illegal for the container under test):
        # what one bucket accepted must not become acceptable for another
        if self.kind == "image":
            ops += [["sib", "float64"], ["sib", "float32"]]
        elif self.kind in ("pixel", "signal", "phase"):
            ops += [["sib", "uint16"], ["sib", "uint8"]]
        return ops

    # -- seqx interface
    def initial(self):
        det = mk.detector(self.det_type, ROWS, COLS)
        c = getattr(det, self.kind)
        return State(det, copy.deepcopy(c._array))

    def ops(self, st):
        return self._ops

    def canon(self, st):
        # stored bytes + one bit of history (was the container read since it was last modified?), so that a state
        # reached through a read is expanded separately: read-triggered caching would otherwise be merged away
        return (canon_value(self.cont(st)._array), st.rsw, st.sib)

    def value_of(self, name):
        return make_da(name) if (name.startswith("da_") or name == "nd_3d") else make_array(name)

    def invariant(self, c):
        """None, or description of the broken invariant."""
        import xarray as xr

        v = c._array
        if v is None:
            return None
        kind = self.kind
        if isinstance(v, np.ndarray):
            if v.shape != (ROWS, COLS):
                return f"holds ndarray of shape {v.shape}, detector is {(ROWS, COLS)}"
            if v.dtype.str not in ALLOWED[kind]:
                return f"holds dtype {v.dtype}, allowed {ALLOWED[kind]}"
            return None
        if kind == "photon" and isinstance(v, xr.DataArray):
            if v.ndim != 3 or tuple(v.dims) != ("wavelength", "y", "x"):
                return f"holds DataArray with dims {v.dims}"
            if v.shape[1:] != (ROWS, COLS):
                return f"holds DataArray of shape {v.shape}"
            if v.dtype.str not in ALLOWED[kind]:
                return f"holds DataArray dtype {v.dtype}"
            return None
        return f"holds a {type(v).__name__}"

    def apply(self, st, op):
        new = copy.deepcopy(st)
        c = self.cont(new)
        kind = self.kind
        before = canon_value(c._array)
        viols = []
        tag = f"{self.det_type}.{kind}"

        def bad(code, what):
            viols.append(({"kind": kind, "op": op[0], "code": code,
                           "arg": _argclass(kind, op, st_empty=before is None)},
                          f"{tag}: {what} [op={op}]"))

        exc = None
        name = op[0]
        val = None
        val_before = None
        try:
            if name == "empty":
                c.empty()
            elif name == "read":
                self._reads(c, bad)
            elif name == "set":
                val = self.value_of(op[1])
                c.array = val
            elif name == "setview":
                cur = c._array
                if isinstance(cur, np.ndarray) and cur.ndim == 2:
                    val = {"cols": lambda a: a[:, :2], "T": lambda a: a.T, "whole": lambda a: a[...],
                           "retype": lambda a: a.view({8: "int64", 4: "int32", 2: "int16", 1: "int8"}[a.dtype.itemsize])
                           }[op[1]](cur)
                    val_before = np.array(val, copy=True)       # (a view follows its buffer: keep what was assigned)
                    c.array = val
            elif name == "set2d":
                val = self.value_of(op[1])
                c.array_2d = val
            elif name == "set3d":
                val = self.value_of(op[1])
                c.array_3d = val
            elif name == "iadd":
                val = self.value_of(op[1])
                c += val
            elif name == "update":
                val = self.value_of(op[1])
                c.update(val)
            elif name == "update_list":
                val = {"float": [[1.5, 2.5, 3.5], [4.5, 5.5, 6.5]], "int": [[1, 2, 3], [4, 5, 6]],
                       "ragged": [[1.0, 2.0], [3.0, 4.0]]}[op[1]]
                c.update(val)
                val = np.asarray(val)
            elif name == "update_none":
                c.update(None)
            elif name == "eq":
                self._eq(new, c, op[1], bad)
            elif name == "replace":
                geo = (COLS, ROWS) if op[1].startswith("geo") else (ROWS, COLS)
                src = mk.detector(self.det_type, *geo)
                if op[1] == "geo_emptied":
                    src.empty()
                if op[1] == "same_full":
                    src.photon.array = np.full(geo, 5.0)
                    src.pixel.array = np.full(geo, 6.0)
                    src.signal.array = np.full(geo, 7.0)
                    src.image.array = np.full(geo, 8, dtype="uint16")
                val = getattr(src, kind)._array
                new.det.replace_data(src)
                c = getattr(new.det, kind)
            elif name == "sib":
                other = getattr(new.det, "signal" if kind == "image" else "image")
                other.array = np.ones((ROWS, COLS), dtype=op[1])
                new.sib = tuple(sorted(set(new.sib) | {op[1]}))
            elif name == "detempty":
                new.det.empty(reset=(op[1] == "full"))
                c = getattr(new.det, kind)
            elif name == "detset":
                other = self.make_other(st, op[1])
                val = other._array
                setattr(new.det, kind, other)
                if getattr(new.det, kind) is not c:      # the detector must keep its own container
                    c = getattr(new.det, kind)
        except Exception as e:  # noqa: BLE001
            exc = e
        after = canon_value(c._array)

        inv = self.invariant(c)
        if inv:
            bad("invariant", f"after the operation the container {inv}")
        if exc is not None and after != before:
            bad("raised-but-changed", f"operation raised {type(exc).__name__} but content changed from "
                f"{describe(st_array(st, kind))} to {describe(c._array)}")

        # reference model
        ref_before = st.ref
        if name == "replace":
            if op[1].startswith("geo"):
                if exc is None:
                    bad("invalid-accepted", f"replace_data with a detector of shape {(COLS, ROWS)} was accepted; container now "
                        f"{describe(c._array)}")
                # (that the content stays untouched is checked for every raising operation)
            elif exc is not None:
                bad("valid-rejected", f"replace_data with a detector of the same shape raised {type(exc).__name__}: {exc}")
            elif canon_value(val) != after:
                bad("assign-value", f"replace_data: the source held {describe(val)} but the container holds {describe(c._array)}")
        elif name == "sib":
            if exc is not None:
                bad("read-raised", f"a valid assignment to the sibling bucket raised {type(exc).__name__}: {exc}")
            if after != before:
                bad("read-changed", "an assignment to a sibling bucket changed this container")
        elif name in ("read", "eq"):
            if exc is not None:
                bad("read-raised", f"read-only operation raised {type(exc).__name__}: {exc}")
            if after != before:
                bad("read-changed", "read-only operation changed the container")
        elif name in ("empty", "update_none"):
            if exc is not None:
                bad("empty-raised", f"{name} raised {type(exc).__name__}: {exc}")
            else:
                exp = np.zeros((ROWS, COLS)) if (kind == "pixel" and name == "empty") else None
                if canon_value(exp) != after:
                    bad("empty-wrong", f"{name} left {describe(c._array)}")
        elif name == "detempty":
            if exc is not None:
                bad("empty-raised", f"detector.empty(reset={op[1] == 'full'}) raised {type(exc).__name__}: {exc}")
            else:
                if kind == "pixel":
                    exp_c = canon_value(np.zeros((ROWS, COLS))) if op[1] == "full" else before
                else:
                    exp_c = None
                if exp_c != after:
                    bad("empty-wrong", f"detector.empty(reset={op[1] == 'full'}) left {describe(c._array)} in the {kind} "
                        f"bucket (before: {before})")
        elif name == "setview":
            if val is None:
                if exc is not None or after != before:
                    bad("read-changed", "nothing to assign (empty / multi-wavelength content), yet the container changed")
            elif is_valid_assign(kind, val):
                if exc is not None:
                    bad("valid-rejected", f"a view of the container's own buffer with the right shape and type was rejected with "
                        f"{type(exc).__name__}: {exc}")
                elif canon_value(self._expected_after_assign(val_before)) != after:
                    bad("assign-value", f"assigning the container's own content {describe(val_before)} left {describe(c._array)}")
            elif exc is None:
                bad("invalid-accepted", f"invalid value {describe(val)} (a view of the container's own buffer) was accepted "
                    f"without error; container now {describe(c._array)}")
        elif name in ("set", "set2d", "update", "update_list") or (name == "iadd" and before is None) \
                or name == "set3d" or (name == "detset" and val is not None):
            valid = self._valid_for(name, op, val)
            if valid:
                if exc is not None:
                    if name != "detset":
                        bad("valid-rejected", f"valid assignment rejected with {type(exc).__name__}: {exc}")
                else:
                    exp = self._expected_after_assign(val)
                    if canon_value(exp) != after:
                        bad("assign-value", f"assigned {describe(val)} but container holds {describe(c._array)}")
                    if kind == "photon" and c._array is not None and bool(np.any(np.asarray(c._array) < 0)):
                        bad("negative-photon", f"assigned photon holds negative values {describe(c._array)}")
            else:
                if exc is None:
                    bad("invalid-accepted", f"invalid value {describe(val)} was accepted without error; "
                        f"container now {describe(c._array)}")
        elif name == "detset" and val is None:
            # `detector.<bucket> = <empty container>`: either refused (content untouched, checked above) or the bucket
            # becomes empty; silently keeping the previous content would be stale data under the new assignment
            if exc is None and after is not None:
                bad("stale-after-empty-assignment", f"assigning an empty container was accepted but the bucket still "
                    f"holds {describe(c._array)}")
        elif name == "iadd":
            if exc is None and inv is None:
                exp = _ref_iadd(ref_before, val)
                if exp is not None and c._array is not None:
                    got = np.asarray(c._array, dtype="float64")
                    if got.shape != exp.shape or not np.allclose(got, exp, rtol=2e-3, atol=1e-6, equal_nan=True):
                        bad("iadd-value", f"{describe(ref_before)} += {describe(val)} gave {describe(c._array)}")
        new.ref = copy.deepcopy(c._array)
        new.rsw = name in ("read", "eq")
        return new, viols

    def _valid_for(self, name, op, val):
        import xarray as xr

        kind = self.kind
        if name == "set3d" or (kind == "photon" and isinstance(val, xr.DataArray)):
            if kind != "photon":
                return False
            if name in ("set", "set2d", "update"):
                return False
            return op[1] in DA_VALID if name in ("set3d", "iadd") else _da_valid(val)
        if name == "update_list":
            a = np.asarray(val) if not isinstance(val, np.ndarray) else val
            return is_valid_assign(kind, a)
        if name == "update":
            return is_valid_assign(kind, np.asarray(val))
        return is_valid_assign(kind, val)

    def _expected_after_assign(self, val):
        import xarray as xr

        if self.kind == "photon":
            if isinstance(val, xr.DataArray):
                return val.clip(min=0.0) if bool(np.any(val.values < 0)) else val
            with np.errstate(all="ignore"):
                return np.clip(val, 0.0, None) if bool(np.any(val < 0)) else val
        return np.asarray(val)

    def _reads(self, c, bad):
        import xarray as xr

        v = c._array
        kind = self.kind
        for attr in ("array", "dtype") + (("array_2d", "array_3d") if kind == "photon" else ()):
            try:
                got = getattr(c, attr)
            except Exception as e:  # noqa: BLE001
                if v is None:
                    if not str(e).strip():
                        bad("empty-read-silent", f"reading .{attr} of an empty container raised without message")
                elif attr == "array_3d" and isinstance(v, np.ndarray):
                    pass
                elif attr in ("array", "array_2d") and isinstance(v, xr.DataArray):
                    pass
                else:
                    bad("read-failed", f"reading .{attr} of a filled container raised {type(e).__name__}: {e}")
            else:
                if v is None:
                    bad("empty-read-returns", f"reading .{attr} of an empty container returned {got!r}")
                elif attr in ("array", "array_2d", "array_3d"):
                    if canon_value(got) != canon_value(v):
                        bad("read-wrong", f".{attr} returned {describe(got)} but the container holds {describe(v)}")
                elif attr == "dtype" and got != v.dtype:
                    bad("read-wrong", f".dtype returned {got} for {describe(v)}")
        try:
            got = np.asarray(c)
        except Exception as e:  # noqa: BLE001
            if v is None:
                if not str(e).strip():
                    bad("empty-read-silent", "np.asarray(empty container) raised without message")
            elif isinstance(v, xr.DataArray):
                pass
            else:
                bad("read-failed", f"np.asarray(container) raised {type(e).__name__}: {e}")
        else:
            if v is None:
                bad("empty-read-returns", f"np.asarray(empty container) returned {got!r}")
            elif isinstance(v, np.ndarray) and canon_value(got) != canon_value(v):
                bad("read-wrong", f"np.asarray returned {describe(got)} for {describe(v)}")
        if v is not None and tuple(c.shape) != tuple(v.shape):
            bad("read-wrong", f".shape returned {c.shape} for {describe(v)}")
        if v is not None and c.ndim != v.ndim:
            bad("read-wrong", f".ndim returned {c.ndim} for {describe(v)}")

    def _eq(self, st, c, which, bad):
        other = self.make_other(st, which)
        a, b = c._array, other._array
        if _has_nan(a) or _has_nan(b):
            return
        same_kind = type(c) is type(other)
        if self.kind == "photon" and (a is None or b is None) and which.startswith("geo"):
            return          # an empty Photon reports shape (): "same shape" is not defined by its API
        same_shape = which.split("_")[0] != "geo"
        if a is None and b is None:
            content = True
        elif a is None or b is None:
            content = False
        else:
            content = canon_value(a)[2:] == canon_value(b)[2:] if canon_value(a)[0] == canon_value(b)[0] else False
            if canon_value(a)[0] == canon_value(b)[0] == "nd":
                content = a.shape == b.shape and bool(np.array_equal(a, b))
        expected = bool(same_kind and same_shape and content)
        for lhs, rhs, txt in ((c, other, "a == b"), (other, c, "b == a")):
            try:
                got = bool(lhs == rhs)
            except Exception as e:  # noqa: BLE001
                bad("eq-raised", f"{txt} raised {type(e).__name__} (a={describe(a)}, b[{which}]={describe(b)})")
                continue
            if got != expected:
                bad("eq-wrong", f"{txt} is {got}, expected {expected} (a={describe(a)}, b[{which}]={describe(b)}, "
                    f"same kind={same_kind}, same shape={same_shape})")


def _da_valid(v):
    return (v.ndim == 3 and tuple(v.dims) == ("wavelength", "y", "x") and v.shape[1:] == (ROWS, COLS)
            and v.dtype.str in FLOATS and "wavelength" in v.coords)


def st_array(st, kind):
    return getattr(st.det, kind)._array


def _has_nan(a):
    if a is None:
        return False
    a = np.asarray(a)
    return a.dtype.kind in "fc" and bool(np.isnan(a).any())


def _ref_iadd(old, val):
    """old + val as float64 where numpy defines it for real numeric operands without overflow."""
    import xarray as xr

    if old is None or isinstance(old, xr.DataArray) or isinstance(val, xr.DataArray):
        return None
    if not isinstance(val, np.ndarray) or val.dtype.kind not in "biuf":
        return None
    try:
        with np.errstate(all="ignore"):
            exp = old.astype("float64") + val.astype("float64")
    except Exception:  # noqa: BLE001
        return None
    if exp.shape != old.shape:
        return None
    if old.dtype.kind == "u":
        if val.dtype.kind != "u":
            return None
        if (exp > np.iinfo(old.dtype).max).any() or exp.max() > 2 ** 52:
            return None
    else:
        lim = np.finfo(old.dtype).max
        fin = np.isfinite(exp)
        if (np.abs(exp[fin]) > lim * 0.5).any() or not fin.all():
            return None
    return exp


def _argclass(kind, op, st_empty):
    """coarse class of the argument, used in violation keys (for narrow known-finding matching)."""
    if len(op) < 2:
        return "-"
    n = op[1]
    if op[0] in ("eq", "detset"):
        return n
    if n.startswith("da_") or n == "nd_3d":
        return n
    if ":" in n:
        dt, shp, pat = n.split(":")
        ok_dt = np.dtype(dt).str in ALLOWED[kind]
        return f"{'okdtype' if ok_dt else 'baddtype'}/{'okshape' if shp == 'ok' else 'badshape'}/" \
               f"{'neg' if 'neg' in pat else 'val'}/{'on-empty' if st_empty else 'on-filled'}"
    return n


# ------------------------------------------------------------------ module interface

def _combos():
    out = []
    for d in mk.DET_TYPES:
        for k in ("photon", "pixel", "signal", "image") + (("phase",) if d == "mkid" else ()):
            out.append((d, k))
    return out


def shards(tier, seed):
    depth = 3 if tier == "quick" else 4
    out = []
    for d, k in _combos():
        # full depth on one detector type per kind, depth-1 less on the others (same container classes)
        out.append({"det": d, "kind": k, "depth": depth if d in ("ccd", "mkid") else max(1, depth - 1), "tier": tier})
    return out


def run_shard(shard):
    m = Model(shard["det"], shard["kind"], shard["tier"])
    stats, viols = seqx.bfs(m, shard["depth"], expand_limit=shard.get("expand_limit"))
    out = []
    for v in viols:
        out.append({"key": v["key"], "what": v["what"],
                    "case": {"det": shard["det"], "kind": shard["kind"], "tier": shard["tier"], "ops": v["ops"],
                             "seed": os.environ.get("VERIF_SEED", "0")}})
    return {"violations": out,
            "counts": {"states": stats["states"], "transitions": stats["transitions"],
                       "cap_hit": int(stats["cap_hit"])},
            "sets": {"combos": [f"{shard['det']}.{shard['kind']}@depth{stats['depth_completed']}"]},
            "samples": [{"det": shard["det"], "kind": shard["kind"], "ops": stats["sample"]}]}


def replay(case):
    os.environ["VERIF_SEED"] = str(case.get("seed", "0"))
    m = Model(case["det"], case["kind"], case.get("tier", "quick"))
    out = []
    for v in seqx.run_sequence(m, case["ops"]):
        out.append({"key": v["key"], "what": v["what"], "case": dict(case, ops=v["ops"])})
    return out


def coverage(tier, seed, agg):
    c = agg["counts"]
    return {
        "states": c.get("states", 0),
        "transitions": c.get("transitions", 0),
        "traces_validated_against_impl": c.get("transitions", 0),
        "exhaustive": c.get("cap_hit", 0) == 0,
        "bound": "all operation sequences up to the depth given per (detector, container) in `explored`",
        "explored": agg["sets"].get("combos", []),
        "rule": "BFS over the operation alphabet (set/update/+=/empty/reads/==/detector setter) on the real "
                "containers; states deduplicated by (dtype, shape, bytes) of the stored array; every transition "
                "is executed on the implementation and compared with a reference cell None|array",
        "caps_hit": c.get("cap_hit", 0),
    }
