"""C07 - parallel execution yields the same results as sequential execution.

Stateless model checking of the real dask path: the real task graph built by
`run_pipelines_with_dask` is executed by the real dask scheduler loop, but the run tasks live in
controlled threads (vp.schedx) and every interleaving up to a preemption bound, and every
start/completion order, is enumerated; each complete execution is compared, label by label, with
the sequential (`with_dask=False`) result.  Free-running configurations (real thread pools,
process pool) and calibration runs are compared as additional, separately reported parts.
"""
from __future__ import annotations

import hashlib
import itertools
import json
import os
import shutil
import tempfile

import numpy as np

from vp import mk, probes, schedx, seams

ID = "C07"
LEVEL = "model_checking"
ENGINE = "schedx"
TIMEOUT = 1500
TECHNIQUE = ("stateless exploration of all thread interleavings (preemption-bounded, iteratively 0,1,2) and all task "
             "start/completion orders of the real dask observation path under a controlled scheduler, each execution "
             "compared with the sequential result")
LEVEL_TEXT = ("The real observation task graph is run by the real dask scheduler loop while the run tasks execute in "
              "controlled threads: for 2-3 runs, pool sizes 1-3, deterministic / stateful / seeded-stochastic pipelines, "
              "product / sequential / custom modes, all schedules with <= 1 (quick) or <= 2 (thorough) preemptions and "
              "all start orders are executed and every bucket of every parameter label is compared bit-for-bit with the "
              "sequential run; files written are matched one-to-one to runs. Free-running thread/process pools and "
              "calibrations under different worker counts and island creation orders are added as differential runs."
              " Part legacy compares pyxel.observation_mode(with_dask=True) (runs mapped over a dask bag; synchronous, threads 2/8, processes 2) with its own sequential execution: data under labels and files by name.")
LEVEL_NOTE = ("Scheduling points: probe-model entry/exit, every operation on the process-wide numpy generator, the "
              "seeding lock, task start/completion. Accesses without a scheduling point are only covered by the "
              "free-running pass (which can add violations but vouches for nothing). Pygmo's C++ threads and "
              "migrating topologies are outside the scheduler. Bounded: <= 3 runs, <= 2 preemptions, <= 2 readout steps.")
DESIGN_REF = "DESIGN.md section 4, C07"
ASSUMPTIONS = ["dask.local.get_async blocks only in dask.local.queue_get (replaced by the explorer's stepping loop)",
               "a thread switch can only matter at a scheduling point or is caught by the free-running differential pass"]

SCHED = None


def _get_sched():
    return SCHED


# --------------------------------------------------------------------------- harnesses

HARNESSES = {
    # name: dict(pipeline, values..., mode, steps, seed, hooks)
    # (value lists are deliberately NOT ascending: labels must follow the declared order of the runs)
    "det3":      dict(pipe="det", mode="product", a=[3, 1, 2], steps=1, seed=None, hooks=True),
    # the swept values are TEXT that denotes numbers ('1e3'-like numbers of a YAML file arrive like this)
    "det3t":     dict(pipe="typed", mode="product", a=["3", "1", "2"], steps=1, seed=None, hooks=False),
    # a model that is disabled in the configuration, switched on by the sweep
    "enflag":    dict(pipe="enflag", mode="product", a=[2, 1], en=[False, True], steps=1, seed=None, hooks=False),
    # an input file given relative to the observation's working directory
    "wdfile":    dict(pipe="wdfile", mode="product", a=[2.0, 1.0], steps=1, seed=None, hooks=False),
    "enstruct":  dict(pipe="enstruct", mode="product", a=[2, 1], en=[False, True], steps=1, seed=None, hooks=False),
    "det2x2":    dict(pipe="det", mode="product", a=[1, 2], b=[10, 20], steps=1, seed=None, hooks=True),
    "det3s2":    dict(pipe="det", mode="product", a=[1, 2, 3], steps=2, seed=None, hooks=True),
    "state3":    dict(pipe="stateful", mode="product", a=[1, 2, 3], steps=2, seed=None, hooks=True),
    "seq":       dict(pipe="det", mode="sequential", a=[1, 2], b=[10, 20], steps=1, seed=None, hooks=True),
    "custom3":   dict(pipe="det", mode="custom", rows=[[1, 10], [2, 20], [3, 30]], steps=1, seed=None, hooks=True),
    "noisy3":    dict(pipe="noisy", mode="product", a=[100, 200, 300], steps=1, seed=5, hooks=True),
    "noisy2":    dict(pipe="noisy", mode="product", a=[100, 200], steps=1, seed=5, hooks=True),
    "mseed3":    dict(pipe="modelseed", mode="product", a=[100, 200, 300], steps=1, seed=None, hooks=True),
    "files3":    dict(pipe="det", mode="product", a=[1, 2, 3], steps=1, seed=None, hooks=True, outputs=True),
    "atomic4":   dict(pipe="det", mode="product", a=[1, 2, 3, 4], steps=1, seed=None, hooks=False),
    "atomicn3":  dict(pipe="noisy", mode="product", a=[100, 200, 300], steps=1, seed=5, hooks=False, rnghook=False),
    "atomicf3":  dict(pipe="det", mode="product", a=[1, 2, 3], steps=1, seed=None, hooks=False, outputs=True),
    # the readout times themselves are swept (a key that addresses the observation, not the processor)
    "rtimes3":   dict(pipe="timed", mode="product", rtimes=[[1.0], [2.0], [4.0]], steps=1, seed=None, hooks=True),
    "rtimes3n":  dict(pipe="timed", mode="product", rtimes=[[1.0], [2.0], [4.0]], steps=1, seed=5, hooks=True),
    # ... with schedules of two readouts each (free-running part only; see known finding F07-dask-readout-schedules)
    "rtimes2s":  dict(pipe="timed2", mode="product", rtimes=[[1.0, 2.0], [0.5, 3.0]], steps=2, seed=None, hooks=False),
    "files2x3":  dict(pipe="det", mode="product", a=[1, 2], b=[10, 20, 30], steps=1, seed=None, hooks=False, outputs=True),
    "files3x2":  dict(pipe="det", mode="product", a=[1, 2, 3], b=[10, 20], steps=1, seed=None, hooks=False, outputs=True),
    # two swept arguments with the same short name ('a' of two models) around a uniquely named one
    "collide":   dict(pipe="collide", mode="product", a=[1, 2], b=[10, 20], c=[5, 6], steps=1, seed=None, hooks=False),
    # custom mode with a two-column (vector) parameter declared BEFORE a scalar one
    "customv":   dict(pipe="det", mode="custom", rows=[[1, 2, 10], [3, 4, 20], [5, 6, 30]], vec=True, steps=1, seed=None,
                      hooks=False),
    "collideS":  dict(pipe="collide", mode="sequential", a=[1, 2], b=[10, 20], c=[5, 6], steps=1, seed=None, hooks=False),
}


def typed(detector, a=0):
    """probe sensitive to the KIND of value it receives: a number is written as it is, anything else as -999"""
    shape = detector.geometry.shape
    ok = isinstance(a, (int, float)) and not isinstance(a, bool)
    detector.pixel.array = np.full(shape, float(a) if ok else -999.0)
    detector.photon.array = np.full(shape, 1.0 if isinstance(a, int) else (2.0 if ok else 3.0))


def timed(detector, a=3.0, noise=False):
    """pixel depends on the readout time of the run (and, with noise, on the process-wide generator)"""
    if probes.HOOK:
        probes.HOOK("model.in")
    shape = detector.geometry.shape
    detector.pixel.array = np.full(shape, float(a) * float(detector.time))
    if noise:
        detector.pixel.array = detector.pixel.array + np.random.normal(0.0, 1.0, size=shape)
    detector.photon.array = np.full(shape, float(detector.time) + 1000.0 * float(detector.time_step))
    if probes.HOOK:
        probes.HOOK("model.out")


def noisy_modelseed(detector, a=0.0, seed=7):
    """model with its own seed argument (like pyxel's stochastic models)."""
    from pyxel.util import set_random_seed

    shape = detector.geometry.shape
    if probes.HOOK:
        probes.HOOK("model.in")
    with set_random_seed(seed):
        detector.pixel.array = np.full(shape, float(a)) + np.random.normal(0.0, 1.0, size=shape)
    detector.photon.array = np.full(shape, float(a))
    if probes.HOOK:
        probes.HOOK("model.out")


def build(h, with_dask, tmp):
    from pyxel.observation import Observation, ParameterValues
    from pyxel.outputs import ObservationOutputs

    s = int(os.environ.get("VERIF_SEED", "0") or 0) % 7
    det = mk.detector("ccd", 2, 3)
    if h["pipe"] == "det":
        groups = {"photon_collection": [("vp.probes.encode", "enc", {"a": 0.0, "b": 0.0, "v": [0.0, 0.0]})]}
        ka, kb = "pipeline.photon_collection.enc.arguments.a", "pipeline.photon_collection.enc.arguments.b"
    elif h["pipe"] == "stateful":
        groups = {"photon_collection": [("vp.probes.encode", "enc", {"a": 0.0, "b": 0.0})],
                  "charge_collection": [("vp.probes.stateful", "st", {"inc": 1.0, "lst": [], "dct": {}})]}
        ka, kb = "pipeline.photon_collection.enc.arguments.a", "pipeline.charge_collection.st.arguments.inc"
    elif h["pipe"] == "typed":
        groups = {"photon_collection": [("props.c07_parallel.typed", "ty", {"a": 0})]}
        ka, kb = "pipeline.photon_collection.ty.arguments.a", None
    elif h["pipe"] == "noisy":
        groups = {"charge_collection": [("vp.probes.noisy", "nz", {"a": 0.0, "sigma": 1.0})]}
        ka, kb = "pipeline.charge_collection.nz.arguments.a", "pipeline.charge_collection.nz.arguments.sigma"
    elif h["pipe"] == "modelseed":
        groups = {"charge_collection": [("props.c07_parallel.noisy_modelseed", "nz", {"a": 0.0, "seed": 7})]}
        ka, kb = "pipeline.charge_collection.nz.arguments.a", "pipeline.charge_collection.nz.arguments.seed"
    elif h["pipe"] == "wdfile":
        np.save(os.path.join(tmp, "input_image.npy"), np.arange(6, dtype=float).reshape(2, 3) + 1.0 + s)
        groups = {"photon_collection": [("pyxel.models.photon_collection.load_image", "load_image",
                                         {"image_file": "input_image.npy", "multiplier": 1.0})]}
        ka, kb = "pipeline.photon_collection.load_image.arguments.multiplier", None
    elif h["pipe"] in ("enflag", "enstruct"):
        # enflag: the switched-on model rewrites buckets the first model already initialised (same result structure in
        # every run); enstruct: it initialises ANOTHER bucket (signal), so the runs differ in structure
        slot2 = 0 if h["pipe"] == "enflag" else 1
        groups = {"photon_collection": [("vp.cprobes.enc", "p1", {"slot": 0, "a": 0.25, "b": 0.5, "v": [1.0]})],
                  "charge_generation": [("vp.cprobes.enc", "p2", {"slot": slot2, "a": 0.75, "b": 0.5, "v": [2.0]}, False)]}
        ka, kb = "pipeline.photon_collection.p1.arguments.a", "pipeline.photon_collection.p1.arguments.b"
        ken = "pipeline.charge_generation.p2.enabled"
    elif h["pipe"] == "collide":
        groups = {"photon_collection": [("vp.cprobes.enc", "p1", {"slot": 0, "a": 0.25, "b": 0.5, "v": [1.0]})],
                  "charge_generation": [("vp.cprobes.enc", "p2", {"slot": 1, "a": 0.75, "b": 0.5, "v": [2.0]})]}
        ka, kb = "pipeline.photon_collection.p1.arguments.a", "pipeline.photon_collection.p1.arguments.b"
        kc = "pipeline.charge_generation.p2.arguments.a"
    elif h["pipe"] in ("timed", "timed2"):
        groups = {"charge_collection": [("props.c07_parallel.timed", "tm", {"a": 3.0 + s, "noise": h["seed"] is not None})]}
        ka = kb = None
    pipe = mk.pipeline(groups)
    params = []
    kw = {}
    if "rtimes" in h:
        params = [ParameterValues(key="observation.readout.times", values=[list(t) for t in h["rtimes"]])]
    elif h["mode"] == "custom":
        fn = os.path.join(tmp, "custom.txt")
        with open(fn, "w") as f:
            for row in h["rows"]:
                f.write(" ".join(str(x + s) for x in row) + "\n")
        params = [ParameterValues(key=ka, values="_"), ParameterValues(key=kb, values="_")]
        kw = dict(from_file=fn, column_range=(0, 2))
        if h.get("vec"):
            params = [ParameterValues(key="pipeline.photon_collection.enc.arguments.v", values=["_", "_"]),
                      ParameterValues(key=ka, values="_")]
            kw = dict(from_file=fn, column_range=(0, 3))
    else:
        params.append(ParameterValues(key=ka, values=[(str(int(x) + s) if isinstance(x, str) else x + s) for x in h["a"]]))
        if "b" in h:
            params.append(ParameterValues(key=kb, values=[x + s for x in h["b"]]))
        if "c" in h:
            params.append(ParameterValues(key=kc, values=[x + s for x in h["c"]]))
        if "en" in h:
            params.append(ParameterValues(key=ken, values=list(h["en"])))
    outputs = None
    if h.get("outputs"):
        outputs = ObservationOutputs(output_folder=os.path.join(tmp, "out_par" if with_dask else "out_seq"),
                                     save_data_to_file=[{"detector.pixel.array": ["npy"]},
                                                        {"detector.image.array": ["npy"]}])
    times = [float(i + 1) for i in range(h["steps"])]
    # (sweeps of the readout times start from a readout with a non-zero start time: it must survive the sweep)
    ro = mk.readout(times, start_time=0.25) if "rtimes" in h else mk.readout(times)
    if h["pipe"] == "wdfile":
        kw["working_directory"] = tmp
    obs = Observation(parameters=params, mode=h["mode"], readout=ro, with_dask=with_dask,
                      pipeline_seed=h["seed"], outputs=outputs, **kw)
    return obs, det, pipe


def _bucket_arrays(tree):
    """{var: DataArray} for the bucket variables of a result tree."""
    out = {}
    node = tree["/bucket"] if "bucket" in tree.children else tree
    ds = node.to_dataset() if hasattr(node, "to_dataset") else node
    for name in ds.data_vars:
        out[str(name)] = ds[name]
    return out


def canon_result(arrs):
    """label-indexed canonical form: {var: (dims, coords of parameter dims, bytes)}"""
    out = {}
    if any("readout_time_id" in da.dims for da in arrs.values()) or \
            any(da.dims and "time" in da.dims and da.coords["time"].dtype == object for da in arrs.values()):
        # sweep of the readout times: the two executions lay the result out differently (the sequential one keeps
        # a run index and a sparse `time` axis, the parallel one relabels `time` with the swept tuples); compared
        # per run: the frames that run produced
        for name, da in sorted(arrs.items()):
            runs = []
            if "y" not in da.dims or "x" not in da.dims:
                continue                        # a bucket no model initialised
            if "readout_time_id" in da.dims:
                for i in range(da.sizes["readout_time_id"]):
                    sub = da.isel(readout_time_id=i)
                    for d in list(sub.dims):
                        if d not in ("time", "y", "x"):
                            sub = sub.isel({d: 0})
                    vals = np.asarray(sub.transpose("time", "y", "x").values, dtype="float64")
                    runs.append(vals[[t for t in range(vals.shape[0]) if not np.isnan(vals[t]).all()]])
            elif "time" in da.dims:
                vals = np.asarray(da.transpose("time", "y", "x").values, dtype="float64")
                runs = [vals[i:i + 1] for i in range(vals.shape[0])]
            else:
                continue
            out[name] = [["run", "time", "x", "y"], {"run": len(runs)}, "float64",
                         hashlib.sha1(b"|".join(np.ascontiguousarray(r).tobytes() for r in runs)).hexdigest()]
        return out
    for name, da in sorted(arrs.items()):
        dims = sorted(str(d) for d in da.dims)
        da2 = da.transpose(*dims)
        coords = {d: np.asarray(da2.coords[d].values).tolist() for d in dims if d in da2.coords and d not in ("y", "x")}
        vals = np.asarray(da2.values)
        if vals.dtype.kind in "iubf" and vals.dtype.itemsize < 8:
            vals = vals.astype("float64")  # the sequential merge may widen a bucket's type: compare numerically
        out[name] = [dims, coords, str(da2.dtype), hashlib.sha1(np.ascontiguousarray(vals).tobytes()).hexdigest()]
    return out


def diff_results(ref, got):
    msgs = []
    for name in sorted(set(ref) | set(got)):
        if name not in got:
            msgs.append(f"variable {name} missing in the parallel result")
        elif name not in ref:
            msgs.append(f"variable {name} only in the parallel result")
        elif ref[name][:2] != got[name][:2]:
            msgs.append(f"{name}: structure/labels differ: sequential {ref[name][:2]} parallel {got[name][:2]}")
        elif ref[name][3] != got[name][3]:
            msgs.append(f"{name}: values differ under identical labels")
    return msgs


def files_state(folder):
    """{relative file name: sha1} of all npy files below folder."""
    out = {}
    for root, _, files in os.walk(folder):
        for f in files:
            if f.endswith(".npy"):
                a = np.load(os.path.join(root, f))
                out[f] = hashlib.sha1(np.ascontiguousarray(a.astype("float64")).tobytes()).hexdigest()[:12]
    return out


def run_sequential(h):
    import pyxel

    tmp = tempfile.mkdtemp(prefix="vp_c07_")
    try:
        probes.reset()
        probes.HOOK = None
        seams.orig_rng("seed")(12345)
        obs, det, pipe = build(h, False, tmp)
        res = pyxel.run_mode(obs, det, pipe, with_inherited_coords=True)
        arrs = _bucket_arrays(res)
        expected_files = []
        if h.get("outputs"):
            for name in ("pixel", "image"):
                da = arrs[name]
                pdims = [d for d in da.dims if d not in ("y", "x", "time")]
                st = da.stack(run_=pdims) if pdims else da.expand_dims("run_")
                for i in range(st.sizes["run_"]):
                    a = np.asarray(st.isel(run_=i).transpose("time", "y", "x").values)[-1]
                    expected_files.append(hashlib.sha1(np.ascontiguousarray(a.astype("float64")).tobytes()).hexdigest()[:12])
        return canon_result(arrs), expected_files
    finally:
        shutil.rmtree(tmp, ignore_errors=True)


def run_controlled(h, k, choices, expect=None):
    """One execution of the parallel path under the controlled scheduler."""
    global SCHED
    import dask
    import pyxel

    tmp = tempfile.mkdtemp(prefix="vp_c07_")
    sched = schedx.Sched(choices, expect)
    try:
        probes.reset()
        seams.install_rng_seam()
        schedx.install_dask_queue_get(_get_sched)
        _install_lock_seam(sched)
        seams.orig_rng("seed")(12345)
        obs, det, pipe = build(h, True, tmp)
        probes.HOOK = None
        seams.set_rng_hook(None)
        res = pyxel.run_mode(obs, det, pipe, with_inherited_coords=True)      # builds the lazy graph (first run eager)
        arrs = _bucket_arrays(res)
        names = sorted(arrs)
        if h["hooks"]:
            probes.HOOK = sched.point
        if h.get("rnghook", True):
            seams.set_rng_hook(sched.point)
        SCHED = sched
        err = None
        try:
            ex = schedx.ControlledExecutor(sched, k, controlled=_is_run_task)
            with dask.config.set(scheduler="threads", pool=ex, num_workers=k):
                vals = dask.compute(*[arrs[n] for n in names])
            if ex.n_controlled < 2:
                raise RuntimeError(f"vacuous harness: only {ex.n_controlled} run tasks were controlled")
        except (schedx.ReplayDivergence, schedx.Deadlock, RuntimeError):
            raise
        except Exception as e:  # noqa: BLE001
            err = f"{type(e).__name__}: {e}"
            vals = None
        finally:
            SCHED = None
            probes.HOOK = None
            seams.set_rng_hook(None)
        if err is not None:
            return {"error": err}, sched.log
        out = canon_result(dict(zip(names, vals)))
        files = files_state(os.path.join(tmp, "out_par")) if h.get("outputs") else {}
        return {"result": out, "files": files}, sched.log
    finally:
        _remove_lock_seam()
        shutil.rmtree(tmp, ignore_errors=True)


def _is_run_task(key):
    """dask keys of the per-run tasks created by xr.apply_ufunc(..., vectorize=True, dask='parallelized')."""
    name = key[0] if isinstance(key, tuple) else key
    return isinstance(name, str) and name.startswith("vectorize_") and "transpose" not in name


_LOCK_ORIG = {}


def _install_lock_seam(sched):
    """If the library serialises seeded blocks with a module-level lock, make that lock schedulable."""
    import threading

    import pyxel.util.randomize as rz

    for name, val in list(vars(rz).items()):
        if isinstance(val, (type(threading.Lock()), type(threading.RLock()))):
            _LOCK_ORIG[name] = val
            setattr(rz, name, sched.make_rlock())


def _remove_lock_seam():
    import pyxel.util.randomize as rz

    for name, val in _LOCK_ORIG.items():
        setattr(rz, name, val)
    _LOCK_ORIG.clear()


# --------------------------------------------------------------------------- shards

def plan(tier):
    """(harness, k, bound) triples explored exhaustively."""
    if tier == "quick":
        return [("det3", 2, 1), ("det2x2", 2, 1), ("state3", 2, 1), ("seq", 2, 1), ("custom3", 2, 1),
                ("noisy3", 2, 1), ("noisy2", 2, 2), ("mseed3", 2, 1), ("files3", 2, 1),
                ("atomic4", 4, 0), ("atomicn3", 3, 0), ("atomicf3", 3, 0), ("det3", 1, 0), ("det3", 3, 1),
                ("files2x3", 2, 0), ("files3x2", 3, 0), ("rtimes3", 2, 1), ("rtimes3n", 3, 1), ("collide", 2, 0),
                ("collideS", 2, 0), ("customv", 2, 0), ("enflag", 2, 0)]
    return [("det3", 2, 2), ("det2x2", 2, 2), ("det3s2", 2, 2), ("state3", 2, 2), ("seq", 2, 2), ("custom3", 2, 2),
            ("noisy3", 2, 2), ("noisy2", 2, 3), ("mseed3", 2, 2), ("files3", 2, 2), ("det3", 3, 2), ("noisy3", 3, 2),
            ("atomic4", 4, 0), ("atomic4", 2, 0), ("atomicn3", 3, 0), ("atomicf3", 3, 0), ("det3", 1, 0),
            ("noisy3", 1, 0), ("files2x3", 2, 0), ("files3x2", 3, 0), ("files2x3", 6, 0), ("rtimes3", 2, 2),
            ("rtimes3n", 3, 2), ("collide", 2, 0), ("collide", 3, 0), ("collideS", 2, 0), ("customv", 2, 0),
            ("customv", 3, 0)]


def shards(tier, seed):
    out = []
    for hname, k, bound in plan(tier):
        nsplit = 1 if bound == 0 else (6 if tier == "quick" else 14)
        for i in range(nsplit):
            out.append({"part": "sched", "h": hname, "k": k, "bound": bound, "i": i, "of": nsplit, "seed": seed})
    for hname in ("det3", "state3", "seq", "custom3", "noisy3", "mseed3", "rtimes3n", "collide", "enflag", "enstruct", "wdfile", "rtimes2s", "det3t"):
        out.append({"part": "free", "h": hname, "seed": seed, "tier": tier})
    out.append({"part": "calib", "seed": seed, "tier": tier})
    for mode in ("product", "custom", "sequential"):
        out.append({"part": "legacy", "mode": mode, "seed": seed, "tier": tier})
    for name in BFE:
        out.append({"part": "bfe", "bfe": name, "k": 2, "bound": 1 if tier == "quick" else 2, "seed": seed})
    return out


def _key(h, code, **kw):
    hh = HARNESSES[h]
    key = {"part": "sched", "pipeline": hh["pipe"], "mode": hh["mode"], "pipeline_seed": hh["seed"] is not None,
           "code": code}
    key.update(kw)
    return key


def explore_subtree(hname, k, bound, i, of):
    h = HARNESSES[hname]
    ref, ref_files = run_sequential(h)
    stats = {"executions": 0, "max_points": 0}
    outcomes = set()
    viol = {}
    sample = []

    def run(ch, expect):
        return run_controlled(h, k, ch, expect)

    def on_exec(ch, outcome, log):
        stats["executions"] += 1
        stats["max_points"] = max(stats["max_points"], len(log))
        sig = hashlib.sha1(json.dumps(outcome, sort_keys=True).encode()).hexdigest()[:12]
        outcomes.add(sig)
        if len(sample) < 1:
            sample.append({"harness": hname, "pool": k, "choices": ch, "decisions": len(log),
                           "labels": [e[1][0][1] for e in log][:30]})
        npre = schedx.preemptions(log, ch, len(ch))
        case = {"part": "sched", "h": hname, "k": k, "choices": ch}
        if "error" in outcome:
            kk = _key(hname, "raised", preemptions=min(npre, 2))
            viol.setdefault(json.dumps(kk, sort_keys=True), (kk, f"[{hname}, pool {k}] parallel run raised "
                                                                 f"{outcome['error'][:300]} under schedule {ch}", case))
            return
        msgs = diff_results(ref, outcome["result"])
        if msgs:
            code = "structure" if any("structure" in m or "missing" in m or "only in" in m for m in msgs) else "values"
            kk = _key(hname, code, preemptions=(">=2" if npre >= 2 else npre))
            viol.setdefault(json.dumps(kk, sort_keys=True),
                            (kk, f"[{hname}, pool {k}] parallel result differs from sequential under schedule {ch} "
                                 f"({npre} preemptions): {msgs[:3]}", case))
        if h.get("outputs"):
            fm = _files_msgs(ref_files, outcome["files"])
            if fm:
                kk = _key(hname, "files", preemptions=(">=2" if npre >= 2 else npre))
                viol.setdefault(json.dumps(kk, sort_keys=True),
                                (kk, f"[{hname}, pool {k}] files of the parallel run are not one-to-one with the runs "
                                     f"under schedule {ch}: {fm}", case))

    # root execution, then the i-th slice of its children subtrees
    outcome, log = run_controlled(h, k, [], None)
    if i == 0:
        on_exec([], outcome, log)
    kids = schedx.children([], log, bound)
    exp = [e[1] for e in log]
    for j, (child, cost) in enumerate(kids):
        if j % of != i:
            continue
        schedx.explore(lambda ch, ex: run(ch, ex), bound, prefix=child, on_exec=on_exec)
    return stats, outcomes, list(viol.values()), sample


def _files_msgs(expected, got_files):
    """parallel files must be one-to-one with (bucket, run): the multiset of file contents must equal the multiset
    of the per-run buckets of the sequential reference result."""
    a = sorted(expected)
    b = sorted(got_files.values())
    if a != b:
        return f"expected one file per (bucket, run) with contents {a}; parallel run wrote {len(b)} files: {sorted(got_files.items())}"
    return None


def run_shard(shard):
    os.environ["VERIF_SEED"] = str(shard.get("seed", 0))
    if shard["part"] == "sched":
        stats, outcomes, viol, sample = explore_subtree(shard["h"], shard["k"], shard["bound"], shard["i"], shard["of"])
        tag = f"{shard['h']}/k{shard['k']}/b{shard['bound']}"
        return {"violations": [{"key": k, "what": w, "case": dict(c, seed=shard.get("seed", 0))} for k, w, c in viol],
                "counts": {"schedules": stats["executions"], "transitions": stats["executions"] * max(1, stats["max_points"])},
                "sets": {"outcomes": [f"{tag}:{o}" for o in outcomes], "explored": [tag]},
                "samples": sample}
    if shard["part"] == "bfe":
        stats, outcomes, viol, sample = explore_bfe(shard["bfe"], shard["k"], shard["bound"])
        tag = f"bfe-{shard['bfe']}/k{shard['k']}/b{shard['bound']}"
        return {"violations": [{"key": k, "what": w, "case": dict(c, seed=shard.get("seed", 0))} for k, w, c in viol],
                "counts": {"schedules": stats["executions"], "transitions": stats["executions"] * max(1, stats["max_points"])},
                "sets": {"outcomes": [f"{tag}:{hashlib.sha1(o.encode()).hexdigest()[:10]}" for o in outcomes], "explored": [tag]},
                "samples": sample}
    if shard["part"] == "free":
        return run_free(shard)
    if shard["part"] == "calib":
        return run_calib(shard)
    if shard["part"] == "legacy":
        return run_legacy(shard)
    raise KeyError(shard["part"])


# --------------------------------------------------------------------------- legacy entry point (dask.bag)

def legacy_enc(detector, a=0.0, b=0.0):
    """probe: pixel / photon are injective functions of the run's values"""
    shape = detector.geometry.shape
    detector.photon.array = np.full(shape, 1000.0 * float(a) + float(b))
    detector.pixel.array = np.arange(6, dtype=float).reshape(shape) + 100.0 * float(a) + float(b)


def _legacy_once(mode, with_dask, scheduler, nworkers, tmp):
    import dask
    import pyxel
    from pyxel.observation import Observation, ParameterValues
    from pyxel.outputs import ObservationOutputs

    s = int(os.environ.get("VERIF_SEED", "0") or 0) % 5
    ka, kb = "pipeline.photon_collection.enc.arguments.a", "pipeline.photon_collection.enc.arguments.b"
    kw = {}
    if mode == "custom":
        fn = os.path.join(tmp, "table.txt")
        with open(fn, "w") as fh:
            for a, b in ((3 + s, 10), (1 + s, 20), (2 + s, 30), (5 + s, 40)):      # (not sorted)
                fh.write(f"{a} {b}\n")
        params = [ParameterValues(key=ka, values="_"), ParameterValues(key=kb, values="_")]
        kw = dict(from_file=fn, column_range=(0, 2))
    else:
        params = [ParameterValues(key=ka, values=[3 + s, 1 + s, 2 + s]), ParameterValues(key=kb, values=[10, 20])]
    out = os.path.join(tmp, "out_" + ("par" if with_dask else "seq") + (scheduler or ""))
    obs = Observation(parameters=params, mode=mode, readout=mk.readout([1.0]), with_dask=with_dask,
                      outputs=ObservationOutputs(output_folder=out, save_data_to_file=[{"detector.pixel.array": ["npy"]}]), **kw)
    det = mk.detector("ccd", 2, 3)
    pipe = mk.pipeline({"photon_collection": [("props.c07_parallel.legacy_enc", "enc", {"a": 0.0, "b": 0.0})]})
    cfg = {"scheduler": scheduler or "synchronous"}
    if nworkers:
        cfg["num_workers"] = nworkers
    import warnings

    with warnings.catch_warnings():
        warnings.simplefilter("ignore")
        with dask.config.set(**cfg):
            res = pyxel.observation_mode(obs, det, pipe)
    ds = res.dataset
    data = {}
    for name, d in (ds.items() if isinstance(ds, dict) else [("all", ds)]):
        d = d.load()
        data[name] = {"dims": [str(x) for x in d["pixel"].dims], "pixel": np.asarray(d["pixel"].values).tolist(),
                      "coords": {str(c): np.asarray(d.coords[c].values).tolist() for c in d.coords if c not in ("y", "x")}}
    folder = str(obs.outputs.current_output_folder)
    files = {f: np.load(os.path.join(folder, f)).tolist() for f in sorted(os.listdir(folder)) if f.endswith(".npy")}
    return {"data": data, "files": files}


def run_legacy(shard):
    """pyxel.observation_mode(with_dask=True) (runs mapped over a dask bag) versus its own sequential execution: the same
    data under the same labels and the same files (name -> content), under every scheduler"""
    mode = shard["mode"]
    viol, outcomes, n = [], set(), 0
    tmp = tempfile.mkdtemp(prefix="vp_c07l_")
    try:
        try:
            ref = _legacy_once(mode, False, None, None, tmp)
        except Exception as e:  # noqa: BLE001
            return {"violations": [{"key": {"part": "legacy", "mode": mode, "code": "sequential-raised"},
                                    "what": f"[legacy {mode}] the sequential execution raised {type(e).__name__}: {str(e)[:200]}",
                                    "case": dict(shard)}],
                    "counts": {"free_runs": 1}, "sets": {"outcomes": []}, "samples": []}
        if len(ref["files"]) < 3:
            raise RuntimeError(f"vacuous legacy harness: {len(ref['files'])} files written by the sequential execution")
        for sch, nw in (("synchronous", None), ("threads", 2), ("threads", 8), ("processes", 2)):
            n += 1
            try:
                got = _legacy_once(mode, True, sch, nw, tmp)
            except Exception as e:  # noqa: BLE001
                viol.append({"key": {"part": "legacy", "mode": mode, "scheduler": sch, "code": "raised"},
                             "what": f"[legacy {mode}] parallel execution under {sch}({nw}) raised {type(e).__name__}: {str(e)[:200]}",
                             "case": dict(shard)})
                break
            outcomes.add(hashlib.sha1(json.dumps(got, sort_keys=True).encode()).hexdigest()[:12])
            if got["data"] != ref["data"]:
                viol.append({"key": {"part": "legacy", "mode": mode, "scheduler": sch, "code": "values"},
                             "what": f"[legacy {mode}] the parallel result under {sch}({nw}) differs from the sequential one",
                             "case": dict(shard)})
                break
            if got["files"] != ref["files"]:
                diff = [f for f in sorted(set(got["files"]) | set(ref["files"])) if got["files"].get(f) != ref["files"].get(f)]
                viol.append({"key": {"part": "legacy", "mode": mode, "scheduler": sch, "code": "files"},
                             "what": f"[legacy {mode}] files written under {sch}({nw}) differ from those of the sequential "
                                     f"execution: {diff[:4]} (e.g. {diff[0]}: parallel {got['files'].get(diff[0])} / sequential "
                                     f"{ref['files'].get(diff[0])})", "case": dict(shard)})
                break
    finally:
        shutil.rmtree(tmp, ignore_errors=True)
    return {"violations": viol, "counts": {"free_runs": n}, "sets": {"outcomes": [f"legacy/{mode}:{o}" for o in outcomes]},
            "samples": []}


# --------------------------------------------------------------------------- free running

def run_free_once(hname, scheduler, nworkers):
    import dask
    import pyxel
    import sys

    h = HARNESSES[hname]
    tmp = tempfile.mkdtemp(prefix="vp_c07_")
    old = sys.getswitchinterval()
    try:
        probes.reset()
        probes.HOOK = None
        obs, det, pipe = build(h, True, tmp)
        res = pyxel.run_mode(obs, det, pipe, with_inherited_coords=True)
        arrs = _bucket_arrays(res)
        names = sorted(arrs)
        sys.setswitchinterval(1e-6)
        kw = {"scheduler": scheduler}
        if nworkers:
            kw["num_workers"] = nworkers
        with dask.config.set(**kw):
            vals = dask.compute(*[arrs[n] for n in names])
        return canon_result(dict(zip(names, vals)))
    finally:
        sys.setswitchinterval(old)
        shutil.rmtree(tmp, ignore_errors=True)


def run_free(shard):
    hname = shard["h"]
    ref, _ = run_sequential(HARNESSES[hname])
    viol, n = [], 0
    configs = [("synchronous", None), ("threads", 2), ("threads", 4), ("threads", 16)]
    if hname in ("det3", "enflag", "wdfile"):
        configs.append(("processes", 2))
    reps = 3 if shard.get("tier") == "quick" else 10
    outcomes = set()
    for sch, nw in configs:
        for r in range(reps if sch == "threads" else 1):
            n += 1
            raised = False
            try:
                got = run_free_once(hname, sch, nw)
                msgs = diff_results(ref, got)
            except Exception as e:  # noqa: BLE001
                msgs = [f"raised {type(e).__name__}: {e}"]
                got = {"error": str(e)}
                raised = True
            outcomes.add(hashlib.sha1(json.dumps(got, sort_keys=True).encode()).hexdigest()[:12])
            if msgs:
                code = "raised" if raised else ("structure" if any("structure" in m or "missing" in m for m in msgs) else "values")
                hh = HARNESSES[hname]
                key = {"part": "free", "pipeline": hh["pipe"], "mode": hh["mode"], "scheduler": sch, "code": code}
                viol.append({"key": key, "what": f"[{hname}] free-running {sch}({nw}) differs from sequential: {msgs[:3]}",
                             "case": {"part": "free", "h": hname, "scheduler": sch, "workers": nw, "seed": shard.get("seed", 0)}})
                break
    return {"violations": viol, "counts": {"free_runs": n}, "sets": {"outcomes": [f"free/{hname}:{o}" for o in outcomes]},
            "samples": []}


# --------------------------------------------------------------------------- calibration

def cal_probe(detector, a=0.0, b=0.0):
    if probes.HOOK:
        probes.HOOK("model.in:cal")
    shape = detector.geometry.shape
    base = np.arange(shape[0] * shape[1], dtype=float).reshape(shape)
    detector.pixel.array = float(a) * base + float(b)


def run_calibration(scheduler, nworkers, islands=2, order=None, seed=3):
    """One small deterministic calibration; returns canonical outcome (champions + best decisions)."""
    import dask
    import pyxel
    from pyxel.observation import ParameterValues
    from pyxel.pipelines import Processor  # noqa: F401

    from vp import calib

    tmp = tempfile.mkdtemp(prefix="vp_c07c_")
    try:
        tgt = os.path.join(tmp, "t.npy")
        np.save(tgt, 2.0 * np.arange(6, dtype=float).reshape(2, 3) + 1.0)
        det = mk.detector("ccd", 2, 3)
        pipe = mk.pipeline({"charge_collection": [("props.c07_parallel.cal_probe", "cp", {"a": 1.0, "b": 0.0})]})
        cal = calib.calibration([tgt], [ParameterValues(key="pipeline.charge_collection.cp.arguments.a", values="_",
                                                        boundaries=(0.0, 5.0)),
                                        ParameterValues(key="pipeline.charge_collection.cp.arguments.b", values="_",
                                                        boundaries=(0.0, 5.0))],
                                generations=2, population_size=8, pygmo_seed=seed, num_islands=islands, num_evolutions=2,
                                num_best_decisions=3, topology="unconnected")
        kw = {"scheduler": scheduler}
        if nworkers:
            kw["num_workers"] = nworkers
        restore = None
        if order is not None:
            restore = _patch_island_pool(order)
        try:
            with dask.config.set(**kw):
                res = pyxel.run_mode(cal, det, pipe, with_inherited_coords=True)
                out = {}
                for node in res.subtree:
                    if node.name in ("champion", "best"):
                        for vname, v in node.data_vars.items():
                            out[f"{node.name}/{vname}"] = np.asarray(v.values).round(12).tolist()
                if len(out) < 4:
                    raise RuntimeError(f"vacuous calibration harness: result exposes only {sorted(out)}")
        finally:
            if restore:
                restore()
        return out
    finally:
        shutil.rmtree(tmp, ignore_errors=True)


def _patch_island_pool(order):
    """Replace the ThreadPoolExecutor used for island creation by one that *executes* the creation calls in the
    given order (completion order of the pool is an explorer choice) while map() still yields in submission order."""
    import pyxel.calibration.archipelago_datatree as ad

    orig = ad.ThreadPoolExecutor

    class OrderedPool:
        """Real threads, but the k-th submitted call may only *run* when all calls placed before it in `order` have
        completed: the completion order of the pool is exactly `order` (a legal schedule of a thread pool)."""

        def __init__(self, max_workers=None):
            import threading

            self._n = 0
            self._done = {}
            self._cv = threading.Condition()
            self._threads = []

        def __enter__(self):
            return self

        def __exit__(self, *a):
            for t in self._threads:
                t.join()
            return False

        def submit(self, fn, *a, **k):
            import threading
            from concurrent.futures import Future

            idx = self._n
            self._n += 1
            fut = Future()
            rank = order.index(idx) if idx in order else len(order) + idx
            before = [j for j in order[:rank]] if idx in order else list(order)

            def body():
                with self._cv:
                    self._cv.wait_for(lambda: all(j in self._done for j in before), timeout=120)
                try:
                    fut.set_result(fn(*a, **k))
                except BaseException as e:  # noqa: BLE001
                    fut.set_exception(e)
                with self._cv:
                    self._done[idx] = True
                    self._cv.notify_all()

            t = threading.Thread(target=body, daemon=True)
            self._threads.append(t)
            t.start()
            return fut

        def map(self, fn, *iterables):
            futs = [self.submit(fn, *args) for args in zip(*iterables)]

            def gen():
                for f in futs:
                    yield f.result()

            return gen()

    ad.ThreadPoolExecutor = OrderedPool

    def restore():
        ad.ThreadPoolExecutor = orig

    return restore


def run_calib(shard):
    viol, n = [], 0
    outcomes = set()
    ref = run_calibration("synchronous", None, islands=2)
    configs = [("threads", 1, None), ("threads", 2, None), ("threads", 4, None), ("synchronous", None, [1, 0]),
               ("threads", 2, [1, 0]), ("processes", 2, None)]     # processes: evolved algorithm objects travel by pickle
    if shard.get("tier") == "thorough":
        configs += [("threads", 16, None), ("processes", 4, None)]
    for sch, nw, order in configs:
        n += 1
        try:
            got = run_calibration(sch, nw, islands=2, order=order)
        except Exception as e:  # noqa: BLE001
            got = {"error": f"{type(e).__name__}: {e}"}
        outcomes.add(hashlib.sha1(json.dumps(got, sort_keys=True).encode()).hexdigest()[:12])
        if got != ref:
            diffs = [k for k in set(ref) | set(got) if ref.get(k) != got.get(k)]
            key = {"part": "calib", "scheduler": sch, "order": "permuted" if order else "default", "code": "outcome"}
            viol.append({"key": key, "what": f"calibration outcome under {sch}({nw}), island creation order {order} differs "
                                            f"from the synchronous run in {diffs}: {json.dumps(got)[:300]}",
                         "case": {"part": "calib", "scheduler": sch, "workers": nw, "order": order,
                                  "seed": shard.get("seed", 0)}})
    if shard.get("tier") == "thorough":
        ref3 = run_calibration("synchronous", None, islands=3)
        for order in itertools.permutations(range(3)):
            n += 1
            got = run_calibration("synchronous", None, islands=3, order=list(order))
            outcomes.add(hashlib.sha1(json.dumps(got, sort_keys=True).encode()).hexdigest()[:12])
            if got != ref3:
                key = {"part": "calib", "scheduler": "synchronous", "order": "permuted", "code": "outcome"}
                viol.append({"key": key, "what": f"3-island calibration differs for island creation order {order}",
                             "case": {"part": "calib3", "order": list(order), "seed": shard.get("seed", 0)}})
    return {"violations": viol, "counts": {"calibrations": n + 1},
            "sets": {"outcomes": [f"calib:{o}" for o in outcomes]}, "samples": []}


# --------------------------------------------------------------------------- batch fitness evaluation (DaskBFE)

def _is_fitness_task(key):
    name = key[0] if isinstance(key, tuple) else key
    return isinstance(name, str) and "vectorize_fitness" in name and not name.startswith("reshape")


BFE = {"det": dict(model=("props.c07_parallel.cal_probe", {"a": 1.0, "b": 0.0}), seed=None),
       # two processors per candidate (an input argument with two values + two target files)
       "det2": dict(model=("props.c07_parallel.cal_probe", {"a": 1.0, "b": 0.0}), seed=None, inputs=[0.0, 2.0]),
       "noisy": dict(model=("vp.probes.noisy", {"a": 1.0, "sigma": 1.0}), seed=11)}


def bfe_setup(name, tmp):
    import pygmo as pg
    from pyxel.observation import ParameterValues
    from pyxel.pipelines import Processor

    from vp import calib

    cfg = BFE[name]
    tgt = os.path.join(tmp, "t.npy")
    np.save(tgt, np.ones((2, 3)))
    tgts = [tgt]
    kw2 = {}
    if cfg.get("inputs"):
        tgts = []
        for i, _v in enumerate(cfg["inputs"]):
            tgts.append(os.path.join(tmp, f"t{i}.npy"))
            np.save(tgts[-1], np.ones((2, 3)) * (i + 1))
        kw2["result_input_arguments"] = [ParameterValues(key="pipeline.charge_collection.m.arguments.b",
                                                         values=list(cfg["inputs"]))]
    det = mk.detector("ccd", 2, 3)
    pipe = mk.pipeline({"charge_collection": [(cfg["model"][0], "m", dict(cfg["model"][1]))]})
    kw = {"pipeline_seed": cfg["seed"]} if cfg["seed"] is not None else {}
    cal = calib.calibration(tgts, [ParameterValues(key="pipeline.charge_collection.m.arguments.a", values="_",
                                                   boundaries=(0.0, 5.0))],
                            generations=1, population_size=8, pygmo_seed=1, **kw, **kw2)
    problem, _ = calib.real_problem(cal, Processor(detector=det, pipeline=pipe))
    return problem, pg.problem(problem)


def bfe_execution(name, k, choices, expect=None):
    global SCHED
    import dask
    from pyxel.calibration import DaskBFE

    s = int(os.environ.get("VERIF_SEED", "0") or 0) % 5
    tmp = tempfile.mkdtemp(prefix="vp_c07b_")
    sched = schedx.Sched(choices, expect)
    try:
        seams.install_rng_seam()
        schedx.install_dask_queue_get(_get_sched)
        _install_lock_seam(sched)
        seams.orig_rng("seed")(4242)
        probes.HOOK = None
        seams.set_rng_hook(None)
        problem, prob = bfe_setup(name, tmp)
        dvs = np.array([0.5 + s, 1.5, 2.5])
        ref = [float(problem.fitness(np.array([d]))[0]) for d in dvs]
        arr = DaskBFE(chunk_size=1)(prob, dvs)
        probes.HOOK = sched.point
        seams.set_rng_hook(sched.point)
        SCHED = sched
        try:
            ex = schedx.ControlledExecutor(sched, k, controlled=_is_fitness_task)
            with dask.config.set(scheduler="threads", pool=ex, num_workers=k):
                got = [float(x) for x in arr.compute()]
            if ex.n_controlled < 2:
                raise RuntimeError(f"vacuous harness: {ex.n_controlled} controlled fitness tasks")
        finally:
            SCHED = None
            probes.HOOK = None
            seams.set_rng_hook(None)
        return {"ref": ref, "got": got}, sched.log
    finally:
        _remove_lock_seam()
        shutil.rmtree(tmp, ignore_errors=True)


def explore_bfe(name, k, bound):
    viol, outcomes, stats, sample = {}, set(), {"executions": 0, "max_points": 0}, []

    def on_exec(ch, out, log):
        stats["executions"] += 1
        stats["max_points"] = max(stats["max_points"], len(log))
        outcomes.add(json.dumps(out["got"]))
        if not sample:
            sample.append({"bfe": name, "pool": k, "choices": ch, "labels": [e[1][0][1] for e in log][:30]})
        if out["got"] != out["ref"]:
            npre = schedx.preemptions(log, ch, len(ch))
            key = {"part": "bfe", "pipeline": name, "code": "fitness", "preemptions": (">=2" if npre >= 2 else npre)}
            viol.setdefault(json.dumps(key, sort_keys=True),
                            (key, f"[bfe {name}, pool {k}] batch fitness {out['got']} != sequential {out['ref']} under "
                                  f"schedule {ch}", {"part": "bfe", "bfe": name, "k": k, "choices": ch}))

    schedx.explore(lambda ch, ex: bfe_execution(name, k, ch, ex), bound, on_exec=on_exec)
    return stats, outcomes, list(viol.values()), sample


# --------------------------------------------------------------------------- replay / coverage

def replay(case):
    os.environ["VERIF_SEED"] = str(case.get("seed", 0))
    part = case["part"]
    if part == "sched":
        hname, k = case["h"], case["k"]
        h = HARNESSES[hname]
        ref, ref_files = run_sequential(h)
        first, log1 = run_controlled(h, k, case["choices"], None)
        second, log2 = run_controlled(h, k, case["choices"], [e[1] for e in log1])
        if first != second:
            raise RuntimeError("the same schedule gave two different observations - nondeterminism not owned")
        npre = schedx.preemptions(log1, case["choices"], len(case["choices"]))
        pre = ">=2" if npre >= 2 else npre
        out = []
        if "error" in first:
            out.append({"key": _key(hname, "raised", preemptions=min(npre, 2)), "what": first["error"], "case": case})
            return out
        msgs = diff_results(ref, first["result"])
        if msgs:
            code = "structure" if any("structure" in m or "missing" in m or "only in" in m for m in msgs) else "values"
            out.append({"key": _key(hname, code, preemptions=pre),
                        "what": f"[{hname}, pool {k}] schedule {case['choices']}: {msgs[:3]}", "case": case})
        if h.get("outputs"):
            fm = _files_msgs(ref_files, first["files"])
            if fm:
                out.append({"key": _key(hname, "files", preemptions=pre), "what": fm, "case": case})
        return out
    if part == "bfe":
        o1, log1 = bfe_execution(case["bfe"], case["k"], case["choices"], None)
        o2, _ = bfe_execution(case["bfe"], case["k"], case["choices"], [e[1] for e in log1])
        if o1 != o2:
            raise RuntimeError("the same schedule gave two different observations")
        if o1["got"] != o1["ref"]:
            npre = schedx.preemptions(log1, case["choices"], len(case["choices"]))
            return [{"key": {"part": "bfe", "pipeline": case["bfe"], "code": "fitness",
                             "preemptions": (">=2" if npre >= 2 else npre)},
                     "what": f"batch fitness {o1['got']} != sequential {o1['ref']}", "case": case}]
        return []
    if part == "free":
        for _ in range(30):
            r = run_free({"h": case["h"], "seed": case.get("seed", 0), "tier": "quick"})
            vs = [v for v in r["violations"] if v["key"]["scheduler"] == case["scheduler"]]
            if vs:
                return vs
        return []
    if part == "legacy":
        return run_legacy(case)["violations"]
    if part in ("calib", "calib3"):
        r = run_calib({"seed": case.get("seed", 0), "tier": "thorough" if part == "calib3" else "quick"})
        return r["violations"]
    raise KeyError(part)


def coverage(tier, seed, agg):
    c, s = agg["counts"], agg["sets"]
    per = {}
    for o in s.get("outcomes", []):
        tag = o.rsplit(":", 1)[0]
        per[tag] = per.get(tag, 0) + 1
    return {
        "states": len(s.get("outcomes", [])),
        "transitions": c.get("transitions", 0),
        "schedules": c.get("schedules", 0),
        "traces_validated_against_impl": c.get("schedules", 0) + c.get("free_runs", 0) + c.get("calibrations", 0),
        "free_running_runs": c.get("free_runs", 0),
        "calibrations": c.get("calibrations", 0),
        "explored": sorted(s.get("explored", [])),
        "distinct_outcomes_per_harness": per,
        "bound": "harness/k<pool size>/b<preemption bound completed>; b0 with atomic tasks = all start orders",
        "exhaustive": True,
        "rule": "every choice sequence of the controlled scheduler within the preemption bound is executed on the real "
                "dask path; 'states' counts distinct observed outcomes (result bytes per label + files)",
    }
