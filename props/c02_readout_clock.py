"""C02 - readout clock and per-step bucket lifecycle (destructive / non-destructive).

Bounded exhaustive enumeration (vp.cfgx) of readout schedules (every increasing subsequence of a 5-point grid, 3
start times, every way of giving them: list / tuple / scalar / text / numpy expression / .npy / .txt / YAML /
setters / Readout.replace), of schedules that are not valid, of all setter sequences up to length 3, of the write
pattern of the per-step writer (all subsets of 7 bucket kinds) and of the prior history of the detector.  Every case
is executed through pyxel.run_mode with an observer probe placed first and last in the pipeline; the recorded
clock / bucket states are compared with a lifecycle automaton written from the property statement.
"""
from __future__ import annotations

import itertools
import math
import os
import shutil
import tempfile

import numpy as np

from vp import cfgx, mk
from vp import exp_util as U

ID = "C02"
LEVEL = "exploration"
ENGINE = "cfgx+seqx"
TIMEOUT = 1200
NSHARDS = 64
ENV = {"NUMBA_DISABLE_JIT": "1"}      # Charge with clusters recompiles a numba kernel per read otherwise
TECHNIQUE = ("bounded exhaustive enumeration of readout schedules x representations x entry points x modes x write "
             "patterns x detector histories, plus all setter sequences up to length 3, each executed through "
             "pyxel.run_mode with first/last observer probe models; observed clock and bucket states compared with a "
             "lifecycle automaton (reference model)")
LEVEL_TEXT = ("Every non-empty increasing subsequence of the time grid {0.5,1,2,3,5} (31 schedules) plus negative-time "
              "schedules, with start times {0,0.25,-1}, given as list/tuple/int list/scalar/text/numpy expression/"
              ".npy/.txt/YAML/ndarray through the constructor, the setters and Readout.replace, in destructive and "
              "non-destructive mode; every subset of the 7 bucket kinds as write pattern and 4 detector histories "
              "(fresh, after a complete run, after a failed run, manually pre-filled) on the real CCD (and "
              "CMOS/MKID/APD for a sub-family), also with the pattern in even and its complement in odd steps; 31 invalid schedules of 10 classes (empty, zero first, zero later, equal, decreasing, start >= first, "
              "negative, NaN, NaN start, 2-D) in every representation through every entry point (704 cases); all sequences of "
              "<=3 setter operations over an alphabet of 12.  For each run the probe trace must equal the "
              "automaton's prediction: number and order of steps, (time, time_step, absolute_time, counter, "
              "first/last flags) in every model call, emptiness of scene/photon/charge/signal/image and the "
              "zero/kept pixel array at the start of every step; invalid schedules must raise before any model call."
              " Family O runs observations (sequential and parallel) whose swept parameter is the readout itself (times, start time, destructive mode): every run must follow the clock and bucket lifecycle of its own readout.")
LEVEL_NOTE = ("Bounded: 5-point dyadic time grid (all clock values exact), <=5 readouts, 2x3 detector, the value "
              "palette of the writer probe. Probe models stand in for real models (the clock/lifecycle code does not "
              "look inside a model). The processed-data container (detector.data) is not part of the statement and is "
              "not judged. Trusted: the 40-line reference automaton and numpy for evaluating numpy expressions.")
DESIGN_REF = "DESIGN.md section 4, C02"
RULE = ("cases = L (31 schedules x 2 modes x write patterns x histories) + A (pattern in even / complement in odd "
        "steps) + D (detector kinds) + R (31 schedules x "
        "representations x entry points x start times) + X (numpy arange/linspace expressions, negative-time "
        "schedules) + I (invalid schedules x representations x entry points) + S (all setter sequences up to length "
        "3); every case runs the real exposure; non-trivial = at least one readout step or one rejection was "
        "observed; distinct = distinct (predicted clock, observed bucket-state pattern, rejection stage) signatures")
ASSUMPTIONS = [
    "time values are dyadic rationals so that every clock value is exact in binary floating point",
    "a schedule is 'valid' iff it is a non-empty 1-D sequence of numbers, none zero, strictly increasing, all greater "
    "than the start time (NaN compares false, hence is not valid)",
    "when both `times` and `times_from_file` are given the statement does not say which schedule is meant: only the "
    "case where both are invalid is judged",
    "after a setter raised, the setter sequence is not continued (the statement does not define the state then)",
    "detector.data (processed data) surviving between steps and runs is not judged",
]

GRID = [0.5, 1.0, 2.0, 3.0, 5.0]
SCHEDULES = [list(c) for k in range(1, 6) for c in itertools.combinations(GRID, k)]       # 31
EXTREME = [([1_000_000.0, 1_000_001.0, 1_000_002.0, 1_000_003.0], 0.0),
           ([86400.0, 86400.25, 86400.5, 86401.0], 86399.0),
           ([2e-9, 4e-9, 6e-9], 0.0), ([1e-12, 1.5e-12, 1e-9], 0.0), ([1e15, 1e15 + 2.0, 1e15 + 4.0], 1.0)]
ITEMS = ["scene", "photon", "charge_array", "charge_clusters", "pixel", "signal", "image"]
HISTORIES = ["fresh", "full", "failed", "prefilled", "twin"]
ROWS, COLS = 2, 3


def _seed():
    return int(os.environ.get("VERIF_SEED", "0") or 0)


# ------------------------------------------------------------------ reference model

def _num(x):
    return math.nan if x == "nan" else x


def decode(times):
    """case encoding -> python value ('nan' strings -> float nan), nested lists kept"""
    if isinstance(times, list):
        return [decode(t) for t in times]
    return _num(times)


def is_valid(times, start) -> bool:
    """The statement: strictly increasing, non-zero times later than the start time."""
    if not isinstance(times, list) or len(times) == 0:
        return False
    if any(isinstance(t, list) or isinstance(t, bool) for t in times):
        return False
    ts = [float(t) for t in times]
    s = float(start)
    return (all(t != 0 for t in ts) and all(b > a for a, b in zip(ts, ts[1:])) and all(t > s for t in ts))


def predict_clock(times, start):
    out, prev = [], float(start)
    n = len(times)
    for i, t in enumerate(times):
        t = float(t)
        out.append({"step": i, "time": t, "time_step": t - prev, "absolute_time": float(start) + t,
                    "is_first": i == 0, "is_last": i == n - 1, "num_steps": n})
        prev = t
    return out


# ------------------------------------------------------------------ enumeration

def _pattern_spec(items, inf=False):
    spec = {}
    for it in items:
        if it == "scene":
            spec["scene"] = True
        elif it == "photon":
            spec["photon"] = {}
        elif it in ("charge_array", "charge_clusters"):
            both = "charge_array" in items and "charge_clusters" in items
            spec["charge"] = {"how": "both" if both else it.split("_")[1]}
        elif it == "pixel":
            spec["pixel"] = {"acc": True, "inf": bool(inf)}     # inf: one pixel saturates to +infinity
        elif it == "signal":
            spec["signal"] = {}
        elif it == "image":
            spec["image"] = {}
    return spec


def _ints(times):
    return all(float(t).is_integer() for t in times)


def _reps_for(times):
    reps = ["list", "tuple", "strlist", "nparray_str", "npy", "txt", "ndarray", "npy_row", "txt_line"]
    if _ints(times):
        reps.append("intlist")
    if len(times) == 1:
        reps.append("scalar")
    return reps


EXPRESSIONS = [
    "numpy.arange(1, 4)", "numpy.arange(1, 6, 2)", "numpy.arange(0.5, 3, 0.5)", "numpy.arange(2, 3)",
    "numpy.linspace(1, 5, 3)", "numpy.linspace(0.5, 2.5, 5)", "numpy.linspace(1, 3, 3)", "numpy.linspace(2, 2, 1)",
    "numpy.array([1, 2, 3]) * 0.5", "numpy.cumsum(numpy.array([0.5, 0.5, 1, 1, 2]))",
    "[0.5 * k for k in range(1, 4)]", "(1, 2, 3)", "range(1, 4)",
]
# schedules with negative times that are valid by the statement
NEG_VALID = [([-3.0, -2.0], -5.0), ([-1.0, 1.0], -2.0), ([-0.5], -1.0), ([-2.0, -1.0, 1.0, 2.0], -2.5)]

# invalid schedules: (class, times, start)
INVALID = [
    ("empty", [], 0.0),
    ("zero-first", [0.0], 0.0), ("zero-first", [0.0, 1.0], 0.0), ("zero-first", [0.0, 1.0], -1.0),
    ("equal", [1.0, 1.0], 0.0), ("equal", [1.0, 2.0, 2.0], 0.0), ("equal", [0.5, 0.5, 1.0], 0.25),
    ("decreasing", [2.0, 1.0], 0.0), ("decreasing", [1.0, 3.0, 2.0], 0.0), ("decreasing", [3.0, 2.0, 1.0], 0.0),
    ("decreasing", [1.0, 2.0, 3.0, 5.0, 4.0], 0.0),
    ("start-ge-first", [1.0, 2.0], 1.0), ("start-ge-first", [1.0, 2.0], 1.5), ("start-ge-first", [0.5], 5.0),
    ("start-ge-first", [2.0, 3.0, 5.0], 6.0),
    ("negative", [-1.0], 0.0), ("negative", [-2.0, -1.0], 0.0), ("negative", [-1.0, 1.0], 0.0),
    ("negative", [-3.0, -2.0], -3.0),
    ("zero-later", [-1.0, 0.0, 1.0], -2.0), ("zero-later", [-1.0, 0.0], -2.0), ("zero-later", [-2.0, -1.0, 0.0], -3.0),
    ("nan", ["nan"], 0.0), ("nan", ["nan", 1.0], 0.0), ("nan", [1.0, "nan"], 0.0), ("nan", [1.0, "nan", 3.0], 0.0),
    ("nan-start", [1.0, 2.0], "nan"), ("nan-start", [1.0], "nan"),
    ("2d", [[1.0, 2.0], [3.0, 4.0]], 0.0), ("2d", [[1.0, 2.0]], 0.0), ("2d", [[1.0], [2.0]], 0.0),
]


def _invalid_reps(times):
    flat = not any(isinstance(t, list) for t in times)
    has_nan = any(t == "nan" for t in (times if flat else []))
    reps = ["list", "tuple", "ndarray"]
    if flat:
        reps += ["npy", "nparray_str"]
        if not has_nan:
            reps += ["strlist"]
        if times:
            reps += ["txt"]
        if len(times) == 1:
            reps += ["scalar"]
        if times and not has_nan and _ints(times):
            reps += ["intlist"]
    else:
        reps += ["strlist", "nparray_str"]
    return reps


def _allowed(entry, rep):
    if entry == "setter" and rep in ("strlist", "nparray_str", "npy", "txt", "npy_row", "txt_line"):
        return False              # the setter takes numbers / sequences / arrays only
    if entry == "yaml" and rep in ("tuple", "ndarray"):
        return False              # no such YAML form
    if entry == "replace" and rep in ("npy", "txt", "npy_row", "txt_line"):
        return False              # replace() keeps `times`; giving a file as well is not a defined request
    return True


ENTRIES = ("ctor", "setter", "replace", "yaml")


SETTER_OPS = [
    ["times", [1.0, 2.0]], ["times", [0.5]], ["times", [2.0, 3.0, 5.0]], ["times", [3.0, 2.0]], ["times", [0.0, 1.0]],
    ["times", [1.0, 1.0]], ["times", [-1.0, 0.0, 1.0]],
    ["start", 0.25], ["start", 1.5], ["start", -2.0], ["start", 6.0],
    ["nd", "toggle"],
]


def enumerate_cases(tier, seed):
    thorough = tier == "thorough"
    cases = []
    # ---- L: lifecycle
    if thorough:
        patterns = cfgx.subsets(ITEMS)                                   # 128
        hist = HISTORIES
    else:
        patterns = [[]] + [[i] for i in ITEMS] + [list(ITEMS)] + [["photon", "pixel", "image"]]
        hist = ["fresh", "full"]
    for si, times in enumerate(SCHEDULES):
        for nd in (False, True):
            for pi, pat in enumerate(patterns):
                for h in hist:
                    start = [0.0, 0.25, -1.0][(si + pi) % 3]
                    cases.append({"fam": "L", "times": times, "start": start, "nd": nd, "pattern": pat, "history": h,
                                  "det": "ccd", "entry": "ctor", "rep": "list", "inf": bool((si + pi) % 2)})
    # schedules at extreme time scales (fine sampling late in a long run, nanosecond exposures): the clock and the
    # first / last flags follow the step counter, not the magnitude of the times
    for times, start in EXTREME:
        for nd in (False, True):
            for api in ("run_mode", "deprecated"):
                cases.append({"fam": "L", "times": times, "start": start, "nd": nd, "pattern": ["pixel"], "history": "fresh",
                              "det": "ccd", "entry": "ctor", "rep": "list", **({"api": api} if api == "deprecated" else {})})
    # the legacy entry point pyxel.exposure_mode on the same lifecycle cases (reduced product)
    for si, times in enumerate(SCHEDULES):
        for nd in (False, True):
            for h in (("fresh", "full", "prefilled") if thorough else ("fresh", "full")):
                cases.append({"fam": "L", "times": times, "start": [0.0, 0.25, -1.0][si % 3], "nd": nd,
                              "pattern": list(ITEMS) if si % 2 else ["pixel"], "history": h, "det": "ccd",
                              "entry": "ctor", "rep": "list", "api": "deprecated"})
    if not thorough:       # the two other histories on a reduced product
        for si, times in enumerate(SCHEDULES):
            for nd in (False, True):
                for h in ("failed", "prefilled", "twin"):
                    cases.append({"fam": "L", "times": times, "start": [0.0, 0.25, -1.0][si % 3], "nd": nd,
                                  "pattern": list(ITEMS) if si % 2 else ["pixel"], "history": h, "det": "ccd",
                                  "entry": "ctor", "rep": "list"})
    # ---- A: a different write pattern in odd steps (pattern / complement)
    a_pats = patterns if thorough else [[]] + [[i] for i in ITEMS] + [list(ITEMS)]
    a_scheds = [[1.0, 2.0], [0.5, 2.0, 3.0], [0.5, 1.0, 2.0, 3.0, 5.0]] if thorough else [[1.0, 2.0], [0.5, 2.0, 3.0]]
    for times in a_scheds:
        for nd in (False, True):
            for pat in a_pats:
                cases.append({"fam": "A", "times": times, "start": 0.25, "nd": nd, "pattern": pat,
                              "pattern_odd": [i for i in ITEMS if i not in pat], "history": "fresh", "det": "ccd",
                              "entry": "ctor", "rep": "list"})
    # ---- D: other detector kinds
    for det in ("cmos", "mkid", "apd"):
        for times in ([1.0], [0.5, 2.0], [1.0, 2.0, 3.0], [0.5, 1.0, 2.0, 3.0, 5.0]):
            for nd in (False, True):
                for h in HISTORIES:
                    for pat in ([], list(ITEMS)):
                        cases.append({"fam": "D", "times": times, "start": 0.25, "nd": nd, "pattern": pat, "history": h,
                                      "det": det, "entry": "ctor", "rep": "list"})
    # ---- R: representations x entry points
    starts = [0.0, 0.25, -1.0]
    for si, times in enumerate(SCHEDULES):
        for rep in _reps_for(times):
            for entry in ENTRIES:
                if not _allowed(entry, rep):
                    continue
                for sti, start in enumerate(starts):
                    if not thorough and (si + sti) % 3:
                        continue
                    nd = bool((si + sti + len(rep)) % 2)
                    cases.append({"fam": "R", "times": times, "start": start, "nd": nd, "pattern": ["pixel"],
                                  "history": "fresh", "det": "ccd", "entry": entry, "rep": rep})
        # keeping the times in Readout.replace (only another field is replaced)
        for nd in (False, True):
            cases.append({"fam": "R", "times": times, "start": 0.25, "nd": nd, "pattern": ["pixel"], "history": "fresh",
                          "det": "ccd", "entry": "replace-keep", "rep": "list"})
    cases.append({"fam": "R", "times": [1.0], "start": 0.0, "nd": False, "pattern": ["pixel"], "history": "fresh",
                  "det": "ccd", "entry": "ctor", "rep": "default"})
    # ---- O: observations whose swept parameter is the readout itself (times / start time / mode), sequential and
    #         parallel execution: every run's models see the clock and the bucket lifecycle of THAT run's readout
    for key in ("times", "start_time", "non_destructive"):
        for ex in ("seq", "dask"):
            for base_nd in (False, True):
                for det in (("ccd", "cmos") if key == "non_destructive" else ("ccd",)):
                    cases.append({"fam": "O", "key": key, "exec": ex, "nd": base_nd, "det": det, "times": [1.0, 2.0, 4.0],
                                  "start": 0.25, "pattern": ["pixel"], "history": "fresh", "entry": "obs", "rep": "list"})
    # ---- X: expressions and negative-time schedules
    for expr in EXPRESSIONS:
        for entry in ("ctor", "yaml", "replace"):
            for start in (0.0, 0.25):
                cases.append({"fam": "X", "expr": expr, "start": start, "nd": start > 0, "pattern": ["pixel"],
                              "history": "fresh", "det": "ccd", "entry": entry, "rep": "expr"})
    for times, start in NEG_VALID:
        for entry in ENTRIES:
            for rep in ("list", "npy", "nparray_str"):
                if not _allowed(entry, rep):
                    continue
                for nd in (False, True):
                    cases.append({"fam": "X", "times": times, "start": start, "nd": nd, "pattern": ["pixel", "photon"],
                                  "history": "full", "det": "ccd", "entry": entry, "rep": rep})
    # ---- I: invalid schedules
    for why, times, start in INVALID:
        for rep in _invalid_reps(times):
            for entry in ENTRIES:
                if not _allowed(entry, rep):
                    continue
                cases.append({"fam": "I", "why": why, "times": times, "start": start, "nd": len(times) % 2 == 0,
                              "pattern": [], "history": "fresh", "det": "ccd", "entry": entry, "rep": rep})
    # both `times` and `times_from_file`, each invalid
    for t1, t2 in (([2.0, 1.0], [3.0, 1.0]), ([0.0], [0.0, 1.0]), ([1.0, 1.0], [2.0, 2.0])):
        for rep2 in ("npy", "txt"):
            cases.append({"fam": "I", "why": "both-invalid", "times": t1, "times2": t2, "start": 0.0, "nd": False,
                          "pattern": [], "history": "fresh", "det": "ccd", "entry": "ctor", "rep": "list+" + rep2})
    # ---- S: setter sequences
    depth = 3 if thorough else 2
    for k in range(1, depth + 1):
        for ops in itertools.product(range(len(SETTER_OPS)), repeat=k):
            cases.append({"fam": "S", "ops": [SETTER_OPS[i] for i in ops], "pattern": ["pixel"], "history": "fresh",
                          "det": "ccd"})
    return cases


def expected_size(tier, seed):
    thorough = tier == "thorough"
    if thorough:
        n_l = 31 * 2 * 128 * 5 + 31 * 2 * 3 + len(EXTREME) * 4
    else:
        n_l = 31 * 2 * 10 * 2 + 31 * 2 * 3 + 31 * 2 * 2 + len(EXTREME) * 4
    n_d = 3 * 4 * 2 * 5 * 2 + (3 * 2 * 128 if thorough else 2 * 2 * 9)
    n_r = 0
    for si, times in enumerate(SCHEDULES):
        for rep in _reps_for(times):
            n_entries = sum(_allowed(e, rep) for e in ENTRIES)
            n_starts = 3 if thorough else sum(1 for sti in range(3) if (si + sti) % 3 == 0)
            n_r += n_entries * n_starts
        n_r += 2
    n_r += 1
    n_x = len(EXPRESSIONS) * 3 * 2 + len(NEG_VALID) * sum(_allowed(e, r) for e in ENTRIES
                                                           for r in ("list", "npy", "nparray_str")) * 2
    n_i = 0
    for why, times, start in INVALID:
        for rep in _invalid_reps(times):
            n_i += sum(_allowed(e, rep) for e in ENTRIES)
    n_i += 6
    depth = 3 if thorough else 2
    n_s = sum(len(SETTER_OPS) ** k for k in range(1, depth + 1))
    n_o = 2 * 2 * 2 + 2 * 2 * 2 * 1           # family O: (times, start_time) x exec x mode + non_destructive x 2 detectors
    return n_l + n_d + n_r + n_x + n_i + n_s + n_o


# ------------------------------------------------------------------ construction

def _pipeline_groups(pattern, salt, pattern_odd=None, inf=False):
    """observer first (scene_generation), writer in the middle, observer last (data_processing)"""
    wargs = {"spec": _pattern_spec(pattern, inf), "salt": salt}
    if pattern_odd is not None:
        wargs["spec_odd"] = _pattern_spec(pattern_odd, inf)
    return {
        "scene_generation": [("vp.exp_util.observe", "first", {})],
        "charge_collection": [("vp.exp_util.write", "w", wargs)],
        "data_processing": [("vp.exp_util.observe", "last", {})],
    }


def _rep_value(rep, times, tmp, tag="t"):
    """python object / text / file for a schedule in the requested representation -> (kind, value)
    kind: 'times' or 'file'"""
    vals = decode(times)
    if rep == "list":
        return "times", vals
    if rep == "tuple":
        return "times", tuple(tuple(v) if isinstance(v, list) else v for v in vals)
    if rep == "intlist":
        return "times", [int(v) for v in vals]
    if rep == "scalar":
        return "times", vals[0]
    if rep == "ndarray":
        return "times", np.array(vals, dtype=float)
    if rep == "strlist":
        return "times", repr(vals)
    if rep == "nparray_str":
        txt = repr(vals).replace("nan", "numpy.nan")
        return "times", f"numpy.array({txt}, dtype=float)"
    if rep == "npy":
        p = os.path.join(tmp, f"{tag}_{_seed()}.npy")
        np.save(p, np.array(vals, dtype=float))
        return "file", p
    if rep == "npy_row":         # the times stored as one ROW of a 2-D array
        p = os.path.join(tmp, f"{tag}r_{_seed()}.npy")
        np.save(p, np.array([vals], dtype=float))
        return "file", p
    if rep == "txt_line":        # ... as one comma-separated line of a text table
        p = os.path.join(tmp, f"{tag}l_{_seed()}.csv")
        with open(p, "w") as fh:
            fh.write(",".join(repr(float(v)) for v in vals) + "\n")
        return "file", p
    if rep == "txt":
        p = os.path.join(tmp, f"{tag}_{_seed()}.txt")
        with open(p, "w") as fh:
            fh.write("".join(repr(float(v)) + "\n" for v in vals))
        return "file", p
    raise KeyError(rep)


def _yaml_text(kind, value, start, nd, pattern, salt):
    import yaml

    ro = {"non_destructive": bool(nd), "start_time": float(start)}
    if kind == "file":
        ro["times_from_file"] = value
    else:
        ro["times"] = value
    doc = {
        "exposure": {"readout": ro},
        "ccd_detector": {
            "geometry": {"row": ROWS, "col": COLS, "total_thickness": 10.0, "pixel_vert_size": 2.0,
                         "pixel_horz_size": 0.5},
            "environment": {"temperature": 100.0},
            "characteristics": {"quantum_efficiency": 0.5, "charge_to_volt_conversion": 1e-3,
                                "pre_amplification": 4.0, "full_well_capacity": 1000, "adc_bit_resolution": 16,
                                "adc_voltage_range": [0.0, 8.0]},
        },
        "pipeline": {g: [{"name": n, "func": f, "enabled": True, "arguments": a} for f, n, a in lst]
                     for g, lst in _pipeline_groups(pattern, salt).items()},
    }
    return yaml.safe_dump(doc, sort_keys=False)


BASE_TIMES = [1.0, 2.0, 4.0]


def build_readout(case, tmp):
    """-> Readout built through the requested entry point (may raise)."""
    from pyxel.exposure import Readout

    entry, rep = case["entry"], case["rep"]
    start, nd = _num(case["start"]), bool(case["nd"])
    if rep == "default":
        return Readout()
    if rep == "expr":
        kind, value = "times", case["expr"]
    elif rep.startswith("list+"):
        _, f2 = _rep_value(rep.split("+")[1], case["times2"], tmp, "t2")
        return Readout(times=decode(case["times"]), times_from_file=f2, start_time=start, non_destructive=nd)
    else:
        kind, value = _rep_value(rep, case["times"], tmp)
    kw = {"times_from_file": value} if kind == "file" else {"times": value}
    if entry == "ctor":
        return Readout(start_time=start, non_destructive=nd, **kw)
    if entry == "replace":
        base = Readout(times=[1.0], start_time=0.0, non_destructive=not nd)
        return base.replace(start_time=start, non_destructive=nd, **kw)
    if entry == "replace-keep":
        base = Readout(start_time=start, non_destructive=not nd, **kw)
        return base.replace(non_destructive=nd)
    if entry == "setter":
        r = Readout(times=list(BASE_TIMES), start_time=0.0, non_destructive=not nd)
        r.non_destructive = nd
        if not (start > 0.0):          # lowering the start first keeps every intermediate state valid
            r.start_time = start
            r.times = value
        else:
            r.times = value
            r.start_time = start
        return r
    raise KeyError(entry)


def make_history(det, history, salt, case=None):
    """Bring the detector into the requested prior state (runs real exposures).
    "twin": the preparatory run uses the SAME times and start time as the run under test, only the
    destructive / non-destructive flag differs."""
    import pyxel

    if history == "fresh":
        return
    if history == "prefilled":
        shape = (det.geometry.row, det.geometry.col)
        det.photon.array = U.value_for("photon", 3, shape, salt)
        px = U.value_for("pixel", 3, shape, salt)
        px[0, 0] = np.inf                           # a saturated pixel left behind by whatever used the detector before
        det.pixel.array = px
        det.signal.array = U.value_for("signal", 3, shape, salt)
        det.image.array = U.image_values("ramp", "uint16", 3, shape, salt)
        det.charge.add_charge_array(U.value_for("charge", 3, shape, salt))
        det.scene.add_source(U.scene_source(3, salt))
        return
    full = {"scene": True, "photon": {}, "charge": {"how": "clusters"}, "pixel": {"acc": True}, "signal": {},
            "image": {}, "data": "nested"}
    groups = {
        "scene_generation": [("vp.exp_util.tick", "h_first", {})],
        "charge_generation": [("vp.exp_util.write", "h_w0", {"spec": {"charge": {"how": "array"}}, "salt": salt + 1})],
        "charge_collection": [("vp.exp_util.write", "h_w", {"spec": full, "salt": salt + 1})],
        "charge_measurement": [("vp.exp_util.tick", "boom", {})],
    }
    U.reset()
    if history == "failed":
        U.PLAN.update({"name": "boom", "step": 1})
    prep = mk.exposure([1.0, 2.0, 4.0], True, 0.5)
    if history == "twin":
        try:
            prep = mk.exposure([float(t) for t in decode(case["times"])], not case["nd"], float(_num(case["start"])))
        except Exception:  # noqa: BLE001   (schedule under test not valid: plain "full" history)
            pass
    try:
        pyxel.run_mode(prep, det, mk.pipeline(groups), with_inherited_coords=True)
    except U.PlannedFailure:
        pass
    U.reset()


# ------------------------------------------------------------------ the oracle

def check_trace(trace, times, start, nd, bad, det_shape):
    """Compare the probe trace of one run with the lifecycle automaton."""
    exp = predict_clock(times, start)
    n = len(exp)
    names = [(t["name"], t["step"]) for t in trace]
    want = [(nm, i) for i in range(n) for nm in ("first", "w", "last")]
    if names != want:
        nsteps = len({t["step"] for t in trace})
        if len(trace) != len(want):
            bad("steps-count", f"{len(trace)} model calls in {nsteps} steps, expected {len(want)} calls in {n} steps "
                f"(trace {names[:12]}...)", got=min(nsteps, 9), want=n)
        else:
            bad("order", f"model calls {names} != predicted {want}")
        return
    for t in trace:
        e = exp[t["step"]]
        for f in ("time", "time_step", "absolute_time", "is_first", "is_last"):
            if t[f] != e[f] or type(t[f]) is not type(e[f]):
                bad("clock", f"model {t['name']} in step {t['step']} saw {f}={t[f]!r}, expected {e[f]!r} "
                    f"(clock seen {({k: t[k] for k in e})})", field=f, step="0" if t["step"] == 0 else ">0")
    firsts = [t for t in trace if t["name"] == "first"]
    lasts = [t for t in trace if t["name"] == "last"]
    for i, f in enumerate(firsts):
        b = f["buckets"]
        where = "step0" if i == 0 else "later-step"
        for name in ("photon", "signal", "image"):
            if b[name] is not None:
                bad("not-empty", f"{name} is not empty at the beginning of step {i}: {b[name]}", bucket=name, at=where)
        if b["scene"]:
            bad("not-empty", f"scene is not empty at the beginning of step {i}: {b['scene']}", bucket="scene", at=where)
        ch = np.asarray(b["charge"][2], dtype=float)
        if b["charge_clusters"] != 0 or bool(np.any(ch != 0)):
            bad("not-empty", f"charge is not empty at the beginning of step {i}: {b['charge_clusters']} clusters, "
                f"array {b['charge'][2]}", bucket="charge", at=where)
        px = b["pixel"]
        if i == 0 or not nd:
            ok = px is not None and tuple(px[1]) == tuple(det_shape) and not np.any(np.asarray(px[2], dtype=float) != 0)
            if not ok:
                bad("pixel-not-zero", f"pixel is not an all-zero array at the beginning of step {i} "
                    f"({'destructive' if not nd else 'non-destructive, first step'}): {px}", at=where)
        else:
            prev = lasts[i - 1]["buckets"]["pixel"]
            if px != prev:
                bad("pixel-not-kept", f"non-destructive: pixel at the beginning of step {i} is {px}, but step {i - 1} "
                    f"ended with {prev}")


def _outcome_sig(trace):
    pat = []
    for t in trace:
        b = t.get("buckets")
        pat.append([t["name"], t["step"], t["time"], t["time_step"], t["absolute_time"], t["is_first"], t["is_last"],
                    None if b is None else [b["photon"] is None, b["signal"] is None, b["image"] is None,
                                            bool(b["scene"]), b["charge_clusters"], b["pixel"] and b["pixel"][2]]])
    return pat


def _run_obs_sweep(case):
    """family O"""
    import dask
    import pyxel
    from pyxel.observation import Observation, ParameterValues

    viol = []
    key, ex = case["key"], case["exec"]
    salt = _seed() % 5

    def bad(code, what, **extra):
        k = {"fam": "O", "code": code, "key": key, "exec": ex}
        k.update(extra)
        viol.append((k, f"[O] observation sweeping observation.readout.{key} ({ex}, base readout times={case['times']} "
                        f"start={case['start']} non_destructive={case['nd']}, {case['det']}): {what}"))

    base = {"times": decode(case["times"]), "start": _num(case["start"]), "nd": bool(case["nd"])}
    if key == "times":
        # (one readout per run under the parallel execution: it labels the `time` axis with the swept tuples and refuses
        #  longer schedules loudly - a C07 matter, recorded there as known finding F07-dask-readout-schedules)
        values = [[1.0, 2.0], [0.5, 3.0, 5.0], [2.0]] if ex == "seq" else [[1.0], [0.5], [7.0]]
        elems = [dict(base, times=v) for v in values]
    elif key == "start_time":
        values = [0.0, 0.5, -1.5]
        elems = [dict(base, start=v) for v in values]
    else:
        values = [True, False]
        elems = [dict(base, nd=v) for v in values]
    U.reset()
    try:
        det = mk.detector(case["det"], ROWS, COLS)
        pipe = mk.pipeline(_pipeline_groups(case["pattern"], salt))
        obs = Observation(parameters=[ParameterValues(key=f"observation.readout.{key}", values=values)], mode="product",
                          readout=mk.readout(base["times"], base["nd"], base["start"]), with_dask=(ex == "dask"))
        with dask.config.set(scheduler="synchronous"):
            res = pyxel.run_mode(obs, det, pipe, with_inherited_coords=True)
            if ex == "dask":
                res.load()
    except NotImplementedError as e:
        # a sweep the execution path does not implement is refused loudly before any model runs: nothing to judge
        if U.TRACE:
            bad("raised", f"NotImplementedError after {len(U.TRACE)} model call(s): {str(e)[:200]}")
        return {"viol": viol, "sig": cfgx.sig(["O", key, ex, "unsupported"]), "nontrivial": False, "n": 1,
                "outcome": "unsupported"}
    except Exception as e:  # noqa: BLE001
        bad("raised", f"raised {type(e).__name__}: {str(e)[:300]}")
        return {"viol": viol, "sig": cfgx.sig(["O", key, ex, "raised"]), "nontrivial": True, "n": 1}
    # split the trace into runs: a run starts at every ("first", step 0)
    runs = []
    for t in U.TRACE:
        if t["name"] == "first" and t["step"] == 0:
            runs.append([])
        if not runs:
            bad("order", f"the trace does not start with the first observer of step 0: {t['name'], t['step']}")
            break
        runs[-1].append(t)
    # every run must be the faithful execution of ONE requested readout; together they cover all requested readouts
    def matches(run, el):
        probe = []
        check_trace(run, el["times"], el["start"], el["nd"], lambda code, what, **kw: probe.append((code, what)), (ROWS, COLS))
        return probe

    covered = [0] * len(elems)
    for r in runs:
        res_per = [matches(r, el) for el in elems]
        hit = [i for i, pr in enumerate(res_per) if not pr]
        if not hit:
            best = min(res_per, key=len)
            bad("clock", f"a run followed none of the requested readouts {elems}; closest mismatch: {best[0][1]}",
                field=best[0][0])
            break
        covered[hit[0]] += 1
    else:
        extra = 1 if ex == "dask" else 0            # (the documented metadata run of one element)
        if any(c == 0 for c in covered) or sum(covered) > len(elems) + extra:
            bad("run-set", f"requested readouts {elems} were executed {covered} time(s)")
    return {"viol": viol, "sig": cfgx.sig(["O", key, ex, case["nd"], case["det"], [_outcome_sig(r) for r in runs]]),
            "nontrivial": len(runs) >= 2, "n": len(U.TRACE), "outcome": {"runs": len(runs), "covered": covered}}


def run_case(case):
    if case.get("fam") == "O":
        return _run_obs_sweep(case)
    import pyxel

    fam = case["fam"]
    if fam == "S":
        return _run_setter_sequence(case)
    salt = _seed() % 5
    viol = []
    entry, rep = case["entry"], case["rep"]

    def bad(code, what, **extra):
        key = {"fam": fam, "code": code}
        if code in ("invalid-accepted", "invalid-late-error"):
            key["entry"] = entry
            key["why"] = case["why"]          # the class of invalidity; the representation is in the text
        elif code == "valid-rejected":
            key["entry"] = entry
            key["rep"] = rep
        else:                                 # clock / lifecycle codes: mode, history and detector kind matter
            key["nd"] = bool(case["nd"])
            key["history"] = case["history"]
            key["det"] = case["det"]
        key.update(extra)
        viol.append((key, f"[{fam}] {what}; case={ {k: v for k, v in case.items()} }"))

    tmp = tempfile.mkdtemp(prefix="vp_c02_")
    try:
        stage, exc, trace = "build", None, []
        times = None
        try:
            U.reset()
            if entry == "yaml":
                if rep == "expr":
                    kind, value = "times", case["expr"]
                else:
                    kind, value = _rep_value(rep, case["times"], tmp)
                    if rep == "list":
                        value = decode(case["times"])
                cfg = pyxel.loads(_yaml_text(kind, value, _num(case["start"]), case["nd"], case["pattern"], salt))
                det, pipe, mode = cfg.detector, cfg.pipeline, cfg.running_mode
            else:
                readout = build_readout(case, tmp)
                from pyxel.exposure import Exposure

                mode = Exposure(readout=readout)
                det = mk.detector(case["det"], ROWS, COLS)
                pipe = mk.pipeline(_pipeline_groups(case["pattern"], salt, pattern_odd=case.get("pattern_odd"),
                                                    inf=bool(case.get("inf"))))
            stage = "history"
            make_history(det, case["history"], salt, case)
            stage = "run"
            if case.get("api") == "deprecated":
                import warnings

                with warnings.catch_warnings():
                    warnings.simplefilter("ignore")
                    pyxel.exposure_mode(mode, det, pipe)         # the legacy entry point (still public)
            else:
                pyxel.run_mode(mode, det, pipe, with_inherited_coords=True)
            stage = "done"
        except Exception as e:  # noqa: BLE001
            exc = e
        trace = list(U.TRACE)
        if stage == "history":
            # the history run is itself a real exposure with a valid schedule ([1,2,4], start 0.5, non-destructive)
            bad("valid-rejected", f"the preparatory run (times=[1,2,4], start=0.5, non-destructive, all buckets "
                f"written) raised {type(exc).__name__}: {str(exc)[:200]}", stage="history")
            return {"viol": viol, "sig": cfgx.sig(["history-failed"]), "nontrivial": True, "n": 1}

        if rep == "expr":
            times = [float(x) for x in eval(case["expr"], {"numpy": np}, {})]      # reference: numpy itself
        else:
            times = decode(case["times"])
        start = _num(case["start"])
        valid = is_valid(times, start)
        if rep.startswith("list+"):
            valid = False      # both candidates are invalid by construction
            assert not is_valid(decode(case["times"]), start) and not is_valid(decode(case["times2"]), start)
        if not valid:
            if exc is None:
                bad("invalid-accepted", f"invalid schedule times={times} start={start} ran without any error, "
                    f"{len(trace)} model calls, clock seen {[(t['time'], t['time_step']) for t in trace[:6]]}")
            elif trace:
                bad("invalid-late-error", f"invalid schedule times={times} start={start}: {len(trace)} model calls "
                    f"were executed before {type(exc).__name__} was raised")
            sig = ["invalid", case.get("why"), stage, type(exc).__name__ if exc else None, len(trace)]
            return {"viol": viol, "sig": cfgx.sig(sig), "nontrivial": True, "n": 1,
                    "outcome": {"rejected_at": stage, "calls": len(trace)}}
        if exc is not None:
            bad("valid-rejected", f"valid schedule times={times} start={start} nd={case['nd']} raised at stage {stage}: "
                f"{type(exc).__name__}: {str(exc)[:200]}", stage=stage)
            return {"viol": viol, "sig": cfgx.sig(["rejected", stage]), "nontrivial": True, "n": 1,
                    "outcome": {"raised_at": stage}}
        check_trace(trace, times, start, case["nd"], bad, (ROWS, COLS))
        return {"viol": viol, "sig": cfgx.sig(_outcome_sig(trace)), "nontrivial": len(trace) > 0, "n": len(trace),
                "outcome": {"steps": len(times), "clock": [[t["time"], t["time_step"], t["absolute_time"]]
                                                            for t in trace if t["name"] == "first"]}}
    finally:
        shutil.rmtree(tmp, ignore_errors=True)


def _run_setter_sequence(case):
    """Apply a sequence of setter operations to a real Readout and to the reference triple; run the result."""
    import pyxel
    from pyxel.exposure import Exposure, Readout

    viol = []
    ops = case["ops"]

    def bad(code, what, **extra):
        key = {"fam": "S", "code": code, "entry": "setter-seq"}
        key.update(extra)
        viol.append((key, f"[S] {what}; ops={ops}"))

    salt = _seed() % 5
    r = Readout(times=list(BASE_TIMES), start_time=0.0, non_destructive=False)
    ref = {"times": list(BASE_TIMES), "start": 0.0, "nd": False}
    applied = []
    for op, arg in ops:
        new = dict(ref)
        if op == "times":
            new["times"] = list(arg)
        elif op == "start":
            new["start"] = float(arg)
        else:
            new["nd"] = not ref["nd"]
        try:
            if op == "times":
                r.times = list(arg)
            elif op == "start":
                r.start_time = float(arg)
            else:
                r.non_destructive = new["nd"]
        except Exception as e:  # noqa: BLE001
            if is_valid(new["times"], new["start"]):
                bad("valid-rejected", f"setter {op}={arg} raised {type(e).__name__} although the resulting schedule "
                    f"times={new['times']} start={new['start']} is valid", op=op)
            applied.append([op, "raised"])
            break                      # the statement does not define the state after a rejected assignment
        ref = new
        applied.append([op, "ok"])
    U.reset()
    exc = None
    try:
        det = mk.detector("ccd", ROWS, COLS)
        pyxel.run_mode(Exposure(readout=r), det, mk.pipeline(_pipeline_groups(case["pattern"], salt)),
                       with_inherited_coords=True)
    except Exception as e:  # noqa: BLE001
        exc = e
    trace = list(U.TRACE)
    valid = is_valid(ref["times"], ref["start"])
    if not valid:
        if exc is None:
            bad("invalid-accepted", f"after the setters the schedule is times={ref['times']} start={ref['start']} "
                f"(invalid) but the run finished with {len(trace)} model calls", why=_why(ref["times"], ref["start"]))
        elif trace:
            bad("invalid-late-error", f"invalid schedule times={ref['times']} start={ref['start']}: {len(trace)} model "
                f"calls before {type(exc).__name__}", why=_why(ref["times"], ref["start"]))
        return {"viol": viol, "sig": cfgx.sig(["S-invalid", ref, applied, exc is None, len(trace)]), "nontrivial": True,
                "n": len(ops) + 1, "outcome": {"applied": applied, "ref": ref, "rejected": exc is not None}}
    if exc is not None:
        bad("valid-rejected", f"valid schedule times={ref['times']} start={ref['start']} nd={ref['nd']} reached by "
            f"setters raised {type(exc).__name__}: {str(exc)[:200]}", op="run")
    else:
        check_trace(trace, ref["times"], ref["start"], ref["nd"], bad, (ROWS, COLS))
    return {"viol": viol, "sig": cfgx.sig(["S", _outcome_sig(trace), applied]), "nontrivial": True, "n": len(ops) + 1,
            "outcome": {"applied": applied, "ref": ref}}


def _why(times, start):
    ts = [float(t) for t in times]
    if ts and ts[0] == 0:
        return "zero-first"
    if any(t == 0 for t in ts):
        return "zero-later"
    if any(b == a for a, b in zip(ts, ts[1:])):
        return "equal"
    if any(b < a for a, b in zip(ts, ts[1:])):
        return "decreasing"
    if ts and not ts[0] > start:
        return "start-ge-first"
    return "other"


cfgx.install(__import__("sys").modules[__name__])
