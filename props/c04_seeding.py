"""C04 - seeded runs are bit-reproducible and seeding never leaks.

Three parts, dispatched on shard["part"]:

helper  explicit-state BFS (vp.seqx) over operation sequences on the process-wide numpy generator:
        {unseeded draws, np.random.seed(k), enter set_random_seed(s) (s may be None, blocks nest), leave the
        innermost block normally / by an exception}.  Reference model: a stack of private RandomStates.  After
        every transition the complete state of the real generator must equal the state of the reference
        generator on top of the stack - which contains both invariants of the statement (state after a block ==
        state before it; draws inside a block with seed s are the sequence of a private RandomState(s)).
model   the target set is computed from the tree (every function below pyxel.models with a `seed` parameter +
        every function that calls np.random.seed / random.seed outside util/randomize.py, found by an AST scan).
        A fixture registry gives a minimal valid detector and arguments per target.  For each target x seed x
        prior generator state: outputs bit-identical for all prior states, generator state after == before,
        also when the k-th draw inside the model raises (fault injection on the np.random draw functions) for
        every k observed.  Targets that seed globally without a `seed` argument: state after == before and two
        different prior states stay different.
run     pipelines of real stochastic models (all 2-subsets + the full chain of 6 models) in exposure,
        observation (sequential, dask synchronous) and calibration with pipeline_seed (+ pygmo_seed): every
        history of the process (unseeded draws, np.random.seed(k), earlier seeded runs of the same / another
        configuration, earlier runs failing at each model position and step) up to depth 1 (quick) / 2 is
        executed, then the run under test must give the bit-identical result of the reference run and leave
        the generator state unchanged; the same for runs failing at each position.
"""
from __future__ import annotations

import ast
import hashlib
import importlib
import inspect
import itertools
import os
import pkgutil
import shutil
import sys
import tempfile
from pathlib import Path

import numpy as np

from vp import mk, probes, seqx

ID = "C04"
LEVEL = "model_checking"
ENGINE = "seqx+faultx+cfgx"
TIMEOUT = 1800
TECHNIQUE = ("explicit-state BFS over operation sequences on the process-wide numpy generator against a reference stack of "
             "private generators; exhaustive enumeration of (target model x seed x prior generator state x injected fault at "
             "the k-th draw) with targets computed from the source tree; exhaustive enumeration of process histories "
             "(depth <= 2) before seeded exposure / observation / calibration runs of pipelines composed of the real "
             "stochastic models")
LEVEL_TEXT = ("Helper level: all sequences up to depth 4 (quick) / 5 of {draws, np.random.seed, enter set_random_seed(s | "
              "None), leave normally, leave by exception} are executed on the real context manager and generator; after "
              "every transition the full generator state (key, position, cached gaussian) is compared with a reference "
              "stack of private RandomStates; states are de-duplicated by the states of the whole stack. Model level: "
              "every function below pyxel.models that has a `seed` parameter (found by walking the modules) is called on "
              "a minimal detector for all seeds x prior states of the bound, outputs compared bit-wise between prior "
              "states, generator state compared before/after, and every draw observed in the model is made to raise once "
              "(single-fault bound). Run level: every history of the bound is replayed in the worker process before a "
              "seeded run of every pipeline/mode; result hash and generator state are compared with the reference run.")
LEVEL_NOTE = ("What is enumerated is everything the library controls (seed plumbing, generator state before/after, histories, "
              "failure points); outcomes of random draws are not enumerated. phasing.pulse_processing is never run "
              "unstubbed: its pure numerical helper convert_to_phase (minutes of nested quadratures) is replaced through a "
              "monkey-patch seam by a stub returning a constant phase frame, so that the real statements after it (global "
              "np.random.seed(42) and the draw) execute - trusted base. Draws are intercepted on the attributes of "
              "numpy.random (looked up at call time by all models of the tree); a draw made inside numba-compiled code "
              "would not be seen by the fault seam (none exists today; 0 observed draws are reported per target). "
              "Calibration histories are bounded to depth 1 and pygmo's island threads are not scheduled (see C07).")
DESIGN_REF = "DESIGN.md section 4, C04"
ASSUMPTIONS = [
    "numpy's legacy generator is deterministic given its state (trusted)",
    "pulse_processing's helper convert_to_phase is stubbed (returns a constant phase frame of the detector's shape)",
    "fixtures are minimal valid inputs; other argument values of the models are not explored",
    "dask observation and calibration are run under dask's synchronous scheduler (thread schedules are the subject of C07); "
    "observed while building: with the default threaded scheduler a calibration whose first fitness evaluation fails returns "
    "the error to the caller while the other evaluations of the batch still run in pool threads inside set_random_seed "
    "blocks, so the generator is transiently in a seeded state right after the failure (timing dependent, not checked here)",
]

U32 = 2 ** 32 - 1


def _vseed():
    return int(os.environ.get("VERIF_SEED", "0") or 0)


# ===================================================================================== generator state helpers

def gstate():
    s = np.random.get_state()
    return (s[0], s[1].tobytes(), int(s[2]), int(s[3]), float(s[4]))


def rs_state(rs):
    s = rs.get_state()
    return (s[0], s[1].tobytes(), int(s[2]), int(s[3]), float(s[4]))


def shash(st):
    return hashlib.sha1(repr((st[0], st[2], st[3], st[4])).encode() + st[1]).hexdigest()[:12]


def set_prior(name):
    """Put the process-wide generator into a named prior state."""
    base = 1234 + _vseed()
    if name == "A":
        np.random.seed(base)
    elif name == "A+1":
        np.random.seed(base)
        np.random.random()
    elif name == "A+1000":
        np.random.seed(base)
        np.random.random(1000)
    elif name == "A+gauss":            # odd number of gaussians: a cached gaussian is part of the state
        np.random.seed(base)
        np.random.normal()
    elif name == "B":
        np.random.seed(987654 + base)
    else:
        raise KeyError(name)


# ===================================================================================== part 1: helper (seqx BFS)

class _Boom(Exception):
    pass


HELPER_SEEDS = (0, 1, U32, None)


class HelperModel:
    """State = operation history (the generator and open context managers cannot be copied: every transition
    replays the history from the initial generator state).  canon = states of the whole reference stack."""

    def __init__(self):
        k = 5 + _vseed()
        self._ops_open = [["draw", "random"], ["draw", "normal1"], ["draw", "poisson3"], ["npseed", k], ["npseed", 0]]
        self._ops_open += [["enter", s] for s in HELPER_SEEDS]
        self._ops_close = [["exit"], ["raise"]]

    def initial(self):
        return {"hist": [], "depth_open": 0, "canon": self._run([])[0]}

    def ops(self, st):
        return self._ops_open + (self._ops_close if st["depth_open"] > 0 else [])

    def canon(self, st):
        # No merging of histories: the implementation may keep hidden state outside the generator (seeded variant
        # C04_1 kept the saved state in a module-level slot, so [enter a, enter b, exit] and [enter a] look the
        # same from outside but have different futures).  Every operation sequence up to the depth is a state.
        return (st["canon"], repr(st["hist"]))

    @staticmethod
    def _draw(gen, kind):
        if kind == "random":
            return [float(gen.random_sample())]
        if kind == "normal1":
            return [float(gen.normal())]
        return [float(v) for v in gen.poisson(4.0, size=3)]

    def _run(self, hist):
        """Execute `hist` on the real generator / context manager and on the reference stack.
        Returns (canon, open depth, violations of the LAST operation)."""
        from pyxel.util import set_random_seed

        np.random.seed(4321 + _vseed())
        base = np.random.RandomState()
        base.set_state(np.random.get_state())
        ref = [base]                     # reference stack; effective generator = last non-None entry
        cms = []                         # open real context managers
        viol = []

        def eff():
            return next(r for r in reversed(ref) if r is not None)

        try:
            for i, op in enumerate(hist):
                last = i == len(hist) - 1
                kind = op[0]
                got = want = None
                if kind == "draw":
                    g = np.random
                    if op[1] == "random":
                        got = [float(g.random())]
                    elif op[1] == "normal1":
                        got = [float(g.normal())]
                    else:
                        got = [float(v) for v in g.poisson(4.0, size=3)]
                    want = self._draw(eff(), op[1])
                elif kind == "npseed":
                    np.random.seed(op[1])
                    eff().seed(op[1])
                elif kind == "enter":
                    cm = set_random_seed(op[1])
                    cm.__enter__()
                    cms.append(cm)
                    ref.append(None if op[1] is None else np.random.RandomState(op[1]))
                elif kind in ("exit", "raise"):
                    cm = cms.pop()
                    ref.pop()
                    if kind == "exit":
                        cm.__exit__(None, None, None)
                    else:
                        swallowed = False
                        try:
                            try:
                                raise _Boom("boom")
                            except _Boom as e:
                                swallowed = bool(cm.__exit__(type(e), e, e.__traceback__))
                        except _Boom:
                            pass
                        if swallowed and last:
                            viol.append(({"part": "helper", "code": "exception-swallowed"},
                                         f"set_random_seed swallowed an exception raised inside the block; ops={hist}"))
                if last:
                    inblock = [o[1] for o in hist if o[0] == "enter"]
                    if got is not None and got != want:
                        viol.append(({"part": "helper", "code": "draw-value", "open_blocks": len(cms) > 0},
                                     f"draw {op[1]} returned {got}, the reference generator "
                                     f"({'private RandomState of the open block' if len(ref) > 1 else 'process-wide stream'}) "
                                     f"gives {want}; ops={hist}"))
                    if gstate() != rs_state(eff()):
                        code = {"exit": "state-after-block", "raise": "state-after-block-exception",
                                "enter": "state-on-enter"}.get(kind, "state")
                        viol.append(({"part": "helper", "code": code, "op": kind,
                                      "seed_none": bool(kind == "enter" and op[1] is None)},
                                     f"after {op} the process-wide generator state differs from the reference "
                                     f"({'state before the block' if kind in ('exit', 'raise') else 'expected stream'}); "
                                     f"ops={hist} (blocks entered with seeds {inblock})"))
            canon = (shash(gstate()),) + tuple("N" if r is None else shash(rs_state(r)) for r in ref)
            depth_open = len(cms)
        finally:
            while cms:                       # always release the (re-entrant) lock of open blocks
                try:
                    cms.pop().__exit__(None, None, None)
                except Exception:  # noqa: BLE001
                    pass
        return canon, depth_open, viol

    def apply(self, st, op):
        hist = st["hist"] + [op]
        canon, depth_open, viol = self._run(hist)
        return {"hist": hist, "depth_open": depth_open, "canon": canon}, viol


def _helper_shard(shard):
    m = HelperModel()
    stats, viols = seqx.bfs(m, shard["depth"])
    out = [{"key": v["key"], "what": v["what"], "case": {"part": "helper", "ops": v["ops"], "seed": _vseed()}} for v in viols]
    return {"violations": out,
            "counts": {"states": stats["states"], "transitions": stats["transitions"], "helper_transitions": stats["transitions"],
                       "cap_hit": int(stats["cap_hit"])},
            "sets": {"explored": [f"helper@depth{stats['depth_completed']}"]},
            "samples": [{"part": "helper", "ops": stats["sample"]}]}


# ===================================================================================== part 2: model level

def seed_targets():
    """Every function defined below pyxel.models whose signature has a `seed` parameter (module walk)."""
    import pyxel.models as M

    found, errors = {}, []
    for mi in pkgutil.walk_packages(M.__path__, "pyxel.models."):
        try:
            mod = importlib.import_module(mi.name)
        except Exception as e:  # noqa: BLE001
            errors.append(f"{mi.name}: {type(e).__name__}")
            continue
        for n, f in list(vars(mod).items()):
            if inspect.isfunction(f) and f.__module__ == mod.__name__:
                try:
                    if "seed" in inspect.signature(f).parameters:
                        found[f"{mod.__name__}.{n}"] = "seed-parameter"
                except (TypeError, ValueError):
                    pass
            elif inspect.isclass(f) and f.__module__ == mod.__name__:
                for mn, meth in vars(f).items():
                    if inspect.isfunction(meth):
                        try:
                            if "seed" in inspect.signature(meth).parameters:
                                found[f"{mod.__name__}.{n}.{mn}"] = "seed-parameter"
                        except (TypeError, ValueError):
                            pass
    return found, errors


def global_seed_sites():
    """AST scan of the whole package: functions that call np.random.seed / numpy.random.seed / random.seed,
    outside util/randomize.py."""
    import pyxel

    root = Path(pyxel.__file__).parent
    out = {}
    for p in sorted(root.rglob("*.py")):
        rel = p.relative_to(root).as_posix()
        if rel == "util/randomize.py":
            continue
        try:
            tree = ast.parse(p.read_text())
        except SyntaxError:
            continue
        modname = "pyxel." + rel[:-3].replace("/", ".")
        if modname.endswith(".__init__"):
            modname = modname[: -len(".__init__")]

        class V(ast.NodeVisitor):
            def __init__(self):
                self.stack = []

            def visit_FunctionDef(self, node):
                self.stack.append(node.name)
                self.generic_visit(node)
                self.stack.pop()

            visit_AsyncFunctionDef = visit_FunctionDef

            def visit_ClassDef(self, node):
                self.stack.append(node.name)
                self.generic_visit(node)
                self.stack.pop()

            def visit_Call(self, node):
                f = node.func
                if isinstance(f, ast.Attribute) and f.attr == "seed":
                    chain = []
                    v = f.value
                    while isinstance(v, ast.Attribute):
                        chain.append(v.attr)
                        v = v.value
                    if isinstance(v, ast.Name):
                        chain.append(v.id)
                    dotted = ".".join(reversed(chain))
                    if dotted in ("np.random", "numpy.random", "random"):
                        out[modname + "." + ".".join(self.stack or ["<module>"])] = f"calls {dotted}.seed (line {node.lineno})"
                self.generic_visit(node)

        V().visit(tree)
    return out


def all_targets():
    found, errors = seed_targets()
    sites = global_seed_sites()
    targets = dict(found)
    for k, v in sites.items():
        targets[k] = "global-seed-call" if k not in targets else "seed-parameter+global-seed-call"
    return targets, sites, errors


# ---- fixtures ---------------------------------------------------------------------------------------------

def _prep(det):
    """what run_pipeline does before the first step of a single-readout exposure"""
    det.set_readout(times=[1.0], start_time=0.0, non_destructive=False)
    det.empty()
    rp = det.readout_properties
    rp.time, rp.time_step, rp.pipeline_count = 1.0, 1.0, 0
    return det


def _ramp(shape, base):
    return base + np.arange(int(np.prod(shape)), dtype=float).reshape(shape) + float(_vseed() % 5)


def _det(kind, r=3, c=4, **kw):
    return _prep(mk.detector(kind, r, c, **kw))


def _data_dir():
    import pyxel

    return Path(pyxel.__file__).parent / "models" / "charge_generation" / "data"


def _fx_shot(td, variant):
    d = _det("ccd")
    d.photon.array = _ramp((3, 4), 100.0)
    return d, {"type": ("poisson", "normal")[variant]}


def _fx_fpn(td, variant):
    d = _det("ccd")
    d.pixel.array = _ramp((3, 4), 100.0)
    return d, {"fixed_pattern_noise_factor": 0.01}


def _spectrum_file(td):
    spec = Path(td) / "energy_spectrum.txt"
    if not spec.exists():
        np.savetxt(spec, np.array([[0.5, 1.0], [1.0, 3.0], [2.0, 2.0], [5.0, 0.5]]))
    return str(spec)


def _fx_cd(td, variant):
    kw = {"flux": 3.0, "step_size": 1.0, "energy_mean": 1.0, "energy_spread": 0.1,
          "particle_direction": ("isotropic", "orthogonal")[variant % 2],
          "stopping_power_curve": str(_data_dir() / "protons-in-silicon_stopping-power.csv")}
    if variant >= 2:          # particle energies drawn from a spectrum file (another stochastic branch of the model)
        kw.update(energy_spectrum=_spectrum_file(td), energy_spectrum_sampling=("log", "linear")[variant - 2])
    return _det("ccd"), kw


def _fx_cdmct(td, variant):
    kw = {"flux": 3.0, "step_size": 1.0, "energy_mean": 1.0, "energy_spread": 0.1, "cutoff_wavelength": 2.5,
          "stopping_power_curve": str(_data_dir() / "mct-stopping-power.csv")}
    if variant >= 1:
        kw.update(energy_spectrum=_spectrum_file(td), energy_spectrum_sampling=("log", "linear")[variant - 1])
    return _det("cmos"), kw


def _fx_cosmix(td, variant):
    spec = Path(td) / "spectrum.txt"
    if not spec.exists():
        np.savetxt(spec, np.array([[10.0, 1.0], [100.0, 2.0], [1000.0, 1.0]]))
    return _det("ccd"), {"simulation_mode": "cosmic_ray", "running_mode": "stepsize", "particle_type": "proton",
                         "initial_energy": (100.0, "random")[variant], "particles_per_second": 3.0, "spectrum_file": str(spec),
                         "progressbar": False}


def _fx_dc(td, variant):
    return _det("cmos", temperature=300.0), {"figure_of_merit": 1.0, "spatial_noise_factor": 0.1, "band_gap": 1.1,
                                             "band_gap_room_temperature": 1.12}


def _fx_ridc(td, variant):
    return _det("ccd", temperature=300.0), {"depletion_volume": 640.0, "annealing_time": 0.1, "displacement_dose": 5000.0,
                                            "shot_noise": True}


def _fx_r07(td, variant):
    return _det("cmos", temperature=250.0), {"cutoff_wavelength": 5.0, "spatial_noise_factor": 0.1, "temporal_noise": True}


def _fx_saphira(td, variant):
    return _det("apd", temperature=100.0), {}


def _fx_qemap(td, variant):
    p = Path(td) / "qe.npy"
    if not p.exists():
        np.save(p, np.full((3, 4), 0.5))
    d = _det("ccd")
    d.photon.array = _ramp((3, 4), 100.0)
    return d, {"filename": str(p)}


def _fx_sc(td, variant):
    d = _det("ccd")
    d.photon.array = _ramp((3, 4), 100.0)
    return d, {"quantum_efficiency": 0.8, "binomial_sampling": True}


def _fx_sdc(td, variant):
    return _det("ccd"), {"dark_rate": 10.0}


def _fx_nghxrg(td, variant):
    d = _det("cmos", 10, 10)
    d.pixel.array = _ramp((10, 10), 100.0)
    noise = [{"ktc_bias_noise": {"ktc_noise": 1, "bias_offset": 2, "bias_amp": 2}},
             {"white_read_noise": {"rd_noise": 1, "ref_pixel_noise_ratio": 2}},
             {"corr_pink_noise": {"c_pink": 1.0}}, {"uncorr_pink_noise": {"u_pink": 1.0}},
             {"acn_noise": {"acn": 1.0}}, {"pca_zero_noise": {"pca0_amp": 1.0}}]
    return d, {"noise": noise}


def _fx_onn(td, variant):
    d = _det("ccd")
    d.signal.array = _ramp((3, 4), 1.0)
    return d, {"std_deviation": 0.5}


def _fx_onn_cmos(td, variant):
    d = _det("cmos")
    d.signal.array = _ramp((3, 4), 1.0)
    return d, {"readout_noise": 1.0, "readout_noise_std": 0.1}


def _fx_rns(td, variant):
    d = _det("apd")
    d.signal.array = _ramp((3, 4), 1.0)
    return d, {"roic_readout_noise": 0.1, "controller_noise": 0.1}


def _fx_ktc(td, variant):
    d = _det("cmos")
    d.signal.array = _ramp((3, 4), 1.0)
    return d, {"node_capacitance": 30e-15}


def _fx_pulse(td, variant):
    d = _det("mkid")
    d.charge.add_charge_array(np.full((3, 4), 10.0))
    return d, {"wavelength": 0.5, "responsivity": 1.0}


# target -> (fixture function, number of variants, stub plan)
FIXTURES = {
    "pyxel.models.photon_collection.shot_noise.shot_noise": (_fx_shot, 2),
    "pyxel.models.charge_collection.fixed_pattern_noise.fixed_pattern_noise": (_fx_fpn, 1),
    "pyxel.models.charge_generation.charge_deposition.charge_deposition": (_fx_cd, 4),
    "pyxel.models.charge_generation.charge_deposition.charge_deposition_in_mct": (_fx_cdmct, 3),
    "pyxel.models.charge_generation.cosmix.cosmix.cosmix": (_fx_cosmix, 2),
    "pyxel.models.charge_generation.dark_current.dark_current": (_fx_dc, 1),
    "pyxel.models.charge_generation.dark_current_induced.radiation_induced_dark_current": (_fx_ridc, 1),
    "pyxel.models.charge_generation.dark_current_rule07.dark_current_rule07": (_fx_r07, 1),
    "pyxel.models.charge_generation.dark_current_saphira.dark_current_saphira": (_fx_saphira, 1),
    "pyxel.models.charge_generation.photoelectrons.conversion_with_qe_map": (_fx_qemap, 1),
    "pyxel.models.charge_generation.photoelectrons.simple_conversion": (_fx_sc, 1),
    "pyxel.models.charge_generation.simple_dark_current.simple_dark_current": (_fx_sdc, 1),
    "pyxel.models.charge_measurement.nghxrg.nghxrg.nghxrg": (_fx_nghxrg, 1),
    "pyxel.models.charge_measurement.readout_noise.output_node_noise": (_fx_onn, 1),
    "pyxel.models.charge_measurement.readout_noise.output_node_noise_cmos": (_fx_onn_cmos, 1),
    "pyxel.models.charge_measurement.readout_noise.readout_noise_saphira": (_fx_rns, 1),
    "pyxel.models.charge_measurement.reset_noise.ktc_noise": (_fx_ktc, 1),
    "pyxel.models.phasing.pulse_processing.pulse_processing": (_fx_pulse, 1),
}
# slow pure helpers replaced through a monkey-patch seam: {target: (module, attribute)}
STUBS = {"pyxel.models.phasing.pulse_processing.pulse_processing": ("pyxel.models.phasing.pulse_processing", "convert_to_phase")}


def _stub_convert_to_phase(array_2d, wavelength, responsivity, scaling_factor=2.5e2):
    return np.full(np.shape(array_2d), 3.0, dtype="float64")


def _resolve(target):
    """(callable, module object) of a dotted target name (modules may be shadowed by functions in packages)."""
    parts = target.split(".")
    for cut in range(len(parts) - 1, 0, -1):
        modname = ".".join(parts[:cut])
        try:
            importlib.import_module(modname)
        except ImportError:
            continue
        obj = sys.modules[modname]
        for p in parts[cut:]:
            obj = getattr(obj, p)
        return obj, sys.modules[modname]
    raise ImportError(target)


DRAW_FUNCS = ("random", "random_sample", "ranf", "sample", "rand", "randn", "randint", "random_integers", "normal",
              "standard_normal", "poisson", "binomial", "lognormal", "exponential", "standard_exponential", "choice",
              "uniform", "gamma", "standard_gamma", "beta", "chisquare", "multivariate_normal", "laplace", "logistic",
              "rayleigh", "triangular", "weibull", "geometric", "negative_binomial", "shuffle", "permutation", "bytes",
              "standard_cauchy", "standard_t", "vonmises", "pareto", "power", "wald", "zipf", "hypergeometric",
              "logseries", "multinomial", "dirichlet", "gumbel", "f", "noncentral_chisquare", "noncentral_f")


class InjectedFault(Exception):
    pass


class DrawSeam:
    """Counts the draws from the process-wide generator; optionally makes the k-th draw raise."""

    def __init__(self, fail_at=None):
        self.fail_at, self.n, self.orig = fail_at, 0, {}

    def __enter__(self):
        for name in DRAW_FUNCS:
            o = getattr(np.random, name, None)
            if o is None:
                continue
            self.orig[name] = o

            def w(*a, _o=o, **k):
                i = self.n
                self.n += 1
                if self.fail_at is not None and i == self.fail_at:
                    raise InjectedFault(f"injected fault at draw #{i}")
                return _o(*a, **k)

            setattr(np.random, name, w)
        return self

    def __exit__(self, *exc):
        for name, o in self.orig.items():
            setattr(np.random, name, o)
        return False


def snap(det):
    """bit-exact signature of everything a model can have written"""
    import xarray as xr

    h = hashlib.sha1()

    def add(tag, a):
        h.update(tag.encode())
        if a is None:
            h.update(b"<none>")
            return
        if isinstance(a, xr.DataArray):
            a = a.values
        a = np.asarray(a)
        h.update(str(a.dtype).encode() + str(a.shape).encode())
        h.update(np.ascontiguousarray(a).tobytes() if a.dtype != object else repr(a.tolist()).encode())

    for name in ("photon", "pixel", "signal", "image", "phase"):
        try:
            add(name, getattr(det, name)._array)
        except Exception:  # noqa: BLE001      (no such bucket on this detector type)
            add(name, None)
    ch = det.charge
    add("charge_array", ch._array)
    fr = ch._frame
    add("charge_frame", fr.to_numpy(dtype=float) if len(fr) else None)
    h.update(str(len(fr)).encode())
    try:
        d = det._data
        if d is not None:
            for node in d.subtree:
                for vn in sorted(node.to_dataset(inherit=False).variables):
                    add(node.path + "/" + vn, node.to_dataset(inherit=False)[vn].values)
    except Exception:  # noqa: BLE001
        pass
    return h.hexdigest()[:16]


def _auto_variants(target):
    """One-deviation variants of the base fixture computed from the model's signature: every other value of every
    Literal-typed or boolean keyword (a mode switch may select another stochastic branch).  A deviation that the
    model rejects is counted, not reported."""
    import typing

    func, _mod = _resolve(target)
    fx, _nv = FIXTURES[target]
    td = tempfile.mkdtemp(prefix="vp_c04_")
    try:
        _det0, base = fx(td, 0)
    finally:
        shutil.rmtree(td, ignore_errors=True)
    try:
        hints = typing.get_type_hints(func)
    except Exception:  # noqa: BLE001
        hints = {}
    out = []
    for name, p in inspect.signature(func).parameters.items():
        if name in ("detector", "seed"):
            continue
        ann = hints.get(name)
        vals = []
        if ann is bool:
            vals = [True, False]
        else:
            cands = [ann] + list(typing.get_args(ann) if typing.get_origin(ann) is not typing.Literal else [])
            for c in cands:
                if typing.get_origin(c) is typing.Literal:
                    vals += [v for v in typing.get_args(c) if isinstance(v, (str, bool, int))]
        cur = base.get(name, p.default)
        for v in vals:
            if v != cur or type(v) is not type(cur):
                out.append(["auto", name, v])
    return out


def _call_target(target, variant, seed, prior, td, fail_at=None, outer_seed=None):
    """One execution: returns dict(before, after, out, exc, draws).
    outer_seed: the model gets no seed of its own (seed=None) and runs inside `set_random_seed(outer_seed)` - what a
    pipeline seed does for every model of a run."""
    func, _mod = _resolve(target)
    fx, _nv = FIXTURES[target]
    stub = STUBS.get(target)
    saved = None
    if stub:
        importlib.import_module(stub[0])
        smod = sys.modules[stub[0]]
        saved = getattr(smod, stub[1])
        setattr(smod, stub[1], _stub_convert_to_phase)
    cwd = os.getcwd()
    try:
        if isinstance(variant, list) and variant[0] == "ro":
            # ["ro", base variant, state]: the model is called at a later read of a NON-DESTRUCTIVE multi-readout
            # exposure (what run_pipeline has set up when step 2 of 3 starts)
            det, kw = fx(td, variant[1])
            det.set_readout(times=[1.0, 2.0, 3.0], start_time=0.0, non_destructive=True)
            rp = det.readout_properties
            rp.time, rp.time_step, rp.pipeline_count = 2.0, 1.0, 1
        elif isinstance(variant, list):             # ["auto", keyword, value]: base fixture with one keyword deviating
            det, kw = fx(td, 0)
            kw = dict(kw, **{variant[1]: variant[2]})
        else:
            det, kw = fx(td, variant)
        os.chdir(td)                                 # cosmix writes 'data/cosmix-*.npy' relative to the working directory
        if "seed" in inspect.signature(func).parameters:
            kw = dict(kw, seed=seed if outer_seed is None else None)
        set_prior(prior)
        before = gstate()
        exc = None
        with DrawSeam(fail_at) as seam:
            try:
                if outer_seed is None:
                    func(det, **kw)
                else:
                    from pyxel.util import set_random_seed

                    with set_random_seed(outer_seed):
                        func(det, **kw)
            except BaseException as e:  # noqa: BLE001
                exc = e
        after = gstate()
        return {"before": before, "after": after, "out": snap(det), "exc": exc, "draws": seam.n}
    finally:
        os.chdir(cwd)
        if stub:
            setattr(smod, stub[1], saved)


MODEL_SEEDS = {"quick": (0, 12345), "thorough": (0, 1, 12345, U32)}
MODEL_PRIORS = {"quick": ("A", "A+1000", "B"), "thorough": ("A", "A+1", "A+1000", "A+gauss", "B")}


def _short(target):
    return target.split(".")[-1]


def _model_case(case, td):
    """All checks of one (target, variant, seed): returns (violations, counters, outcome)."""
    target, variant, seed, priors = case["target"], case["variant"], case["seed"], case["priors"]
    kind = case["kind"]
    viol = []
    tname = _short(target)

    def bad(code, what, **extra):
        key = {"part": "model", "target": tname, "code": code}
        key.update(extra)
        viol.append((key, f"{target} (fixture variant {variant}, seed={seed}): {what}"))

    outs, n_exec, n_fault, draws_seen = {}, 0, 0, None
    afters = {}
    for prior in priors:
        r = _call_target(target, variant, seed, prior, td)
        n_exec += 1
        afters[prior] = r["after"]
        if r["exc"] is not None and not isinstance(r["exc"], Exception):
            raise r["exc"]
        if r["after"] != r["before"]:
            bad("state-not-restored" if r["exc"] is None else "state-not-restored-after-error",
                f"process-wide generator state after the call differs from the state before (prior state {prior!r}"
                + (f"; the call raised {type(r['exc']).__name__}: {str(r['exc'])[:120]}" if r["exc"] is not None else "") + ")",
                raised=r["exc"] is not None)
        if r["exc"] is not None and isinstance(variant, list):
            return viol, {"model_executions": n_exec, "fault_sites": 0, "transitions": n_exec,
                          "auto_variants_rejected": 1}, {"rejected": type(r["exc"]).__name__, "out": [], "draws": 1}
        if r["exc"] is not None and "seed-parameter" in kind:
            bad("fixture-raised", f"the fixture call raised {type(r['exc']).__name__}: {str(r['exc'])[:200]}")
            break
        outs[prior] = r["out"]
        draws_seen = r["draws"] if draws_seen is None else max(draws_seen, r["draws"])
        # crash points: the k-th draw raises, for every k observed in this fault-free run
        if prior in case["fault_priors"]:
            for k in range(r["draws"]):
                rf = _call_target(target, variant, seed, prior, td, fail_at=k)
                n_exec += 1
                n_fault += 1
                if rf["after"] != rf["before"]:
                    bad("state-not-restored-after-fault", f"draw #{k} of {r['draws']} raised inside the model "
                        f"({'propagated as ' + type(rf['exc']).__name__ if rf['exc'] is not None else 'swallowed by the model'}); "
                        f"the process-wide generator state afterwards differs from the state before (prior state {prior!r})")
                    break
    if "seed-parameter" in kind:
        # the same model WITHOUT its own seed inside a seeded block (= under a pipeline seed): every draw it makes must
        # come from the process-wide generator, so the output is the same whatever the prior state
        outer = {}
        for prior in priors:
            r = _call_target(target, variant, seed, prior, td, outer_seed=4242 + (seed or 0) % 7)
            n_exec += 1
            if r["exc"] is not None:
                break
            outer[prior] = r["out"]
            if r["after"] != r["before"]:
                bad("state-not-restored", f"(unseeded model inside a seeded block) generator state after != before "
                    f"(prior state {prior!r})", raised=False)
        if len(set(outer.values())) > 1:
            bad("not-reproducible-under-outer-seed", "without its own seed, inside `set_random_seed(s)` (what a pipeline "
                f"seed does), the outputs differ between prior generator states {sorted(outer)}: some randomness does "
                "not come from the process-wide generator")
    if "seed-parameter" in kind and len(set(outs.values())) > 1:
        groups = {}
        for p, o in outs.items():
            groups.setdefault(o, []).append(p)
        bad("not-reproducible", f"outputs differ between prior generator states: {sorted(groups.values())}")
    if "global-seed-call" in kind and len(priors) > 1:
        # different prior states must stay different
        if len(set(afters.values())) < len(set(priors)):
            bad("prior-states-merged", f"{len(priors)} different prior generator states end in "
                f"{len(set(afters.values()))} distinct state(s) after the call: the call fixes the process-wide stream")
    # vacuity measure: does the randomness of this fixture reach the output at all?  (another seed must change it)
    sensitive = None
    if "seed-parameter" in kind and outs:
        r2 = _call_target(target, variant, (seed or 0) + 1, priors[0], td)
        n_exec += 1
        if r2["exc"] is None:
            sensitive = r2["out"] != outs.get(priors[0])
    return viol, {"model_executions": n_exec, "fault_sites": n_fault, "transitions": n_exec,
                  "fixtures_insensitive_to_seed": int(sensitive is False)}, \
        {"draws": draws_seen, "out": sorted(set(outs.values()))[:2], "sensitive": sensitive}


def _model_cases(tier, target, kind):
    """Cases of one target (kind computed from the tree by the caller)."""
    fx, nvar = FIXTURES[target]
    seeds = MODEL_SEEDS[tier] if "seed-parameter" in kind else (None,)
    cases = []
    for variant in list(range(nvar)) + [["ro", 0, "nd2"]] + _auto_variants(target):
        for s in (seeds if not isinstance(variant, list) else seeds[:1]):
            priors = list(MODEL_PRIORS[tier])
            cases.append({"part": "model", "target": target, "kind": kind, "variant": variant, "seed": s,
                          "priors": priors, "fault_priors": priors if tier == "thorough" else priors[:1]})
    return cases


def _model_shard(shard):
    td = tempfile.mkdtemp(prefix="vp_c04_")
    viols, counts, sets, samples = [], {"model_executions": 0, "fault_sites": 0, "transitions": 0, "states": 0}, \
        {"targets_covered": set(), "model_outcomes": set(), "zero_draw_targets": set()}, []
    try:
        targets, sites, errors = all_targets()
        try:
            _resolve(shard["target"])
        except Exception:  # noqa: BLE001   the model was removed / renamed: recorded by the "targets" shard
            return {"violations": [], "counts": counts, "sets": {k: sorted(v) for k, v in sets.items()}, "samples": []}
        # a fixture whose function is no longer recognised as a seeding site (e.g. it now manipulates the generator by
        # hand) is still executed: the generator state must be restored whatever the function does ("state-only")
        mine = _model_cases(shard["tier"], shard["target"], targets.get(shard["target"], "state-only"))
        seen = set()
        for c in mine:
            v, cnt, outcome = _model_case(c, td)
            for k2, n in cnt.items():
                counts[k2] = counts.get(k2, 0) + n
            sets["targets_covered"].add(c["target"])
            for o in outcome["out"]:
                sets["model_outcomes"].add(f"{_short(c['target'])}:{c['variant']}:{c['seed']}:{o}")
            if not outcome["draws"]:
                sets["zero_draw_targets"].add(c["target"])
            for key, what in v:
                kk = repr(sorted(key.items()))
                if kk not in seen:
                    seen.add(kk)
                    viols.append({"key": key, "what": what, "case": dict(c, vseed=_vseed())})
            if not samples and not v:
                samples.append({"part": "model", "case": c, "outcome": outcome})
        counts["states"] = len(sets["model_outcomes"])
    finally:
        shutil.rmtree(td, ignore_errors=True)
    return {"violations": viols, "counts": counts, "sets": {k: sorted(v) for k, v in sets.items()}, "samples": samples}


# ===================================================================================== part 3: run level

STOCH = ("shot_noise", "simple_conversion", "simple_dark_current", "fixed_pattern_noise", "output_node_noise", "ktc_noise")
FAIL_POS = ("f0", "f1", "f2", "f3", "f4")


def run_configs(tier):
    pairs = [list(c) for c in itertools.combinations(STOCH, 2)]
    if tier == "quick":
        pairs = [p for i, p in enumerate(pairs) if i % 3 == 0] + [[STOCH[1], STOCH[5]]]
    return pairs + [list(STOCH)]


def build_pipeline(sub):
    M = "pyxel.models."
    g = {
        "photon_collection": [(M + "photon_collection.illumination", "illumination", {"level": 200.0})]
        + ([(M + "photon_collection.shot_noise", "shot_noise", {})] if "shot_noise" in sub else [])
        + [("vp.probes.fail", "f0", {})],
        "charge_generation": [(M + "charge_generation.simple_conversion", "simple_conversion",
                               {"binomial_sampling": "simple_conversion" in sub})]
        + ([(M + "charge_generation.simple_dark_current", "simple_dark_current", {"dark_rate": 20.0})]
           if "simple_dark_current" in sub else [])
        + [("vp.probes.fail", "f1", {})],
        "charge_collection": [(M + "charge_collection.simple_collection", "simple_collection", {})]
        + ([(M + "charge_collection.fixed_pattern_noise", "fixed_pattern_noise", {"fixed_pattern_noise_factor": 0.01})]
           if "fixed_pattern_noise" in sub else [])
        + [("vp.probes.fail", "f2", {})],
        "charge_measurement": [(M + "charge_measurement.simple_measurement", "simple_measurement", {})]
        + ([(M + "charge_measurement.output_node_noise", "output_node_noise", {"std_deviation": 0.001})]
           if "output_node_noise" in sub else [])
        + ([(M + "charge_measurement.ktc_noise", "ktc_noise", {"node_capacitance": 30e-15})] if "ktc_noise" in sub else [])
        + [("vp.probes.fail", "f3", {})],
        "readout_electronics": [(M + "readout_electronics.simple_adc", "simple_adc", {}), ("vp.probes.fail", "f4", {})],
    }
    return mk.pipeline(g)


def tree_sig(tree, only=None):
    h = hashlib.sha1()
    for node in tree.subtree:
        if only is not None and not any(node.path.startswith(o) for o in only):
            continue
        ds = node.to_dataset(inherit=False)
        for name in sorted(ds.variables):
            v = ds[name]
            vals = np.asarray(v.values)
            h.update(f"{node.path}/{name}|{vals.dtype}|{vals.shape}".encode())
            h.update(np.ascontiguousarray(vals).tobytes() if vals.dtype != object else repr(vals.tolist()).encode())
    return h.hexdigest()[:16]


EXTRA: list = []          # violations found inside do_run (collected by the caller)


def do_run(mode, sub, pipeline_seed, td, islands=1, fault=None):
    """One run through pyxel.run_mode; returns (signature | None, exception | None, state before, state after)."""
    import pyxel

    probes.reset()
    if fault:
        probes.FAULT.update(fault)
    det = mk.detector("cmos", 3, 4)
    pipe = build_pipeline(sub)
    before = gstate()
    sig, exc = None, None
    try:
        if mode == "exposure":
            res = pyxel.run_mode(mk.exposure([1.0, 2.0], pipeline_seed=pipeline_seed), det, pipe, with_inherited_coords=True)
            sig = tree_sig(res)
        elif mode in ("obs_seq", "obs_dask"):
            from pyxel.observation import Observation, ParameterValues

            obs = Observation(parameters=[ParameterValues(key="pipeline.photon_collection.illumination.arguments.level",
                                                          values=[100.0, 300.0])],
                              mode="product", readout=mk.readout([1.0, 2.0]), with_dask=(mode == "obs_dask"),
                              pipeline_seed=pipeline_seed)
            if mode == "obs_dask":
                import dask

                with dask.config.set(scheduler="synchronous"):
                    res = pyxel.run_mode(obs, det, pipe, with_inherited_coords=True)
                    res = res.compute()
            else:
                res = pyxel.run_mode(obs, det, pipe, with_inherited_coords=True)
            sig = tree_sig(res)
        elif mode == "calibration":
            from pyxel.calibration import Algorithm, Calibration
            from pyxel.observation import ParameterValues
            from pyxel.pipelines import FitnessFunction

            tgt = Path(td) / "target.npy"
            if not tgt.exists():
                np.save(tgt, np.full((3, 4), 90.0) + np.arange(12.0).reshape(3, 4))
            cal = Calibration(
                target_data_path=[tgt],
                fitness_function=FitnessFunction(func="pyxel.calibration.fitness.sum_of_abs_residuals"),
                algorithm=Algorithm(type="sade", generations=1, population_size=8),
                parameters=[ParameterValues(key="pipeline.photon_collection.illumination.arguments.level", values="_",
                                            boundaries=(50.0, 400.0))],
                result_type="pixel", result_fit_range=(0, 3, 0, 4), target_fit_range=(0, 3, 0, 4),
                pygmo_seed=(0 if pipeline_seed == 0 else 11 + _vseed() % 50), pipeline_seed=pipeline_seed, num_islands=islands, num_evolutions=2,
                num_best_decisions=2)
            import dask

            # synchronous scheduler: the batch fitness evaluator and the islands' evolutions do not leave worker
            # threads running after a failure (thread schedules are the subject of C07)
            with dask.config.set(scheduler="synchronous"):
                res = pyxel.run_mode(cal, det, pipe, with_inherited_coords=True)
                # (the simulated outputs are attached lazily: reading them is part of the seeded run)
                sig = tree_sig(res, only=("/champion", "/best", "/simulated"))
                if fault is None:
                    # the SAME Calibration object run once more (fresh detector / pipeline): bit-identical
                    res2 = pyxel.run_mode(cal, mk.detector("cmos", 3, 4), build_pipeline(sub), with_inherited_coords=True)
                    sig2 = tree_sig(res2, only=("/champion", "/best", "/simulated"))
                    if sig2 != sig:
                        EXTRA.append(("not-reproducible", f"the same Calibration object run a second time gives {sig2}, the "
                                                          f"first run gave {sig}"))
        else:
            raise KeyError(mode)
    except Exception as e:  # noqa: BLE001
        exc = e
    finally:
        probes.reset()
    return sig, exc, before, gstate()


def history_alphabet(mode, tier):
    k = 5 + _vseed()
    ops = [["draw", 1], ["draw", 1000], ["npseed", 0], ["npseed", k], ["run", "same"], ["run", "other"]]
    if mode == "calibration":
        fails = [["fail", "f0", 0], ["fail", "f3", 0]]
    elif mode == "exposure" or tier == "thorough":
        fails = [["fail", p, s] for p in FAIL_POS for s in (0, 1)]
    else:
        fails = [["fail", p, (i % 2)] for i, p in enumerate(FAIL_POS)]
    return ops + fails


def histories(mode, tier):
    alpha = history_alphabet(mode, tier)
    depth = 2 if (tier == "thorough" and mode != "calibration") else 1
    out = [[]]
    for d in range(1, depth + 1):
        out.extend([list(h) for h in itertools.product(alpha, repeat=d)])
    return out, alpha


def _fault_of(op, mode):
    f = {"name": op[1], "step": int(op[2])}
    if mode != "exposure":
        f["call"] = int(op[2])        # second call of that probe = step 1 of the first run / step 0 ... : any failing call
        f.pop("step")
    return f


def _apply_history_op(op, mode, sub, pseed, td, islands, other):
    """Executes one history operation; returns violations found on the way (runs inside a history are runs too)."""
    out = []
    if op[0] == "draw":
        np.random.random(int(op[1]))
    elif op[0] == "npseed":
        np.random.seed(int(op[1]))
    elif op[0] == "run":
        sub2, seed2 = (sub, pseed) if op[1] == "same" else (other, pseed + 1)
        sig, exc, b, a = do_run(mode, sub2, seed2, td, islands)
        if exc is not None:
            raise RuntimeError(f"harness: fault-free run raised {type(exc).__name__}: {exc}") from exc
        if a != b:
            out.append(("state-not-restored", f"a seeded {mode} run ({'+'.join(sub2)}) changed the process-wide generator state"))
    elif op[0] == "fail":
        sig, exc, b, a = do_run(mode, sub, pseed, td, islands, fault=_fault_of(op, mode))
        if exc is None:
            raise RuntimeError(f"harness: planned failure {op} did not make the run fail")
        if a != b:
            out.append(("state-not-restored-after-failure",
                        f"a seeded {mode} run ({'+'.join(sub)}) that failed at probe {op[1]} (step/call {op[2]}) with "
                        f"{type(exc).__name__} left the process-wide generator in another state"))
    return out


def _run_history(case, td, reference=None):
    """Replays one history, then the run under test. Returns (violations, result signature, n transitions)."""
    mode, sub, hist, islands = case["mode"], case["config"], case["history"], case.get("islands", 1)
    other = case["other"]
    pseed = 0 if case.get("zero") else 1000 + _vseed()      # "zero": pipeline seed 0 and optimiser seed 0 (valid seeds)
    kinds = sorted({op[0] for op in hist})
    viol = []

    def bad(code, what):
        key = {"part": "run", "mode": mode, "code": code, "history": "+".join(kinds) or "none"}
        if case.get("zero"):
            key["seed"] = 0
        if mode == "calibration":
            key["islands"] = islands
        viol.append((key, f"[{mode}{' islands=' + str(islands) if mode == 'calibration' else ''}] stochastic models "
                          f"{'+'.join(sub)}, pipeline_seed={pseed}, history {hist}: {what}"))

    set_prior("A")
    n = 0
    for op in hist:
        for code, what in _apply_history_op(op, mode, sub, pseed, td, islands, other):
            bad(code, what)
        n += 1
    del EXTRA[:]
    sig, exc, b, a = do_run(mode, sub, pseed, td, islands)
    n += 1
    for code, what in EXTRA:
        bad(code, what)
    del EXTRA[:]
    if exc is not None:
        raise RuntimeError(f"harness: fault-free run under test raised {type(exc).__name__}: {exc}") from exc
    if a != b:
        bad("state-not-restored", "the run under test changed the process-wide generator state")
    if reference is not None and sig != reference:
        bad("not-reproducible", f"result {sig} differs from the reference run {reference} of the same configuration "
            f"(started from a fresh generator state)")
    return viol, sig, n, shash(a)


def _run_shard(shard):
    td = tempfile.mkdtemp(prefix="vp_c04_")
    mode, sub, tier, islands = shard["mode"], shard["config"], shard["tier"], shard.get("islands", 1)
    cfgs = run_configs(tier)
    other = cfgs[(cfgs.index(sub) + 1) % len(cfgs)]
    viols, seen = [], set()
    counts = {"run_histories": 0, "transitions": 0, "runs_nontrivial": 0}
    states = set()
    try:
        hists, alpha = histories(mode, tier)
        base = {"part": "run", "mode": mode, "config": sub, "islands": islands, "other": other}
        if shard.get("zero"):
            base["zero"] = True
        v0, ref, n0, st0 = _run_history(dict(base, history=[]), td)
        # non-vacuity: another pipeline seed must give another result (the pipeline really is stochastic)
        set_prior("A")
        sig2, exc2, _, _ = do_run(mode, sub, 1000 + _vseed() + 1, td, islands)
        counts["runs_nontrivial"] = int(sig2 != ref)
        for h in hists:
            case = dict(base, history=h)
            v, sig, n, st = _run_history(case, td, reference=ref)
            counts["run_histories"] += 1
            counts["transitions"] += n
            states.add(f"{mode}:{'+'.join(sub)}:{islands}:{int(bool(shard.get('zero')))}:{st}:{sig}")
            for key, what in v:
                kk = repr(sorted(key.items()))
                if kk not in seen:
                    seen.add(kk)
                    viols.append({"key": key, "what": what, "case": dict(case, reference="recompute", vseed=_vseed())})
        counts["states"] = len(states)
    finally:
        shutil.rmtree(td, ignore_errors=True)
    return {"violations": viols, "counts": counts,
            "sets": {"run_configs": [f"{mode}:{'+'.join(sub)}:{islands}" + (":seed0" if shard.get("zero") else "")],
                     "explored": [f"run:{mode}@depth{2 if (tier == 'thorough' and mode != 'calibration') else 1}"]},
            "samples": [{"part": "run", "mode": mode, "config": sub, "history": hists[-1], "reference": ref}]}


# ===================================================================================== runner interface

def shards(tier, seed):
    os.environ["VERIF_SEED"] = str(seed)
    out = [{"part": "helper", "depth": 4 if tier == "quick" else 5, "tier": tier, "seed": seed}]
    for t in sorted(FIXTURES):               # static list: the runner process never imports pyxel
        out.append({"part": "model", "target": t, "tier": tier, "seed": seed})
    out.append({"part": "targets", "tier": tier, "seed": seed})
    for mode in ("exposure", "obs_seq", "obs_dask"):
        for sub in run_configs(tier):
            out.append({"part": "run", "mode": mode, "config": sub, "tier": tier, "seed": seed})
    cal_cfgs = run_configs(tier)
    cal_cfgs = [cal_cfgs[0], cal_cfgs[-1]] if tier == "quick" else [cal_cfgs[0], cal_cfgs[7], cal_cfgs[-1]]
    for sub in cal_cfgs:
        for isl in (1, 2):
            out.append({"part": "run", "mode": "calibration", "config": sub, "islands": isl, "tier": tier, "seed": seed})
    # the seed value 0 (pipeline seed and optimiser seed) on the first configuration of every mode
    first = run_configs(tier)[0]
    for mode in ("exposure", "obs_seq", "obs_dask"):
        out.append({"part": "run", "mode": mode, "config": first, "tier": tier, "seed": seed, "zero": True})
    for isl in (1, 2):
        out.append({"part": "run", "mode": "calibration", "config": first, "islands": isl, "tier": tier, "seed": seed,
                    "zero": True})
    # slowest first
    order = {"run": 0, "model": 1, "helper": 2, "targets": 3}
    out.sort(key=lambda s: (order[s["part"]], 0 if s.get("mode") in ("calibration", "obs_dask") else 1))
    return out


def run_shard(shard):
    os.environ["VERIF_SEED"] = str(shard.get("seed", 0))
    if shard["part"] == "helper":
        return _helper_shard(shard)
    if shard["part"] == "model":
        return _model_shard(shard)
    if shard["part"] == "targets":
        targets, sites, errors = all_targets()
        uncovered = [t for t in targets if t not in FIXTURES]
        return {"violations": [], "counts": {},
                "sets": {"targets_found": sorted(targets), "targets_uncovered": sorted(uncovered),
                         "global_seed_sites": sorted(k for k, v in targets.items() if "global-seed-call" in v),
                         "import_errors": sorted(errors),
                         "fixtures_without_target": sorted(set(FIXTURES) - set(targets))},
                "samples": []}
    return _run_shard(shard)


def replay(case):
    os.environ["VERIF_SEED"] = str(case.get("vseed", case.get("seed", 0)))
    part = case["part"]
    out = []
    if part == "helper":
        for v in seqx.run_sequence(HelperModel(), case["ops"]):
            out.append({"key": v["key"], "what": v["what"], "case": dict(case, ops=v["ops"])})
        return out
    td = tempfile.mkdtemp(prefix="vp_c04_")
    try:
        if part == "model":
            viol, _, _ = _model_case(case, td)
        else:
            _, ref, _, _ = _run_history(dict(case, history=[]), td)
            viol, _, _, _ = _run_history(case, td, reference=ref)
        return [{"key": k, "what": w, "case": case} for k, w in viol]
    finally:
        shutil.rmtree(td, ignore_errors=True)


def coverage(tier, seed, agg):
    c, s = agg["counts"], agg["sets"]
    found = s.get("targets_found", [])
    covered = s.get("targets_covered", [])
    return {
        "states": c.get("states", 0),
        "transitions": c.get("transitions", 0),
        "traces_validated_against_impl": c.get("transitions", 0),
        "exhaustive": c.get("cap_hit", 0) == 0,
        "caps_hit": c.get("cap_hit", 0),
        "helper_transitions": c.get("helper_transitions", 0),
        "model_executions": c.get("model_executions", 0),
        "fault_sites": c.get("fault_sites", 0),
        "run_histories": c.get("run_histories", 0),
        "run_configs": len(s.get("run_configs", [])),
        "run_configs_nontrivial": c.get("runs_nontrivial", 0),
        "distinct_model_outcomes": len(s.get("model_outcomes", [])),
        "explored": s.get("explored", []),
        "targets_found": found,
        "targets_covered": covered,
        "targets_uncovered": s.get("targets_uncovered", []),
        "global_seed_sites": s.get("global_seed_sites", []),
        "zero_draw_targets": s.get("zero_draw_targets", []),
        "fixtures_without_target": s.get("fixtures_without_target", []),
        "import_errors": s.get("import_errors", []),
        "bound": ("helper: all operation sequences up to the depth in `explored`; model: targets x seeds "
                  f"{list(MODEL_SEEDS[tier])} x prior states {list(MODEL_PRIORS[tier])} x every observed draw faulted once; "
                  "run: all histories up to the depth in `explored` over the alphabet {draw 1/1000, np.random.seed(0/k), run "
                  "same config, run other config, run failing at each probe position x step}"),
        "rule": "states = distinct canonical generator-stack states (helper) + distinct model outputs + distinct "
                "(configuration, generator state after history, result) triples (run); every transition is executed on the "
                "implementation",
    }
