"""C05 - an observation runs exactly the requested parameter space, each element once, correctly labelled.

Bounded exhaustive enumeration (vp.cfgx) of parameter sets over a key palette (two detector fields, scalar and
vector arguments of two probe models, colliding short names), value lists given literally / as numpy expressions,
enabled/disabled patterns, the three modes (product / sequential / custom with generated table files) and the two
executions (sequential, dask under the synchronous scheduler).  Every observation is run through `pyxel.run_mode`
with probe models that log what they really received and write an injective encoding of it into the buckets.  The
oracle is a 15-line reference definition of the three parameter spaces.
"""
from __future__ import annotations

import itertools
import os
import shutil
import tempfile
from collections import Counter

import numpy as np

from vp import cfgx, cprobes, mk, probes
from vp.obsutil import (Problem, bucket_dataset, coord_candidates, entry_arrays, label_equal as _label_equal,
                        positions_of, run_dim_of)

ID = "C05"
LEVEL = "exploration"
ENGINE = "cfgx"
TIMEOUT = 1500
TECHNIQUE = ("bounded exhaustive enumeration of observation parameter spaces (ordered parameter sets over a palette of 8 "
             "parameter kinds x value-list lengths x literal/numpy forms x enabled patterns x product/sequential/custom x "
             "sequential/dask execution) executed through pyxel.run_mode with encoding probe models; executed run multiset "
             "and label->data correspondence compared with a reference definition of the three spaces")
LEVEL_TEXT = ("Every member of the bounded family of observations is executed on the real entry point. The probe models log "
              "the argument values and detector fields each run really received and write them into pixel/signal/photon. "
              "Checked per observation: the multiset of executed assignments equals the reference space (dask: plus at most "
              "one metadata run of an element of the space); the result holds exactly one entry per element; selecting an "
              "entry by its coordinate labels (value coordinate, <name>_id coordinate of vector parameters, or run index) "
              "and decoding its data returns exactly that element; labels attached to a run index equal the values used."
              " Value lists are also written as text ('[..]', '(..)', 'range(..)'), as tuples and as lists of text elements; every plain case of up to 3 parameters is additionally executed through the legacy entry point pyxel.observation_mode (exec=legacy).")
LEVEL_NOTE = ("Bounded: <=2 parameters (quick) / <=4 (thorough, size 4 with <=2 disabled), lists of <=3 distinct numeric "
              "values, vectors of length 2-3, tables of <=3 rows, one readout step. Probe models stand in for real models "
              "(the sweep machinery does not look inside a model). Trusted: the reference definitions of the three modes "
              "(taken from the property statement), numpy for evaluating the expression strings in the oracle, xarray "
              "selection.")
DESIGN_REF = "DESIGN.md section 4, C05"
RULE = ("cases = ordered parameter sets over the kind palette (no two kinds with the same key) x list lengths x value forms x "
        "non-empty enabled patterns x mode x execution (custom: x table rows x column_range variant); a case is non-trivial "
        "when its reference space has >= 2 elements; distinct = distinct (mode, execution, reference space, label layout) "
        "signatures observed")
NSHARDS = 96
ASSUMPTIONS = [
    "value lists hold distinct numeric values (selection by value label is only well defined then)",
    "custom tables have no trailing unused columns: the statement does not fix whether column_range's end is inclusive",
    "an observation with no enabled parameter is not part of the family (the statement does not define its space)",
    "dask execution is exercised under dask.config.set(scheduler='synchronous'); schedules are C07's subject",
]

K_T = "detector.environment.temperature"
K_Q = "detector.characteristics.quantum_efficiency"
K_A1 = "pipeline.photon_collection.p1.arguments.a"
K_B1 = "pipeline.photon_collection.p1.arguments.b"
K_V1 = "pipeline.photon_collection.p1.arguments.v"
K_A2 = "pipeline.charge_generation.p2.arguments.a"
K_V2 = "pipeline.charge_generation.p2.arguments.v"

# kind -> (key, slot in the assignment, vector length or 0)
KINDS = {
    "T": (K_T, "T", 0), "Q": (K_Q, "Q", 0), "A1": (K_A1, "A1", 0), "B1": (K_B1, "B1", 0),
    "V1x2": (K_V1, "V1", 2), "V1x3": (K_V1, "V1", 3), "A2": (K_A2, "A2", 0), "V2x3": (K_V2, "V2", 3),
}
KIND_ORDER = ["T", "Q", "A1", "B1", "V1x2", "V1x3", "A2", "V2x3"]
ROWS, COLS = 3, 4


def _s():
    return int(os.environ.get("VERIF_SEED", "0") or 0) % 5


def configured(case=None, final=True):
    """The user's configured values (what every non-swept setting must keep).  The configured vector `v` of p1 has
    the length of the swept vectors, except in the cases marked "cfglen2" (configured length 2, swept length 3).
    Cases marked rerun="edit"/"other": the observation object is run a second time after the user changed the
    configured values (in place / by passing other objects); final=True gives the values of that second run."""
    s = _s()
    v1 = (3.0, 4.0, 4.5) if case is not None and "V1x3" in case["kinds"] and not case.get("cfglen2") else (3.0, 4.0)
    c = {"T": 100.0 + s, "Q": 0.5, "A1": 1.0 + s, "B1": 2.0, "V1": v1, "A2": 7.0 + s, "B2": 0.25,
         "V2": (8.0, 9.0, 9.5)}
    if final and case is not None and case.get("rerun") in ("edit", "other"):
        c.update({"T": 171.0 + s, "A1": 81.0 + s, "B1": 82.5, "A2": 87.0 + s, "B2": 0.75})
    return c


def values_of(kind, n, form, case=None):
    """(python values of the list, the `values` object handed to ParameterValues)."""
    vals, obj = _values_of(kind, n, form)
    if case is not None and case.get("dup") and len(vals) >= 3 and isinstance(obj, list):
        # the last value repeats the first one (a value listed twice is requested twice)
        vals = list(vals[:-1]) + [vals[0]]
        obj = [list(v) if isinstance(v, (list, tuple)) else v for v in vals]
    if case is not None and case.get("cfgval") and isinstance(obj, list) and not KINDS[kind][2]:
        # the list contains the value the parameter is configured with (last position)
        vals = list(vals[:-1]) + [configured(case)[KINDS[kind][1]]]
        obj = list(vals)
    return vals, obj


def _values_of(kind, n, form):
    # further ways of writing a value list (pyxel.evaluator.eval_range): a Python expression given as text
    # ("[1, 2]" / "range(..)" / a tuple in text), a tuple object, a bare number for a one-element list
    if form == "strelems":
        # a list whose ELEMENTS are text ('1e3'-like numbers arrive like this from a YAML file): each denotes its number
        vals, _ = _values_of(kind, n, "lit")
        return vals, [repr(v) for v in vals]
    if form in ("strlist", "strtuple", "tuple"):
        vals, _ = _values_of(kind, n, "lit")
        if form == "strlist":
            return vals, str([list(v) if isinstance(v, (list, tuple)) else v for v in vals])
        if form == "strtuple":
            return vals, str(tuple(vals)) if len(vals) > 1 else f"({vals[0]!r},)"
        return vals, tuple(vals)
    if form == "strrange":
        start = {"T": 150, "A1": 0, "A2": 10}[kind] + _s()
        vals = [start + 20 * i for i in range(n)]
        return vals, f"range({start}, {start + 20 * n}, 20)"
    s = _s()
    if kind == "T":
        vals = [150 + s + 100 * i for i in range(n)]
        if form == "nparray":
            vals = [float(v) for v in vals]
            return vals, f"numpy.array({vals})"
        if form == "nprange":
            vals = [float(v) for v in vals]
            return vals, f"numpy.linspace({vals[0]}, {vals[-1]}, {n})"
        return vals, list(vals)
    if kind == "Q":
        if form == "nprange":
            vals = [0.125 + 0.125 * i for i in range(n)]
            return vals, f"numpy.linspace({vals[0]}, {vals[-1]}, {n})"
        vals = [0.125, 0.25, 0.75][:n]
        if form == "nparray":
            return vals, f"numpy.array({vals})"
        return vals, list(vals)
    # NB: the first swept value of the scalar model arguments is 0 / 0.0 - a legal value that is falsy in Python
    # (seeded variant C05_1: `value or default`); the configured values are all different from 0
    if kind in ("A1", "A2"):
        base = (10 if kind == "A1" else 12) + s
        if form == "nprange":
            vals = [10 * i for i in range(n)]
            return vals, f"numpy.arange(0, {vals[-1] + 1}, 10)"
        vals = [0] + [base + 10 * i for i in range(1, n)]
        if form == "nparray":
            return vals, f"numpy.array({vals})"
        # literal lists are NOT ascending (seeded variant C05_3: labels sorted, runs in declaration order)
        vals = vals[1:][::-1] + vals[:1] if kind == "A1" else vals[::-1]
        return vals, list(vals)
    if kind == "B1":
        if form == "nprange":
            vals = [10.0 * i for i in range(n)]
            return vals, f"numpy.arange(0.0, {vals[-1] + 1.0}, 10.0)"
        vals = [0.0] + [11.5 + s + 10 * i for i in range(1, n)]
        if form == "nparray":
            return vals, f"numpy.array({vals})"
        return vals, list(vals)
    if kind == "V1x2":
        vals = [[1 + s + 2 * i, 2 + 2 * i] for i in range(n)][::-1]          # descending
    elif kind == "V1x3":
        vals = [[1 + s + 3 * i, 2 + 3 * i, 3 + 3 * i] for i in range(n)]
    elif kind == "V2x3":
        vals = [[1.5 + s + 3 * i, 2.5 + 3 * i, 3.5 + 3 * i] for i in range(n)]
    else:
        raise KeyError(kind)
    return vals, [list(v) for v in vals]


def table_values(kind, nrows):
    """values of one parameter in the rows of a custom-mode table (column blocks)."""
    return values_of(kind, nrows, "lit")[0]


def forms_of(kind, n=None):
    # (a bare number instead of a list and a list of vectors written as text are refused loudly by the library: neither
    #  is "a list given literally or as a numpy expression", so they are not part of the family)
    if KINDS[kind][2]:
        return ("lit",)
    out = ("lit", "nparray", "nprange", "strlist", "strtuple", "tuple")
    if kind in ("A1", "B1", "A2", "T"):
        out += ("strelems",)
    if kind in ("T", "A1", "A2"):
        out += ("strrange",)
    return out


# ---------------------------------------------------------------- enumeration

def _ordered_sets(size, orders):
    """parameter-kind tuples of the given size without two kinds of the same key; `orders`: subset of
    {"canon","rev","rot"}"""
    out = []
    for combo in itertools.combinations(KIND_ORDER, size):
        keys = [KINDS[k][0] for k in combo]
        if len(set(keys)) != len(keys):
            continue
        seen = []
        for o in orders:
            t = {"canon": combo, "rev": combo[::-1], "rot": combo[1:] + combo[:1]}[o]
            if t not in seen:
                seen.append(t)
        out.extend(seen)
    return out


def _form_pat(kinds, pat):
    """pat: 'lit' | 'np' (nparray for even positions, nprange for odd ones, where the kind allows)"""
    out = []
    for i, k in enumerate(kinds):
        if pat == "txt":
            out.append("lit" if KINDS[k][2] else ("strlist" if i % 2 == 0 else "tuple"))
        elif pat == "lit" or KINDS[k][2]:
            out.append("lit")
        else:
            out.append("nparray" if i % 2 == 0 else "nprange")
    return out


def _enabled_patterns(k, max_disabled=None):
    pats = [p for p in itertools.product([True, False], repeat=k) if any(p)]
    if max_disabled is not None:
        pats = [p for p in pats if p.count(False) <= max_disabled]
    return [list(p) for p in pats]


def enumerate_cases(tier, seed):
    thorough = tier == "thorough"
    cases = []

    def add(kinds, lens, forms, enabled, mode, ex, rows=None, cr=None):
        cases.append({"kinds": list(kinds), "lens": list(lens), "forms": list(forms), "enabled": list(enabled),
                      "mode": mode, "exec": ex, "rows": rows, "cr": cr})

    EXEC = ("seq", "dask")
    # ---- size 1: every kind x every length x every form
    for (kind,) in _ordered_sets(1, ["canon"]):
        for n in (1, 2, 3):
            for form in forms_of(kind, n):
                for mode in ("product", "sequential"):
                    for ex in EXEC:
                        add([kind], [n], [form], [True], mode, ex)
        for rows in (1, 2, 3):
            for cr in ("zero", "lead", "none"):
                for ex in EXEC:
                    add([kind], [1], ["lit"], [True], "custom", ex, rows, cr)
    # ---- size 2: all ordered pairs
    L2 = [(2, 3), (2, 1)] if not thorough else [(a, b) for a in (1, 2, 3) for b in (1, 2, 3)]
    for kinds in _ordered_sets(2, ["canon", "rev"]):
        for lens in L2:
            for en in _enabled_patterns(2):
                for pat in ("lit", "np", "txt"):
                    forms = _form_pat(kinds, pat)
                    if pat in ("np", "txt") and forms == _form_pat(kinds, "lit"):
                        continue
                    if not thorough and pat in ("np", "txt") and not all(en):
                        continue
                    for mode in ("product", "sequential"):
                        for ex in EXEC:
                            add(kinds, lens, forms, en, mode, ex)
        for rows in ((2,) if not thorough else (1, 2, 3)):
            for cr in ("zero", "lead", "none"):
                for en in _enabled_patterns(2):
                    if cr == "none" and not all(en):
                        continue
                    for ex in EXEC:
                        add(kinds, [1, 1], ["lit", "lit"], en, "custom", ex, rows, cr)
    # ---- size 3, colliding short names ('a' of p1 / p2, 'v' of p1 / p2) in EVERY declaration order, so that the two
    #      colliding parameters are adjacent and separated by a third one (seeded variant C05_2)
    for trio in (("A1", "B1", "A2"), ("V1x2", "T", "V2x3"), ("A1", "Q", "A2")):
        for kinds in itertools.permutations(trio):
            for en in ([True, True, True], [True, False, True]) if kinds[1] in ("B1", "T", "Q") else ([True, True, True],):
                for mode in ("product", "sequential"):
                    for ex in EXEC:
                        add(kinds, (2, 1, 2), ["lit"] * 3, en, mode, ex)
            for ex in EXEC:
                add(kinds, [1, 1, 1], ["lit"] * 3, [True] * 3, "custom", ex, 2, "zero")
    # ---- the same Observation object run twice: unchanged / configured values edited in place / other objects passed
    for kinds, lens in ((("A1", "T"), (2, 2)), (("T", "A1"), (2, 1)), (("A1", "B1", "A2"), (2, 1, 2)), (("Q",), (2,))):
        for rerun in ("same", "edit", "other"):
            for mode in ("product", "sequential"):
                for ex in EXEC:
                    add(kinds, lens, ["lit"] * len(kinds), [True] * len(kinds), mode, ex)
                    cases[-1]["rerun"] = rerun
        for rerun in ("edit", "other"):
            for ex in EXEC:
                add(kinds, [1] * len(kinds), ["lit"] * len(kinds), [True] * len(kinds), "custom", ex, 2, "zero")
                cases[-1]["rerun"] = rerun
    # ---- swept lists that contain the configured value of their parameter (sequential steps that resolve to identical
    #      settings are still separate runs).  NB: a value listed TWICE in one list is outside the property (its two
    #      entries would carry the same label; the parallel path refuses such lists) - see seeded/C05_9/note.txt
    for kinds, lens in ((("A1", "B1"), (3, 2)), (("T", "A1"), (2, 3))):
        for ex in EXEC:
            add(kinds, lens, ["lit"] * len(kinds), [True] * len(kinds), "sequential", ex)
            cases[-1]["cfgval"] = True
    # ---- long sweeps given as numpy expressions (more values than the expression has characters)
    for kinds, lens in ((("A1", "T"), (40, 2)), (("T", "A1"), (2, 40)), (("B1",), (30,))):
        for mode in ("product", "sequential"):
            for ex in EXEC:
                add(kinds, lens, ["nprange" if n > 3 else "lit" for n in lens], [True] * len(kinds), mode, ex)
    # ---- a swept vector longer than the configured one, next to a scalar parameter (sequential: the runs of the scalar
    #      parameter use - and are labelled with - the shorter configured vector)
    for kinds in (("A1", "V1x3"), ("V1x3", "A1"), ("V1x3", "V2x3")):
        for mode in ("product", "sequential"):
            for ex in EXEC:
                add(kinds, (2, 2), ["lit", "lit"], [True, True], mode, ex)
                cases[-1]["cfglen2"] = True
    if thorough:
        # ---- size 3: canonical and reversed order; several length vectors; all enabled patterns on one of them
        L3 = [(2, 3, 1), (1, 2, 3), (3, 1, 2), (2, 2, 2)]
        for kinds in _ordered_sets(3, ["canon", "rev"]):
            for li, lens in enumerate(L3):
                for en in (_enabled_patterns(3) if li == 0 else [[True] * 3]):
                    for pat in ("lit", "np"):
                        forms = _form_pat(kinds, pat)
                        if pat == "np" and (forms == _form_pat(kinds, "lit") or li > 1 or not all(en)):
                            continue
                        for mode in ("product", "sequential"):
                            for ex in EXEC:
                                add(kinds, lens, forms, en, mode, ex)
            for rows in (1, 3):
                for cr in ("zero", "lead"):
                    for en in (_enabled_patterns(3) if rows == 3 else [[True] * 3]):
                        for ex in EXEC:
                            add(kinds, [1, 1, 1], ["lit"] * 3, en, "custom", ex, rows, cr)
        # ---- size 4: canonical order, lengths (2,1,2,2), <= 2 parameters disabled (2-deviations from all enabled)
        for kinds in _ordered_sets(4, ["canon"]):
            for en in _enabled_patterns(4, max_disabled=2):
                for mode in ("product", "sequential"):
                    for ex in EXEC:
                        add(kinds, (2, 1, 2, 2), _form_pat(kinds, "lit" if sum(en) % 2 else "np"), en, mode, ex)
                if en.count(False) <= 1:
                    for ex in EXEC:
                        add(kinds, [1] * 4, ["lit"] * 4, en, "custom", ex, 2, "zero")
    # ---- the legacy entry point pyxel.observation_mode (deprecated, still public; its own implementation of the three
    #      modes): every plain case (no re-run / special marker) of up to 2 parameters (thorough: all sizes), and the
    #      colliding-name trios
    legacy = []
    for c in cases:
        if c["exec"] != "seq" or any(c.get(k) for k in ("rerun", "cfglen2", "cfgval", "dup")) or max(c["lens"]) > 3:
            continue
        if not thorough and len(c["kinds"]) > 3:
            continue
        legacy.append(dict(c, exec="legacy"))
    return cases + legacy


# ---------------------------------------------------------------- reference model

def _canon_val(v):
    if isinstance(v, (list, tuple, np.ndarray)):
        return tuple(float(x) for x in v)
    return float(v)


def reference_space(case):
    """List of elements; element = {slot: value} for the *enabled* parameters only (declaration order kept)."""
    params = []
    for kind, n, form, en in zip(case["kinds"], case["lens"], case["forms"], case["enabled"]):
        if not en:
            continue                                     # disabled parameters are ignored
        slot = KINDS[kind][1]
        if case["mode"] == "custom":
            vals = table_values(kind, case["rows"])
        else:
            vals = values_of(kind, n, form, case)[0]
        params.append((slot, [_canon_val(v) for v in vals]))
    if case["mode"] == "product":
        return [dict(zip([s for s, _ in params], combo)) for combo in itertools.product(*[v for _, v in params])]
    if case["mode"] == "sequential":
        return [{s: v} for s, vals in params for v in vals]         # the others keep their configured values
    return [{s: vals[r] for s, vals in params} for r in range(case["rows"])]   # custom: one run per table row


def full_assignment(elem, case):
    d = {k: _canon_val(v) for k, v in configured(case).items()}
    d.update(elem)
    return d


def _freeze(assign):
    return tuple(sorted(assign.items()))


# ---------------------------------------------------------------- construction

def build_pipeline(case, final=False):
    c = configured(case, final)
    return mk.pipeline({
        "photon_collection": [("vp.cprobes.enc", "p1", {"slot": 0, "a": c["A1"], "b": c["B1"], "v": list(c["V1"])}, True)],
        "charge_generation": [("vp.cprobes.enc", "p2", {"slot": 1, "a": c["A2"], "b": c["B2"], "v": list(c["V2"])}, True)],
    })


def build_detector(case, final=False):
    c = configured(case, final)
    return mk.detector("ccd", ROWS, COLS, temperature=c["T"], char_kw={"quantum_efficiency": c["Q"]})


def write_table(case, folder):
    """Table with one column block per *enabled* parameter in declaration order (+ a leading junk column for
    cr == 'lead').  Returns (path, column_range or None)."""
    cols = []
    for kind, en in zip(case["kinds"], case["enabled"]):
        if not en:
            continue
        vals = table_values(kind, case["rows"])
        if KINDS[kind][2]:
            for j in range(KINDS[kind][2]):
                cols.append([v[j] for v in vals])
        else:
            cols.append(list(vals))
    lead = 1 if case["cr"] == "lead" else 0
    if lead:
        cols.insert(0, [999 for _ in range(case["rows"])])
    path = os.path.join(folder, f"table_{_s()}.txt")
    with open(path, "w") as fh:
        for r in range(case["rows"]):
            fh.write(" ".join(repr(c[r]) for c in cols) + "\n")
    cr = None if case["cr"] == "none" else (lead, len(cols))
    return path, cr


def build_parameters(case):
    from pyxel.observation import ParameterValues

    out = []
    for kind, n, form, en in zip(case["kinds"], case["lens"], case["forms"], case["enabled"]):
        key, slot, veclen = KINDS[kind]
        if case["mode"] == "custom":
            vals = ["_"] * veclen if veclen else "_"
        else:
            vals = values_of(kind, n, form, case)[1]
        out.append(ParameterValues(key=key, values=vals, enabled=en))
    return out


# ---------------------------------------------------------------- observation of the result

def decode_entry(ds_sel):
    """Decode the single remaining entry (dims time,y,x) into the assignment its data was produced with."""
    out = {k: np.asarray(v[0], dtype=float) for k, v in entry_arrays(ds_sel).items()}
    p1, p2 = cprobes.decode_slot(out["pixel"]), cprobes.decode_slot(out["signal"])
    return {"T": float(out["photon"].flat[0]), "Q": float(out["photon"].flat[1]),
            "A1": p1["a"], "B1": p1["b"], "V1": tuple(p1["v"]),
            "A2": p2["a"], "B2": p2["b"], "V2": tuple(p2["v"])}


# ---------------------------------------------------------------- the check

def run_case(case):
    import dask
    import pyxel
    from pyxel.observation import Observation

    mode, ex = case["mode"], case["exec"]
    viol = []
    en_kinds = [k for k, e in zip(case["kinds"], case["enabled"]) if e]
    n_en = len(en_kinds)
    veclens = sorted({KINDS[k][2] for k in en_kinds if KINDS[k][2]})

    def bad(code, what, **extra):
        key = {"mode": mode, "exec": ex, "code": code, "multi": n_en >= 2}
        if case.get("rerun"):
            key["rerun"] = case["rerun"]
        if case.get("cfglen2"):
            key["cfglen2"] = True
        if mode == "custom":
            key["cr"] = case["cr"]
        key.update(extra)
        viol.append((key, f"[{mode}/{ex}] {what}; parameters(kind,len,form,enabled)="
                     f"{list(zip(case['kinds'], case['lens'], case['forms'], case['enabled']))}"
                     + (f" table rows={case['rows']} column_range={case['cr']}" if mode == "custom" else "")))

    ref = reference_space(case)
    ref_full = [full_assignment(e, case) for e in ref]
    sig_base = [mode, ex, [sorted(e.items()) for e in ref], case.get("rerun"), case.get("cfglen2"), case.get("dup"),
                case.get("cfgval")]
    nontrivial = len(ref) >= 2
    tmp = tempfile.mkdtemp(prefix="vp_c05_")
    probes.reset()
    try:
        # ---- construction
        try:
            kw = {}
            if mode == "custom":
                path, cr = write_table(case, tmp)
                kw = {"from_file": path, "column_range": cr}
            det, pipe = build_detector(case), build_pipeline(case)
            obs = Observation(parameters=build_parameters(case), mode=mode, readout=mk.readout([1.0]),
                              with_dask=(ex == "dask"), **kw)
        except Exception as e:  # noqa: BLE001
            bad("raised", f"constructing the observation raised {type(e).__name__}: {str(e)[:200]}", stage="construct")
            return {"viol": viol, "sig": cfgx.sig(sig_base + ["construct-raised"]), "nontrivial": nontrivial}
        # ---- execution
        try:
            with dask.config.set(scheduler="synchronous"):
                if case.get("rerun"):
                    # the SAME observation object is used twice; the second run is the one under test
                    first = pyxel.run_mode(obs, det, pipe, with_inherited_coords=True)
                    bucket_dataset(first).load()
                    fin = configured(case, True)
                    if case["rerun"] == "edit":
                        det.environment.temperature = fin["T"]
                        pipe.photon_collection.p1.arguments["a"] = fin["A1"]
                        pipe.photon_collection.p1.arguments["b"] = fin["B1"]
                        pipe.charge_generation.p2.arguments["a"] = fin["A2"]
                        pipe.charge_generation.p2.arguments["b"] = fin["B2"]
                    elif case["rerun"] == "other":
                        det, pipe = build_detector(case, True), build_pipeline(case, True)
                    probes.reset()
                if ex == "legacy":
                    legacy_result = pyxel.observation_mode(obs, det, pipe)
                    ds = legacy_result.dataset
                    if isinstance(ds, dict):       # sequential: one dataset per parameter; only the executed runs are judged
                        ds = None
                    else:
                        ds = ds.rename({"readout_time": "time"}).load()
                        # the legacy result labels a vector-valued parameter with an index '<name>_id'; the vectors
                        # themselves are in the separate 'parameters' dataset: attach them as a coordinate on that index
                        par = legacy_result.parameters
                        for name in list(par.data_vars):
                            idn = f"{name}_id"
                            if idn in ds.dims and name not in ds.coords and par[name].dims[0] == idn:
                                ds = ds.assign_coords({name: par[name].sel({idn: ds.coords[idn]})})
                else:
                    result = pyxel.run_mode(obs, det, pipe, with_inherited_coords=True)
                    ds = bucket_dataset(result)
                    ds = ds.load()
        except Problem as p:
            bad(p.code, p.text)
            return {"viol": viol, "sig": cfgx.sig(sig_base + [p.code]), "nontrivial": nontrivial}
        except Exception as e:  # noqa: BLE001
            bad("raised", f"running the observation raised {type(e).__name__}: {str(e)[:300]}", stage="run",
                mixed_vector_lengths=len(veclens) >= 2)
            return {"viol": viol, "sig": cfgx.sig(sig_base + ["run-raised"]), "nontrivial": nontrivial}
        trace = list(probes.TRACE)
    finally:
        shutil.rmtree(tmp, ignore_errors=True)

    # ---- (1) executed runs: multiset of assignments really received
    runs = []
    ok_structure = len(trace) % 2 == 0
    for i in range(0, len(trace) - 1, 2):
        a, b = trace[i], trace[i + 1]
        if a["name"] != "p1" or b["name"] != "p2":
            ok_structure = False
            break
        sa, sb = a["seen"], b["seen"]
        if (sa["temperature"], sa["qe"]) != (sb["temperature"], sb["qe"]):
            bad("detector-fields-changed-mid-run", f"p1 saw T/QE {sa['temperature'], sa['qe']}, p2 saw "
                f"{sb['temperature'], sb['qe']} within one run")
        runs.append({"T": sa["temperature"], "Q": sa["qe"], "A1": sa["a"], "B1": sa["b"], "V1": tuple(sa["v"]),
                     "A2": sb["a"], "B2": sb["b"], "V2": tuple(sb["v"])})
    if not ok_structure:
        bad("trace-structure", f"model calls are not a sequence of (p1, p2) runs: {[t['name'] for t in trace][:20]}")
    else:
        got = Counter(_freeze(r) for r in runs)
        want = Counter(_freeze(r) for r in ref_full)
        foreign = [dict(k) for k in got if k not in want]
        missing = [dict(k) for k in want if got[k] < want[k]]
        extra = sum(max(0, got[k] - want[k]) for k in want)
        allowed_extra = 1 if ex == "dask" else 0      # the documented metadata run of one element
        if foreign:
            bad("run-set", f"{len(foreign)} executed run(s) are not elements of the requested space, e.g. "
                f"{_short(foreign[0])}; requested {len(ref)} element(s), executed {len(runs)} run(s)", sub="foreign")
        if missing:
            bad("run-set", f"{len(missing)} element(s) of the requested space were never run, e.g. {_short(missing[0])}; "
                f"requested {len(ref)} element(s), executed {len(runs)} run(s)", sub="missing")
        if extra > allowed_extra:
            bad("run-set", f"elements were run more often than requested ({extra} extra run(s), allowed {allowed_extra})",
                sub="duplicate")

    # ---- (2) result entries and labels
    layout = []
    if ds is None:
        return {"viol": viol, "sig": cfgx.sig(sig_base + ["legacy-sequential"]), "nontrivial": nontrivial,
                "n": max(1, len(runs)), "outcome": {"elements": len(ref), "runs": len(runs), "layout": "legacy-sequential"}}
    try:
        enabled_keys = [KINDS[k][0] for k in en_kinds]
        names = {}
        for k in en_kinds:
            key = KINDS[k][0]
            names[k] = next((c for c in coord_candidates(key, enabled_keys) if c in ds.coords), None)
        if mode == "product":
            nent = int(np.prod([ds["pixel"].sizes[d] for d in ds["pixel"].dims if d not in ("time", "y", "x")]))
            if nent != len(ref):
                bad("entries", f"result holds {nent} entries for a space of {len(ref)} elements "
                    f"(dims {dict(ds['pixel'].sizes)})")
            for k in en_kinds:
                if names[k] is None:
                    raise Problem("label-missing", f"no coordinate for swept key {KINDS[k][0]!r} "
                                  f"(looked for {coord_candidates(KINDS[k][0], enabled_keys)}) in {list(ds.coords)}")
            layout = [[names[k], list(ds.coords[names[k]].dims)] for k in en_kinds]
            # declared value lists (a value may be listed more than once: its entries are told apart by their order)
            declared = {}
            for kind, n_, form_, en_ in zip(case["kinds"], case["lens"], case["forms"], case["enabled"]):
                if en_:
                    declared[kind] = [_canon_val(v) for v in values_of(kind, n_, form_, case)[0]]
            idx_combos = list(itertools.product(*[range(len(declared[k])) for k in en_kinds]))
            for (elem, full), combo in zip(zip(ref, ref_full), idx_combos):
                sel = ds
                for k, i_k in zip(en_kinds, combo):
                    slot = KINDS[k][1]
                    dim, pos = positions_of(sel, names[k], elem[slot])
                    mult = declared[k].count(declared[k][i_k])
                    occ = declared[k][:i_k].count(declared[k][i_k])
                    if len(pos) != mult:
                        raise Problem("label-count", f"{len(pos)} entries carry the label {names[k]}={elem[slot]}, the value "
                                      f"is listed {mult} time(s) (labels: {sel.coords[names[k]].values.tolist()})")
                    sel = sel.isel({dim: [pos[occ]]})
                got = decode_entry(sel)
                if got != full:
                    bad("select-data", f"the entry labelled {_short(elem)} holds data produced with "
                        f"{_short(_diff(got, full))} (expected exactly the labelled values, others as configured)")
                    break
        else:
            rd = run_dim_of(ds)
            n = ds["pixel"].sizes[rd]
            if n != len(ref):
                bad("entries", f"result holds {n} entries along {rd!r} for a space of {len(ref)} elements")
            ids = ds.coords[rd].values.tolist() if rd in ds.coords else list(range(n))
            layout = [[names[k], list(ds.coords[names[k]].dims)] if names[k] else [None, []] for k in en_kinds]
            for i, (elem, full) in enumerate(zip(ref, ref_full)):
                pos = [p for p, lab in enumerate(ids) if lab == i]
                if len(pos) != 1:
                    raise Problem("label-count", f"{len(pos)} entries carry the run index {i} (indices: {ids})")
                sel = ds.isel({rd: pos})
                got = decode_entry(sel)
                if got != full:
                    bad("select-data", f"the entry with run index {i} (element {_short(elem)}) holds data produced with "
                        f"{_short(_diff(got, full))}")
                    break
                # labels attached to this run index must be the values used
                for k in en_kinds:
                    if names[k] is None:
                        continue
                    c = sel.coords[names[k]]
                    if rd not in c.dims:
                        continue
                    lab = c.isel({rd: 0}).values
                    if _is_nan(lab):
                        continue
                    if not _label_equal(lab, full[KINDS[k][1]]):
                        bad("label-wrong", f"run index {i} is labelled {names[k]}={_tolist(lab)} but was produced with "
                            f"{full[KINDS[k][1]]}")
                        break
    except Problem as p:
        bad(p.code, p.text)
    except Exception as e:  # noqa: BLE001
        bad("result-unreadable", f"inspecting the result raised {type(e).__name__}: {str(e)[:300]}")

    return {"viol": viol, "sig": cfgx.sig(sig_base + [layout]), "nontrivial": nontrivial, "n": max(1, len(runs)),
            "outcome": {"elements": len(ref), "runs": len(runs), "layout": layout}}


def _is_nan(x):
    try:
        return bool(np.all(np.isnan(np.asarray(x, dtype=float))))
    except Exception:  # noqa: BLE001
        return False


def _tolist(x):
    return x.tolist() if isinstance(x, np.ndarray) else x


def _short(d):
    return "{" + ", ".join(f"{k}={v}" for k, v in d.items()) + "}"


def _diff(got, want):
    return {k: got[k] for k in got if got[k] != want.get(k)} or got


cfgx.install(__import__("sys").modules[__name__])
