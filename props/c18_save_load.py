"""C18 - a detector saved to a file and loaded back is the same detector.

Bounded exhaustive enumeration (vp.cfgx) of

  roundtrip   detector type x property palette x combination of initialised containers, written with
              Detector.save / Detector.to_asdf (".asdf"; ".h5" / ".hdf5" only when h5py imports) and read back with
              Detector.load / Detector.from_asdf.  Original and reloaded detector are compared field by field with
              an own structural walker (never with the library's ==).
  model       the load_detector model at the first / middle / last position of a real exposure pipeline whose running
              detector differs from the file in every container: the probe placed after the model and the final
              result of pyxel.run_mode must show the file's buckets.
"""
from __future__ import annotations

import itertools
import json
import os
import shutil
import sys
import tempfile

import numpy as np

from vp import cfgx, mk

ID = "C18"
LEVEL = "exploration"
ENGINE = "cfgx+schedx"
TIMEOUT = 900
ENV = {"NUMBA_DISABLE_JIT": "1"}        # Charge.array with clusters recompiles a numba kernel per call otherwise
TECHNIQUE = ("bounded exhaustive enumeration of (detector type, property palette, subset of initialised containers, "
             "file format) executed on the real save/load entry points, field-by-field structural comparison of the "
             "original and the reloaded detector; the load_detector model executed at every position of a real "
             "pipeline and observed by a probe model and in the result of run_mode; stateless exploration (preemption-bounded, "
             "controlled scheduler with scheduling points at the file-system calls) of 2-3 threads saving their detectors "
             "into one folder")
LEVEL_TEXT = ("Every combination of the container states photon {none, 2-D, 3-D} x pixel x signal x image {none, uint8, "
              "uint16, uint32, uint64} x charge {zero, array, clusters} x scene {none, one source} x data {empty, one "
              "node, nested} (x phase for MKID) is built on real CCD / CMOS / MKID / APD detectors (thorough: the full "
              "product of 1 080 / 2 160 combinations per type for the fully specified detector and all <= 2-deviations "
              "from 'nothing' and 'everything' for the other property palettes; quick: <= 2 / <= 1 deviations), saved, "
              "loaded and compared field by field: geometry, environment, characteristics (also after changes through "
              "the attribute setters) and every container with dtype, shape, values, coordinates and attributes."
              " Part savemodel runs the save_detector model inside pipelines of 1-3 readouts (the file must exist and read back as the running detector of that step); the /data node of a result must show processed data loaded by load_detector.")
LEVEL_NOTE = ("Bounded: detector 2x3, palettes of 4 (APD: 9) property sets, one payload per container state (rotated by "
              "VERIF_SEED). HDF5 is exercised only when h5py imports (recorded in the evidence as formats / "
              "h5py_available). Trusted: numpy / xarray / pandas equality of plain values, the asdf library. Derived "
              "APD quantities (bias, node capacitance, charge_to_volt_conversion) are functions of the compared settings "
              "and are not compared separately. Concurrent saves: 2 threads <= 2 (thorough 3) preemptions, 3 threads <= 1 (2); "
              "scheduling points = rename / replace / remove / unlink / open-for-writing inside the folder.")
DESIGN_REF = "DESIGN.md section 4, C18"
ASSUMPTIONS = [
    "payload values per container state are fixed per seed; float values are exactly representable",
    "list and tuple spellings of adc_voltage_range are the same value",
    "charge cluster tables are compared per column name (column order is not significant, as in the library's own ==)",
    "the dtype of a container is part of its content (an image saved as uint8 must come back as uint8); a pure dtype "
    "change is reported with code 'dtype' so that it can be told apart from lost or changed values",
    "for the load_detector model the running detector has the same type and geometry as the file",
]
RULE = ("cases = roundtrip(detector type x palette x container combination; thorough: full product for palette 'all', "
        "Hamming distance <= 2 from NOTHING or EVERYTHING otherwise; quick: <= 2 for 'all', <= 1 otherwise) + "
        "model(detector type x file content x position x steps); non-trivial = the file could be written and read; "
        "distinct = distinct snapshots of the original detector")
NSHARDS = 48

ROWS, COLS = 2, 3

AXES = {
    # 3dx: the cube carries non-dimension coordinates (scalar + per wavelength); 3dd: its wavelengths are not ascending
    "photon": ["none", "2d", "3d", "3dx", "3dd"],
    "pixel": ["none", "set"],
    "signal": ["none", "set"],
    "image": ["none", "u8", "u16", "u32", "u64"],
    # clusters-df: the clusters were handed over as a DataFrame whose columns are in another (alphabetical) order
    "charge": ["zero", "array", "clusters", "clusters-df"],
    "scene": ["none", "one"],
    "data": ["empty", "one", "nested", "groups"],
}
PHASE_AXIS = ["none", "set"]
NOTHING = {"photon": "none", "pixel": "none", "signal": "none", "image": "none", "charge": "zero", "scene": "none",
           "data": "empty", "phase": "none"}
EVERYTHING = {"photon": "3d", "pixel": "set", "signal": "set", "image": "u16", "charge": "clusters", "scene": "one",
              "data": "nested", "phase": "set"}
PALETTES = ["all", "none", "multiwl", "setters"]
APD_PALETTES = ["ctor-common-prv", "ctor-gain-common", "set-apd-gain", "set-apd-prv", "set-apd-common",
                "set-apd-common-lowbias", "set-apd-prv-lowbias"]


def _seed():
    return int(os.environ.get("VERIF_SEED", "0") or 0)


def h5_available():
    try:
        import h5py  # noqa: F401

        return True
    except Exception:  # noqa: BLE001
        return False


def formats():
    return [".asdf"] + ([".h5", ".hdf5"] if h5_available() else [])


# ------------------------------------------------------------------ building detectors

def axes_for(kind):
    ax = dict(AXES)
    if kind == "mkid":
        ax["phase"] = PHASE_AXIS
    return ax


def build_detector(kind, palette):
    from pyxel.detectors import (APD, CCD, CMOS, MKID, APDCharacteristics, APDGeometry, CCDGeometry, Characteristics,
                                 CMOSGeometry, Environment, MKIDGeometry)
    from pyxel.detectors.environment import WavelengthHandling

    s = _seed() % 4
    gcls = {"ccd": CCDGeometry, "cmos": CMOSGeometry, "mkid": MKIDGeometry, "apd": APDGeometry}[kind]
    dcls = {"ccd": CCD, "cmos": CMOS, "mkid": MKID, "apd": APD}[kind]
    if palette == "none":
        geo = gcls(row=ROWS, col=COLS, pixel_vert_size=2.0, pixel_horz_size=0.5)   # sizes are needed by charge clusters
        env = Environment()
        if kind == "apd":
            cha = APDCharacteristics(roic_gain=0.5, avalanche_gain=2.0, pixel_reset_voltage=3.0)
        else:
            cha = Characteristics()
        return dcls(geometry=geo, environment=env, characteristics=cha)
    geo = gcls(row=ROWS, col=COLS, total_thickness=10.0 + s, pixel_vert_size=2.0, pixel_horz_size=0.5, pixel_scale=1.5)
    if palette == "multiwl":
        env = Environment(temperature=100.0 + s, wavelength=WavelengthHandling(cut_on=500.0, cut_off=900.0 + s,
                                                                              resolution=100))
    else:
        env = Environment(temperature=100.0 + s, wavelength=600.0)
    if kind == "apd":
        common = dict(roic_gain=0.5 + s / 8, quantum_efficiency=0.5, full_well_capacity=1000 + s, adc_bit_resolution=16,
                      adc_voltage_range=(0.0, 8.0))
        if palette == "ctor-common-prv":
            cha = APDCharacteristics(common_voltage=-4.0, pixel_reset_voltage=3.0, **common)
        elif palette == "ctor-gain-common":
            cha = APDCharacteristics(avalanche_gain=2.0, common_voltage=-2.5, **common)
        else:
            cha = APDCharacteristics(avalanche_gain=2.0, pixel_reset_voltage=3.0, **common)
    else:
        cha = Characteristics(quantum_efficiency=0.5, charge_to_volt_conversion=1e-3, pre_amplification=4.0 + s,
                              full_well_capacity=1000 + s, adc_bit_resolution=16, adc_voltage_range=(0.0, 8.0))
    det = dcls(geometry=geo, environment=env, characteristics=cha)
    if palette == "setters":
        det.geometry.total_thickness = 20.0
        det.geometry.pixel_vert_size = 4.0
        det.geometry.pixel_horz_size = 0.25
        det.geometry.pixel_scale = 2.5
        det.environment.temperature = 150.0
        det.environment.wavelength = 700.0
        det.characteristics.quantum_efficiency = 0.75
        det.characteristics.full_well_capacity = 2000.0
        det.characteristics.adc_bit_resolution = 12
        det.characteristics.adc_voltage_range = (1.0, 5.0)
        if kind != "apd":
            det.characteristics.charge_to_volt_conversion = 2e-3
            det.characteristics.pre_amplification = 8.0
    elif palette == "set-apd-gain":
        det.characteristics.avalanche_gain = 4.0
    elif palette == "set-apd-prv":
        det.characteristics.pixel_reset_voltage = 5.0
    elif palette == "set-apd-common":
        det.characteristics.common_voltage = -6.0
    elif palette == "set-apd-common-lowbias":
        # a bias (reset voltage - common voltage) in the range where the avalanche gain saturates at 1: the two voltages
        # are the information, the gain does not determine them
        det.characteristics.common_voltage = det.characteristics.pixel_reset_voltage - 2.0
    elif palette == "set-apd-prv-lowbias":
        det.characteristics.pixel_reset_voltage = det.characteristics.common_voltage + 1.5
    return det


def base_values(salt=0.0):
    s = _seed() % 5
    return np.arange(ROWS * COLS, dtype="float64").reshape(ROWS, COLS) + 1.0 + s + salt


def fill_containers(det, combo, salt=0.0):
    """Put the container states of `combo` into `det` through the public API."""
    import xarray as xr

    v = base_values(salt)
    ph = combo.get("photon", "none")
    if ph == "2d":
        det.photon.array = v * 1.5
    elif ph in ("3d", "3dx", "3dd"):
        cube = np.stack([v * 1.5, v * 1.5 + 100.0, v * 1.5 + 200.0])
        coords = {"wavelength": [500.0, 600.0, 700.0] if ph != "3dd" else [700.0, 500.0, 600.0]}
        if ph == "3dx":
            coords.update(band=("wavelength", ["g", "r", "i"]), exposure_id=7 + _seed() % 5)
        det.photon.array_3d = xr.DataArray(cube, dims=["wavelength", "y", "x"], coords=coords)
    if combo.get("pixel", "none") == "set":
        det.pixel.array = v * 2.0 + 0.25
    if combo.get("signal", "none") == "set":
        det.signal.array = v * 0.125
    im = combo.get("image", "none")
    if im != "none":
        dt = {"u8": "uint8", "u16": "uint16", "u32": "uint32", "u64": "uint64"}[im]
        top = {"u8": 200, "u16": 60000, "u32": 4_000_000_000, "u64": 2 ** 60 + 1}[im]
        a = (v.astype("uint64") + np.uint64(int(salt))).astype(dt)
        a[0, 0] = top
        det.image.array = a
    ch = combo.get("charge", "zero")
    if ch == "array":
        det.charge.add_charge_array(v * 3.0)
    elif ch == "clusters":
        det.charge.add_charge(
            particle_type="e",
            particles_per_cluster=np.array([3.0, 4.0, 5.0]) + salt + _seed() % 5,
            init_energy=np.array([0.5, 1.5, 2.5]),
            init_ver_position=np.array([1.0, 3.0, 3.5]),           # pixel_vert_size 2.0 (4.0 after the setters): rows
            init_hor_position=np.array([0.125, 0.375, 0.6]),
            init_z_position=np.array([0.0, 1.0, 2.0]),
            init_ver_velocity=np.array([0.0, 0.5, 0.0]),
            init_hor_velocity=np.array([0.25, 0.0, 0.0]),
            init_z_velocity=np.array([0.0, 0.0, 0.75]),
        )
    elif ch == "clusters-df":
        from pyxel.data_structure import Charge

        df = Charge.create_charges(
            particle_type="e",
            particles_per_cluster=np.array([3.0, 4.0]) + salt + _seed() % 5,
            init_energy=np.array([0.5, 1.5]),
            init_ver_position=np.array([1.0, 3.0]),
            init_hor_position=np.array([0.125, 0.375]),
            init_z_position=np.array([0.0, 1.0]),
            init_ver_velocity=np.array([0.0, 0.5]),
            init_hor_velocity=np.array([0.25, 0.0]),
            init_z_velocity=np.array([0.0, 0.0]),
        )
        det.charge.add_charge_dataframe(df[sorted(df.columns)])
    if combo.get("phase", "none") == "set":
        det.phase.array = v * 0.5 + 7.0
    if combo.get("_alias"):
        shared = v * 2.0 + 0.25
        det.pixel.array = shared
        det.signal.array = shared
        if combo.get("phase", "none") == "set":
            det.phase.array = shared
    if combo.get("scene", "none") == "one":
        src = xr.Dataset(
            {"x": xr.DataArray([1.0, 2.0], dims="ref"), "y": xr.DataArray([3.0, 4.0], dims="ref"),
             "weight": xr.DataArray([5.0 + salt, 6.0], dims="ref"),
             "flux": xr.DataArray(np.arange(6, dtype=float).reshape(2, 3) + _seed() % 5 + salt,
                                  dims=["ref", "wavelength"])},
            coords={"ref": [0, 1], "wavelength": [500.0, 600.0, 700.0]},
            attrs={"right_ascension": "56.75 deg", "fov_radius": 0.5})
        det.scene.add_source(src)
    da = combo.get("data", "empty")
    if da in ("one", "nested", "groups"):
        det.data["/stat"] = xr.DataArray(np.arange(3, dtype=float) + salt + _seed() % 5, dims=["k"])
    if da == "groups":
        # nodes WITHOUT data variables that still carry information: a parent group holding only a coordinate and
        # attributes, an attribute-only leaf
        det.data["/grp"] = xr.DataTree(xr.Dataset(coords={"c": [1.0, 2.0 + salt]}, attrs={"note": "parent group"}))
        det.data["/grp/leaf"] = xr.DataArray(np.array([1.0, 2.0]) + salt, dims=["c"])
        det.data["/meta"] = xr.DataTree(xr.Dataset(attrs={"origin": "vp", "version": 3}))
    if da == "nested":
        det.data["/grp/sub/table"] = xr.DataArray(np.arange(4, dtype="int64").reshape(2, 2) + int(salt),
                                                  dims=["a", "b"], coords={"a": [10, 20]}, attrs={"units": "adu"})
        det.data["/grp/other"] = xr.DataArray(np.array([1.5, 2.5]) + salt, dims=["k2"])


# ------------------------------------------------------------------ structural snapshot (own walker)

def _plain(v):
    if isinstance(v, np.generic):
        return v.item()
    if isinstance(v, (list, tuple)):
        return [_plain(x) for x in v]
    if isinstance(v, np.ndarray):
        return v.tolist()
    if v is None or isinstance(v, (bool, int, float, str)):
        return v
    return repr(v)


def _getter(obj, name):
    try:
        return _plain(getattr(obj, name))
    except Exception as e:  # noqa: BLE001   (the getters raise when a value is not specified)
        return "<unset>"


def snap_nd(a):
    if a is None:
        return None
    a = np.asarray(a)
    return {"kind": "ndarray", "dtype": a.dtype.name, "shape": list(a.shape), "values": a.tolist()}


def snap_da(da):
    out = {"kind": "DataArray", "dims": [str(d) for d in da.dims], "dtype": da.dtype.name, "shape": list(da.shape),
           "values": np.asarray(da.values).tolist(), "attrs": {str(k): _plain(v) for k, v in da.attrs.items()},
           "coords": {}}
    for name, c in da.coords.items():
        out["coords"][str(name)] = {"dims": [str(d) for d in c.dims], "dtype": c.dtype.name,
                                    "values": np.asarray(c.values).tolist()}
    return out


def snap_ds(ds):
    return {"vars": {str(k): snap_da(v) for k, v in ds.data_vars.items()},
            "coords": {str(k): {"dims": [str(d) for d in c.dims], "dtype": c.dtype.name,
                                "values": np.asarray(c.values).tolist()} for k, c in ds.coords.items()},
            "attrs": {str(k): _plain(v) for k, v in ds.attrs.items()}}


def snap_tree(dt):
    """{node path: dataset snapshot} for every node of a DataTree (own variables and coordinates of each node)"""
    if dt is None:
        return None
    out = {}
    for node in dt.subtree:
        try:
            ds = node.to_dataset(inherit=False)
        except TypeError:
            ds = node.to_dataset()
        out[node.path] = snap_ds(ds)
    return out


def snap_containers(det):
    import xarray as xr

    out = {}
    ph = det.photon._array if hasattr(det.photon, "_array") else None
    try:
        # public readers first: 2-D, else 3-D
        if det.photon.ndim == 2:
            out["photon"] = snap_nd(det.photon.array)
        elif det.photon.ndim == 3:
            out["photon"] = snap_da(det.photon.array_3d)
        else:
            out["photon"] = None
    except Exception:  # noqa: BLE001
        out["photon"] = snap_da(ph) if isinstance(ph, xr.DataArray) else snap_nd(ph)
    for name in ("pixel", "signal", "image") + (("phase",) if hasattr(det, "phase") else ()):
        c = getattr(det, name)
        try:
            out[name] = snap_nd(c.array)
        except Exception:  # noqa: BLE001     (reading an uninitialised container raises)
            out[name] = None
    def guarded(name, fn):
        # a container of a *loaded* detector that cannot even be read is a difference, not a harness error
        try:
            out[name] = fn()
        except Exception as e:  # noqa: BLE001
            out[name] = {"unreadable": f"{type(e).__name__}: {str(e)[:100]}"}

    def charge():
        ch = det.charge
        fr = ch.frame
        return {"frame": {"rows": int(len(fr)),
                          "columns": {str(c): [float(x) for x in fr[c].tolist()] for c in sorted(fr.columns)}},
                "array": snap_nd(ch.array)}

    guarded("charge", charge)
    guarded("scene", lambda: snap_tree(det.scene.data))
    guarded("data", lambda: snap_tree(det.data))
    return out


def assert_readable(snap, what):
    txt = json.dumps(snap, default=str)
    if '"unreadable"' in txt:
        raise RuntimeError(f"harness: {what} cannot be read back: {txt[txt.index('unreadable'):][:200]}")


def snap_detector(det):
    g, e, c = det.geometry, det.environment, det.characteristics
    geo = {k: _getter(g, k) for k in ("row", "col", "total_thickness", "pixel_vert_size", "pixel_horz_size", "pixel_scale")}
    geo["class"] = type(g).__name__
    env = {"temperature": _getter(e, "temperature")}
    try:
        w = e.wavelength
        env["wavelength"] = ({"cut_on": _plain(w.cut_on), "cut_off": _plain(w.cut_off), "resolution": _plain(w.resolution)}
                             if hasattr(w, "cut_on") else _plain(w))
    except Exception:  # noqa: BLE001
        env["wavelength"] = "<unset>"
    if type(c).__name__.startswith("APD"):
        names = ("roic_gain", "quantum_efficiency", "full_well_capacity", "adc_bit_resolution", "adc_voltage_range",
                 "avalanche_gain", "pixel_reset_voltage", "common_voltage")
    else:
        names = ("quantum_efficiency", "charge_to_volt_conversion", "pre_amplification", "full_well_capacity",
                 "adc_bit_resolution", "adc_voltage_range")
    cha = {k: _getter(c, k) for k in names}
    cha["class"] = type(c).__name__
    return {"type": type(det).__name__, "geometry": geo, "environment": env, "characteristics": cha,
            "data": snap_containers(det)}


def diff(a, b, path=""):
    """list of (path, original, loaded) for every leaf that differs"""
    if isinstance(a, dict) and isinstance(b, dict):
        out = []
        for k in sorted(set(a) | set(b)):
            if k not in a:
                out.append((f"{path}.{k}" if path else k, "<absent>", b[k]))
            elif k not in b:
                out.append((f"{path}.{k}" if path else k, a[k], "<absent>"))
            else:
                out.extend(diff(a[k], b[k], f"{path}.{k}" if path else k))
        return out
    if isinstance(a, float) and isinstance(b, float) and a != a and b != b:
        return []
    if isinstance(a, (int, float)) and isinstance(b, (int, float)) and not isinstance(a, bool) and not isinstance(b, bool):
        return [] if a == b else [(path, a, b)]
    return [] if a == b else [(path, a, b)]


def classify(path, a, b):
    """(field, code) used in the violation key: field = container / setting, code = lost | appeared | dtype | differs"""
    parts = path.split(".")
    if parts[0] == "data":
        field = "data." + parts[1]
        if len(parts) > 2 and parts[1] in ("charge",):
            field += "." + parts[2]
    else:
        field = ".".join(parts[:2])
    if b is None or b == "<absent>" or b == "<unset>":
        code = "lost"
    elif a is None or a == "<absent>" or a == "<unset>":
        code = "appeared"
    elif parts[-1] == "dtype":
        code = "dtype"
    else:
        code = "differs"
    return field, code


# ------------------------------------------------------------------ enumeration

def combos_near(kind, k):
    """combinations within Hamming distance k of NOTHING or of EVERYTHING (deduplicated, deterministic order)"""
    ax = axes_for(kind)
    out, seen = [], set()
    for base in (NOTHING, EVERYTHING):
        b = {a: base[a] for a in ax}
        for c in cfgx.k_deviations(b, ax, k):
            c = {a: c[a] for a in ax}
            t = tuple(sorted(c.items()))
            if t not in seen:
                seen.add(t)
                out.append(c)
    return out


def n_combos_near(kind, k):
    """independent count: filter of the full product by Hamming distance"""
    ax = axes_for(kind)
    names = list(ax)
    n = 0
    for vals in itertools.product(*[ax[a] for a in names]):
        d0 = sum(v != NOTHING[a] for a, v in zip(names, vals))
        d1 = sum(v != EVERYTHING[a] for a, v in zip(names, vals))
        if min(d0, d1) <= k:
            n += 1
    return n


def all_combos(kind):
    ax = axes_for(kind)
    names = list(ax)
    return [dict(zip(names, vals)) for vals in itertools.product(*[ax[a] for a in names])]


MODEL_FILES = {
    "F2d": {"photon": "2d", "pixel": "set", "signal": "set", "image": "u16", "charge": "array", "scene": "one",
            "data": "one", "phase": "set"},
    "F3d": {"photon": "3d", "pixel": "set", "signal": "set", "image": "u32", "charge": "clusters", "scene": "one",
            "data": "nested", "phase": "set"},
    "Fgrp": {"photon": "2d", "pixel": "set", "signal": "set", "image": "u64", "charge": "array", "scene": "none",
             "data": "groups", "phase": "set"},
    # a stored "dark" state: only the pixel container initialised; the RUNNING detector holds everything (2-D / 3-D photon)
    "Fdark": {"photon": "none", "pixel": "set", "signal": "none", "image": "none", "charge": "zero", "scene": "none",
              "data": "empty", "phase": "none", "_fill": "F2d"},
    "Fdark3": {"photon": "none", "pixel": "none", "signal": "set", "image": "none", "charge": "zero", "scene": "none",
               "data": "empty", "phase": "none", "_fill": "F3d"},
    # the file's photon container is of the OTHER kind (2-D / multi-wavelength) than the running detector's
    "F3on2": {"photon": "3d", "pixel": "set", "signal": "set", "image": "u32", "charge": "clusters", "scene": "one",
              "data": "nested", "phase": "set", "_fill": "F2d"},
    "F2on3": {"photon": "2d", "pixel": "set", "signal": "set", "image": "u16", "charge": "array", "scene": "one",
              "data": "one", "phase": "set", "_fill": "F3d"},
    # pixel and signal (and phase) of the stored detector were assigned ONE array object
    "Falias": {"photon": "2d", "pixel": "set", "signal": "set", "image": "u16", "charge": "array", "scene": "none",
               "data": "one", "phase": "set", "_alias": True},
}
POSITIONS = ("first", "middle", "last", "inplace")


def _plan(tier):
    thorough = tier == "thorough"
    plan = []
    for kind in mk.DET_TYPES:
        pals = PALETTES + (APD_PALETTES if kind == "apd" else [])
        for pal in pals:
            if pal == "all":
                plan.append((kind, pal, "full" if thorough else 2))
            else:
                plan.append((kind, pal, 2 if thorough else 1))
    return plan


def enumerate_cases(tier, seed):
    cases = []
    fmts = formats()
    for kind, pal, k in _plan(tier):
        combos = all_combos(kind) if k == "full" else combos_near(kind, k)
        for combo in combos:
            near = min(sum(combo[a] != NOTHING[a] for a in combo), sum(combo[a] != EVERYTHING[a] for a in combo))
            for ext in fmts:
                cases.append({"part": "roundtrip", "det": kind, "palette": pal, "combo": combo, "ext": ext,
                              "both_apis": near <= 1})
    for kind in mk.DET_TYPES:
        for fname in MODEL_FILES:
            for pos in POSITIONS:
                for steps in (1, 2):
                    cases.append({"part": "model", "det": kind, "file": fname, "pos": pos, "steps": steps,
                                  "ext": ".asdf"})
                # ... and in a non-destructive exposure of 3 readouts (the pixel content is kept between the steps: the
                # file's pixel content must still replace it at every step)
                if pos in ("middle", "last"):
                    cases.append({"part": "model", "det": kind, "file": fname, "pos": pos, "steps": 3, "nd": True,
                                  "ext": ".asdf"})
    for kind in mk.DET_TYPES:
        for fname in ("F2d", "F3d", "Fgrp"):
            for steps in (1, 2, 3):
                cases.append({"part": "savemodel", "det": kind, "file": fname, "steps": steps, "ext": ".asdf"})
    # concurrent saves (controlled scheduler, scheduling points at the file-system calls)
    thorough = tier == "thorough"
    for kind in (mk.DET_TYPES if thorough else ("ccd", "mkid")):
        cases.append({"part": "race", "det": kind, "threads": 2, "bound": 3 if thorough else 2})
    cases.append({"part": "race", "det": "ccd", "threads": 3, "bound": 2 if thorough else 1})
    return cases


def expected_size(tier, seed):
    n = 0
    for kind, pal, k in _plan(tier):
        if k == "full":
            m = 1
            for v in axes_for(kind).values():
                m *= len(v)
        else:
            m = n_combos_near(kind, k)
        n += m * len(formats())
    return n + len(mk.DET_TYPES) * len(MODEL_FILES) * len(POSITIONS) * 2 + (len(mk.DET_TYPES) if tier == "thorough" else 2) + 1 \
        + len(mk.DET_TYPES) * 3 * 3 + len(mk.DET_TYPES) * len(MODEL_FILES) * len([p for p in POSITIONS if p in ("middle", "last")])


# ------------------------------------------------------------------ part roundtrip

def _short(v, n=160):
    s = json.dumps(v, default=str)
    return s if len(s) <= n else s[:n] + "..."


def run_roundtrip(case):
    from pyxel.detectors import Detector

    kind, pal, combo, ext = case["det"], case["palette"], case["combo"], case["ext"]
    viol, seen = [], set()
    tag = f"{kind} palette={pal} containers={combo} format={ext}"

    def bad(field, code, what, api):
        key = {"part": "roundtrip", "det": kind, "field": field, "code": code, "ext": ext}
        if not field.startswith("data."):
            key["palette"] = pal
        kk = json.dumps(key, sort_keys=True)
        if kk in seen:
            return
        seen.add(kk)
        viol.append((key, f"{tag} via {api}: {what}"))

    det = build_detector(kind, pal)
    fill_containers(det, combo)
    before = snap_detector(det)
    assert_readable(before, "a container of the freshly built detector")
    ok = 0
    d = tempfile.mkdtemp(prefix="vp_")
    try:
        apis = [("save/load", lambda p: det.save(p), lambda p: Detector.load(p))]
        if case.get("both_apis"):
            if ext == ".asdf":
                apis.append(("to_asdf/from_asdf", lambda p: det.to_asdf(p), lambda p: Detector.from_asdf(p)))
            else:
                apis.append(("to_hdf5/from_hdf5", lambda p: det.to_hdf5(p), lambda p: Detector.from_hdf5(p)))
        for i, (api, saver, loader) in enumerate(apis):
            path = os.path.join(d, f"det{_seed()}_{i}{ext}")
            try:
                saver(path)
            except Exception as e:  # noqa: BLE001
                bad("-", "save-failed", f"saving raised {type(e).__name__}: {str(e)[:200]}", api)
                continue
            try:
                new = loader(path)
            except Exception as e:  # noqa: BLE001
                bad("-", "load-failed", f"loading the file just written raised {type(e).__name__}: {str(e)[:200]}", api)
                continue
            ok += 1
            after = snap_detector(new)
            for path_, a, b in diff(before, after):
                field, code = classify(path_, a, b)
                bad(field, code, f"{path_}: original {_short(a)} != loaded {_short(b)}", api)
            again = snap_detector(det)
            for path_, a, b in diff(before, again):
                field, code = classify(path_, a, b)
                bad(field, "original-changed", f"saving changed the original detector at {path_}: {_short(a)} -> {_short(b)}",
                    api)
    finally:
        shutil.rmtree(d, ignore_errors=True)
    return {"viol": viol, "sig": cfgx.sig(before), "nontrivial": ok > 0, "n": max(1, ok),
            "sets": {"formats": [ext]},
            "outcome": {"written_and_read": ok, "differences": len(viol)}}


# ------------------------------------------------------------------ part model (probe models live in this module)

OBSERVED: list = []


def m_fill(detector, combo=None, salt=0.0):
    """model: fill the running detector's containers (values differ from the file's through `salt`; the signal and the
    image also differ from the file's in their data TYPE: loading must replace the arrays, not write into them)"""
    fill_containers(detector, dict(combo or {}), salt=float(salt))
    if detector.signal._array is not None:
        detector.signal.array = detector.signal.array.astype("float32")
    if detector.image._array is not None:
        other = {"uint8": "uint16", "uint16": "uint32", "uint32": "uint16", "uint64": "uint16"}[str(detector.image.dtype)]
        detector.image.array = (detector.image.array % 60000).astype(other)


def m_fill_step(detector, combo=None, salt=0.0):
    """model: like m_fill (without the type changes), with content that differs from one readout step to the next"""
    fill_containers(detector, dict(combo or {}), salt=float(salt) + 7.0 * int(detector.pipeline_count))


def m_check_saved(detector, filename="", tag=""):
    """model placed after `save_detector`: what the file holds NOW (read back with Detector.load) versus the running
    detector's containers at this step"""
    rec = {"tag": tag, "step": int(detector.pipeline_count), "exists": os.path.exists(filename)}
    if rec["exists"]:
        try:
            loaded = type(detector).load(filename)
            rec["diff"] = [[p, _short(a, 80), _short(b, 80)] for p, a, b in
                           diff(snap_containers(detector), snap_containers(loaded))][:3]
        except Exception as e:  # noqa: BLE001
            rec["error"] = f"{type(e).__name__}: {str(e)[:200]}"
    OBSERVED.append(rec)


def m_inplace(detector, bucket="signal"):
    """model: works IN PLACE on the array the container hands out (as the noise models do: `x = c.array; x += ...`)"""
    c = getattr(detector, bucket)
    if c._array is not None:
        arr = c.array
        arr += 1000.0


def m_observe(detector, tag=""):
    """model: record a snapshot of every container of the running detector"""
    OBSERVED.append({"tag": tag, "step": int(detector.pipeline_count), "snap": snap_containers(detector)})


def _bucket_from_result(result, name, step):
    """bucket `name` at readout `step` in the tree returned by run_mode, as a snapshot-like dict (values only)"""
    try:
        node = result["/bucket"] if "bucket" in result.children else result
        da = node[name]
    except Exception:  # noqa: BLE001
        return "<absent>"
    if "time" in da.dims:
        da = da.isel(time=step)
    vals = np.asarray(da.values)
    if vals.ndim == 0 or bool(np.all(np.isnan(vals.astype("float64")))) and vals.ndim < 2:
        return None
    return {"shape": list(vals.shape), "values": vals.tolist()}


def run_model(case):
    import pyxel

    kind, fname, pos, steps = case["det"], case["file"], case["pos"], case["steps"]
    spec = MODEL_FILES[fname]
    combo = {a: v for a, v in spec.items() if a in axes_for(kind) or a == "_alias"}
    fill_combo = combo if "_fill" not in spec else {a: v for a, v in MODEL_FILES[spec["_fill"]].items() if a in axes_for(kind)}
    fill_combo = {a: v for a, v in fill_combo.items() if a != "_alias"}
    viol = []
    tag = (f"{kind} file={fname} load_detector at position {pos} of the pipeline, {steps} "
           f"{'non-destructive ' if case.get('nd') else ''}readout(s)")

    def bad(code, where, fields, what):
        viol.append(({"part": "model", "pos": pos, "code": code, "where": where, "fields": ",".join(sorted(fields))},
                     f"{tag}: {what}"))

    d = tempfile.mkdtemp(prefix="vp_")
    try:
        path = os.path.join(d, f"stored{_seed()}.asdf")
        stored = build_detector(kind, "all")
        fill_containers(stored, combo, salt=0.0)
        stored.save(path)
        want = snap_containers(stored)
        assert_readable(want, "a container of the stored detector")

        running = build_detector(kind, "all")
        fill = ("props.c18_save_load.m_fill", "fill", {"combo": fill_combo, "salt": 50.0})
        inpl = ("props.c18_save_load.m_inplace", "inplace", {"bucket": "signal"})
        load = ("pyxel.models.load_detector", "load_detector", {"filename": path})
        obs = ("props.c18_save_load.m_observe", "observe", {"tag": "after"})
        obs2 = ("props.c18_save_load.m_observe", "observe2", {"tag": "after2"})
        if pos == "first":
            groups = {"photon_collection": [load], "charge_generation": [obs], "charge_collection": [obs2]}
        elif pos == "middle":
            groups = {"photon_collection": [fill], "charge_generation": [load], "charge_collection": [obs]}
        elif pos == "inplace":
            groups = {"photon_collection": [fill], "charge_generation": [load], "charge_collection": [inpl],
                      "charge_measurement": [obs]}
        else:
            groups = {"photon_collection": [fill], "charge_generation": [obs], "charge_collection": [load]}
        del OBSERVED[:]
        times = [float(i + 1) for i in range(steps)]
        try:
            result = pyxel.run_mode(mk.exposure(times, non_destructive=bool(case.get("nd"))), running, mk.pipeline(groups),
                                    with_inherited_coords=True)
        except Exception as e:  # noqa: BLE001
            bad("run-failed", "run", ["-"], f"the run raised {type(e).__name__}: {str(e)[:300]}")
            return {"viol": viol, "sig": cfgx.sig([kind, fname, pos, steps]), "nontrivial": False}
        # (1) the probe(s) placed after the model see the file's containers
        if pos == "inplace":
            # a later model changed the signal in place: every OTHER container must still hold the file's content
            want = dict(want)
            want.pop("signal", None)
            for o in OBSERVED:
                o["snap"].pop("signal", None)
        if pos in ("first", "middle", "inplace"):
            after = [o for o in OBSERVED if o["tag"].startswith("after")]
            exp_n = steps * (2 if pos == "first" else 1)
            if len(after) != exp_n:
                bad("probe-count", "probe", ["-"], f"{len(after)} probe records, expected {exp_n}")
            for o in after:
                diffs = diff(want, o["snap"])
                if diffs:
                    fields = {classify("data." + p, a, b)[0][5:] for p, a, b in diffs}
                    p0, a0, b0 = diffs[0]
                    bad("not-loaded", "probe", fields, f"the probe after the model (step {o['step']}) does not see the "
                        f"file's {sorted(fields)}; e.g. {p0}: file {_short(a0)} != running detector {_short(b0)}")
                    break
        # (2) the final result shows the file's buckets
        for step in range(steps):
            wrong = []
            example = None
            for name in ("photon", "pixel", "signal", "image", "charge"):
                if name not in want:
                    continue
                got = _bucket_from_result(result, name, step)
                w = want[name] if name != "charge" else want["charge"]["array"]
                exp = None if w is None else {"shape": w["shape"], "values": w["values"]}
                if isinstance(got, dict) and isinstance(exp, dict):
                    same = got["shape"] == exp["shape"] and bool(
                        np.array_equal(np.asarray(got["values"], dtype="float64"), np.asarray(exp["values"], dtype="float64")))
                else:
                    same = got == exp
                if not same:
                    wrong.append(name)
                    example = example or f"{name}: file {_short(exp)} != result {_short(got)}"
            if wrong:
                bad("not-loaded", "result", wrong, f"the result of run_mode (readout {step}) does not show the file's "
                    f"{wrong}; e.g. {example}")
                break
        # (3) ... and the file's processed data (node paths relative to the data root; no later model touches them)
        wdata = want.get("data")
        if isinstance(wdata, dict) and any(v["vars"] or v["coords"] or v["attrs"] for v in wdata.values()):
            try:
                node = result["/data"]
                root = node.path.rstrip("/")
                got = {("/" + p[len(root):].lstrip("/")): v for p, v in snap_tree(node).items()}
            except KeyError:
                got = {}
            diffs = diff(wdata, got)
            if diffs:
                p0, a0, b0 = diffs[0]
                bad("not-loaded", "result", ["data"], f"the result of run_mode does not show the file's processed data; "
                    f"e.g. {p0}: file {_short(a0)} != result {_short(b0)} (result nodes {sorted(got)})")
    finally:
        shutil.rmtree(d, ignore_errors=True)
    return {"viol": viol, "sig": cfgx.sig([kind, fname, pos, steps, bool(case.get("nd"))]), "nontrivial": True, "n": 1,
            "outcome": {"violations": len(viol)}}


# ------------------------------------------------------------------ part race (schedx): concurrent saves into one folder

def _race_once(kind, nthreads, choices, expect):
    import builtins

    from vp import schedx

    tmp = tempfile.mkdtemp(prefix="vp_c18r_")
    sched = schedx.Sched(choices, expect)
    combos = [MODEL_FILES["F2d"], MODEL_FILES["F3d"], MODEL_FILES["Fgrp"]]
    dets, paths = [], []
    for i in range(nthreads):
        d = build_detector(kind, "all")
        fill_containers(d, {a: v for a, v in combos[i % 3].items() if a in axes_for(kind)}, salt=10.0 * i)
        dets.append(d)
        paths.append(os.path.join(tmp, f"detector_{i}.asdf"))
    orig = {"open": builtins.open, "replace": os.replace, "rename": os.rename, "remove": os.remove, "unlink": os.unlink}
    # asdf writes through a temporary file and `atomic_rename` (= os.rename bound at import time): import it before the
    # seams are installed and put the seam on its own name, so that every execution sees the same scheduling points
    import asdf._extern.atomicfile as _af

    orig["af_rename"] = _af.atomic_rename

    def inside(p):
        try:
            return os.fspath(p).startswith(tmp)
        except TypeError:
            return False

    def w_open(file, mode="r", *a, **k):
        if inside(file) and isinstance(mode, str) and any(c in mode for c in "wax+"):
            sched.point("fs.open-w")
        return orig["open"](file, mode, *a, **k)

    def wrap(name):
        def f(*a, **k):
            if a and inside(a[0]):
                sched.point("fs." + name)
            return orig[name](*a, **k)
        return f

    builtins.open = w_open
    os.replace, os.rename, os.remove, os.unlink = wrap("replace"), wrap("rename"), wrap("remove"), wrap("unlink")
    _af.atomic_rename = wrap("af_rename")
    try:
        for i in range(nthreads):
            sched.spawn(lambda i=i: dets[i].save(paths[i]), None, name=f"save{i}")
        sched.run_all()
    finally:
        builtins.open = orig["open"]
        os.replace, os.rename, os.remove, os.unlink = orig["replace"], orig["rename"], orig["remove"], orig["unlink"]
        _af.atomic_rename = orig["af_rename"]
    out = {}
    try:
        for tid, rec in sched.threads.items():
            if "exc" in rec:
                out[tid] = {"error": f"{type(rec['exc']).__name__}: {str(rec['exc'])[:160]}"}
                continue
            try:
                back = type(dets[tid]).load(paths[tid])
                diffs = diff(snap_detector(dets[tid]), snap_detector(back))
                out[tid] = {"diffs": len(diffs), "first": None if not diffs else f"{diffs[0][0]}: saved {_short(diffs[0][1], 60)} != "
                                                                                  f"loaded {_short(diffs[0][2], 60)}"}
            except Exception as e:  # noqa: BLE001
                out[tid] = {"error": f"loading {os.path.basename(paths[tid])} raised {type(e).__name__}: {str(e)[:160]}"}
        leftovers = sorted(f for f in os.listdir(tmp) if not f.startswith("detector_"))
        if leftovers:
            out["leftovers"] = leftovers
    finally:
        shutil.rmtree(tmp, ignore_errors=True)
    return out, sched.log


def run_race(case):
    """every interleaving (preemption-bounded) of n threads that each save their own detector into their own file of one
    folder: every file must load back as the detector that was saved into it"""
    from vp import schedx

    kind, n, bound = case["det"], case["threads"], case["bound"]
    viol, outcomes = {}, set()
    stats = {"executions": 0, "points": 0}

    def on_exec(ch, out, log):
        stats["executions"] += 1
        stats["points"] = max(stats["points"], len(log))
        outcomes.add(json.dumps(out, sort_keys=True, default=str))
        for tid, v in out.items():
            if tid == "leftovers":
                continue
            code = "save-raised" if "error" in v and "loading" not in v["error"] else (
                "unreadable" if "error" in v else ("wrong-content" if v["diffs"] else None))
            if code:
                key = {"part": "race", "code": code, "threads": n}
                viol.setdefault(json.dumps(key, sort_keys=True),
                                (key, f"[{kind}, {n} concurrent saves into one folder] schedule {ch}: file of thread {tid}: "
                                      f"{v.get('error') or v.get('first')}"))

    schedx.explore(lambda ch, ex: _race_once(kind, n, ch, ex), bound, prefix=(), on_exec=on_exec)
    if stats["points"] < 2:
        raise RuntimeError(f"vacuous race harness: only {stats['points']} scheduling point(s) per execution")
    return {"viol": list(viol.values()), "sig": cfgx.sig(["race", kind, n, bound, sorted(outcomes)]), "nontrivial": True,
            "n": stats["executions"], "counts": {"schedules": stats["executions"]},
            "outcome": {"schedules": stats["executions"], "max_points": stats["points"], "distinct_outcomes": len(outcomes)}}


def run_savemodel(case):
    """the save_detector model inside a pipeline of 1-3 readouts: after the model ran at step i the file exists and holds
    the running detector as it is at step i (a checkpoint taken at every step, readable by a later model of the same step)"""
    import pyxel

    kind, fname, steps = case["det"], case["file"], case["steps"]
    spec = MODEL_FILES[fname]
    combo = {a: v for a, v in spec.items() if a in axes_for(kind) and not a.startswith("_")}
    viol = []
    tag = f"{kind} content={fname} save_detector in a pipeline of {steps} readout(s)"

    def bad(code, step, what):
        viol.append(({"part": "savemodel", "code": code, "step": "last" if step == steps - 1 else "earlier"},
                     f"{tag}: {what}"))

    d = tempfile.mkdtemp(prefix="vp_")
    try:
        path = os.path.join(d, f"checkpoint{_seed()}.asdf")
        running = build_detector(kind, "all")
        groups = {"photon_collection": [("props.c18_save_load.m_fill_step", "fill", {"combo": combo, "salt": 20.0})],
                  "charge_generation": [("pyxel.models.save_detector", "save_detector", {"filename": path})],
                  "charge_collection": [("props.c18_save_load.m_check_saved", "check", {"filename": path, "tag": "saved"})]}
        del OBSERVED[:]
        try:
            pyxel.run_mode(mk.exposure([float(i + 1) for i in range(steps)]), running, mk.pipeline(groups),
                           with_inherited_coords=True)
        except Exception as e:  # noqa: BLE001
            bad("run-failed", steps - 1, f"the run raised {type(e).__name__}: {str(e)[:300]}")
            return {"viol": viol, "sig": cfgx.sig(["savemodel", kind, fname, steps]), "nontrivial": False}
        recs = [o for o in OBSERVED if o.get("tag") == "saved"]
        if len(recs) != steps:
            bad("probe-count", steps - 1, f"{len(recs)} probe records, expected {steps}")
        for o in recs:
            if not o["exists"]:
                bad("not-saved", o["step"], f"after save_detector ran at step {o['step']} the file does not exist")
            elif o.get("error"):
                bad("unreadable", o["step"], f"the file written at step {o['step']} cannot be loaded: {o['error']}")
            elif o.get("diff"):
                p0, a0, b0 = o["diff"][0]
                bad("stale-or-wrong", o["step"], f"the file read back at step {o['step']} differs from the running detector, "
                    f"e.g. {p0}: detector {a0} != file {b0}")
    finally:
        shutil.rmtree(d, ignore_errors=True)
    return {"viol": viol, "sig": cfgx.sig(["savemodel", kind, fname, steps]), "nontrivial": True, "n": steps,
            "outcome": {"violations": len(viol)}}


def run_case(case):
    if case["part"] == "savemodel":
        return run_savemodel(case)
    if case["part"] == "roundtrip":
        return run_roundtrip(case)
    if case["part"] == "race":
        return run_race(case)
    return run_model(case)


def extra_coverage(tier, seed, agg):
    return {"h5py_available": h5_available(), "formats_exercised": formats(),
            "formats_note": "HDF5 (.h5/.hdf5) is exercised only when h5py imports; it does not in this image",
            "bounds": {"detector": [ROWS, COLS], "axes": AXES, "phase_axis_mkid": PHASE_AXIS,
                       "palettes": PALETTES, "apd_palettes": APD_PALETTES, "plan": [list(p) for p in _plan(tier)]}}


cfgx.install(sys.modules[__name__])
