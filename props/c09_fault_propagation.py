"""C09 - a failing model always fails the run, with its identity attached.

Exhaustive single-fault enumeration (faultx): a fault-free run of each generated simulation counts the
fault sites (run, readout step, model position); then every site is faulted once, for a set of exception
classes, in exposure, sequential observation (product / sequential / custom), parallel observation
(synchronous, real threads, controlled threads with every start order) and calibration (k-th fitness
evaluation, initial population and evolution phases).
"""
from __future__ import annotations

import itertools
import json
import os
import shutil
import tempfile

import numpy as np

from vp import cfgx, mk, probes, schedx

ID = "C09"
LEVEL = "fault_enumeration"
ENGINE = "faultx+schedx"
TIMEOUT = 1500
NSHARDS = 64
TECHNIQUE = ("exhaustive single-fault injection at every (run, readout step, model position) of generated simulations x "
             "exception classes, in all running modes; parallel mode additionally under every task start order of a "
             "controlled scheduler")
LEVEL_TEXT = ("Every fault site of each generated simulation is faulted exactly once (sites are counted by a fault-free "
              "run): exposures with 1-3 steps and 2-4 models, sequential observations in the three modes, parallel "
              "observations under synchronous / real-thread / controlled schedulers, calibrations faulted at the k-th "
              "fitness evaluation. Oracle: the starting call (or load/compute) raises; message, type (outside optimiser "
              "threads), group and model name - and in sequential observation the failing run's parameter values - reach "
              "the caller; no later sequential run executes; no result is returned or loadable."
              " Faults are also injected through the legacy entry points pyxel.exposure_mode / pyxel.observation_mode, in seeded runs (pipeline_seed set) and inside a model's own seeded block.")
LEVEL_NOTE = ("Single-fault bound; faults are exceptions raised by a probe model (the dispatcher cannot distinguish them "
              "from a real model's exception). Identity is searched in str(exc), __notes__ and the cause/context chain.")
DESIGN_REF = "DESIGN.md section 4, C09"
RULE = ("cases = (simulation, fault site, exception class); sites enumerated from the fault-free trace; non-trivial = a "
        "fault was actually injected (the faulted probe call happened); distinct = distinct (mode, site, class)")

EXC = ["ValueError", "KeyError", "RuntimeError", "ZeroDivisionError", "OSError", "ProbeError", "StopIteration",
       "ProbeStop", "IndexError", "AttributeError", "TypeError", "NotImplementedError", "AssertionError",
       "FileNotFoundError", "LookupError", "ArithmeticError"]


class ProbeStop(StopIteration):
    """a model whose unguarded next() hits an exhausted iterator raises (a subclass of) StopIteration - an exception
    class that iteration protocols swallow"""


def _make_exc(kind, msg):
    if kind == "ProbeStop":
        return ProbeStop(msg)
    return probes.make_exc(kind, msg)
PLAN: dict = {}
LOG: list = []


def boom(detector, a=0, b=0, tag="", v=None):
    """probe: logs the call, raises when the fault plan matches (model name, step, swept values / call number)."""
    name = detector.current_running_model_name
    step = int(detector.pipeline_count)
    n = probes.CALLS.get(name, 0)
    probes.CALLS[name] = n + 1
    if name == "m_ph":                      # first model of every pipeline: publishes the run's identity
        detector._memory["vp_run"] = (a, b)
    else:
        a, b = detector._memory.get("vp_run", (a, b))
    LOG.append({"name": name, "step": step, "a": a, "b": b})
    detector.pixel.array = np.full(detector.geometry.shape, float(a) * 10 + float(b) + step)
    detector.photon.array = np.full(detector.geometry.shape, float(a))
    p = PLAN
    _slow_if_requested()
    if not p or p["name"] != name:
        return
    if "call" in p:
        if p["call"] != n:
            return
    else:
        if p["step"] != step or p.get("a", a) != a or p.get("b", b) != b:
            return
    PLAN["_hit"] = PLAN.get("_hit", 0) + 1
    if p.get("own_seed"):
        # the model fails inside its own seeded block (as every stochastic model with a `seed` argument would)
        from pyxel.util import set_random_seed

        with set_random_seed(11):
            np.random.random()
            raise _make_exc(p["exc"], p["msg"])
    raise _make_exc(p["exc"], p["msg"])


def _quiesce():
    """Wait until the thread pools of dask have finished the tasks that were already submitted when the failure
    surfaced (nondeterminism owned: no stray model call may happen after this point)."""
    import threading
    import time

    try:
        import dask.threaded as dt

        pools = [dt.default_pool] + [p for d in list(dt.pools.values()) for p in list(d.values())]
        for p in pools:
            if p is not None:
                p.shutdown(wait=True)
        dt.default_pool = None
        dt.pools.clear()
    except Exception:  # noqa: BLE001
        pass
    deadline = time.time() + 3.0
    me = threading.current_thread()
    while time.time() < deadline:
        busy = [t for t in threading.enumerate() if t is not me and t is not threading.main_thread() and t.is_alive()
                and "ThreadPoolExecutor" in t.name]
        if not busy:
            break
        time.sleep(0.01)


def _slow_if_requested():
    if PLAN.get("_hit") and PLAN.get("slow_after"):
        import time

        time.sleep(0.02)


LONG_TAGS = ("data/observations/2030-01-02/frame_000123_dark.fits", "data/observations/2030-01-02/frame_000124_flat.fits")
LONG_LIST = (1.5, 2.5, 3.5, 4.5, 5.5, 6.5, 7.5, 8.5)

PIPES = {
    "p2": [("photon_collection", "m_ph"), ("charge_collection", "m_cc")],
    "p4": [("photon_collection", "m_ph"), ("charge_generation", "m_cg1"), ("charge_generation", "m_cg2"),
           ("readout_electronics", "m_re")],
}
# disabled models listed *before* enabled ones of the same group (they must neither run nor be blamed)
DISABLED = {"p2": [("charge_collection", "m_off_cc")],
            "p4": [("charge_generation", "m_off_cg"), ("readout_electronics", "m_off_re")]}


def build_pipe(pname):
    groups = {}
    for g, n in DISABLED[pname]:
        groups.setdefault(g, []).append(("props.c09_fault_propagation.boom", n, {"a": 0, "b": 0}, False))
    for g, n in PIPES[pname]:
        groups.setdefault(g, []).append(("props.c09_fault_propagation.boom", n, {"a": 0, "b": 0, "v": [0.0, 0.0], "tag": ""}))
    return mk.pipeline(groups)


def key_of(pname, model, arg):
    g = [g for g, n in PIPES[pname] if n == model][0]
    return f"pipeline.{g}.{model}.arguments.{arg}"


# ------------------------------------------------------------------------- enumeration

def enumerate_cases(tier, seed):
    thorough = tier == "thorough"
    cases = []

    def classes(first):
        return EXC if (thorough or first) else ["ValueError"]

    # exposure
    for pname in PIPES:
        for steps in (1, 2, 3):
            first = True
            for step in range(steps):
                for g, model in PIPES[pname]:
                    for exc in classes(first):
                        cases.append({"mode": "exposure", "pipe": pname, "steps": steps, "site": {"name": model, "step": step},
                                      "exc": exc})
                    first = False
    # exposure with debug capture (another code path around every model call)
    for pname in PIPES:
        for step in range(2):
            for g, model in PIPES[pname]:
                for exc in ("ValueError", "KeyError", "ProbeStop"):
                    cases.append({"mode": "exposure", "pipe": pname, "steps": 2, "debug": True,
                                  "site": {"name": model, "step": step}, "exc": exc})
    # sequential observation
    for omode in ("product", "sequential", "custom"):
        for steps in ((1, 2) if thorough else (1,)):
            first = True
            for run in _runs(omode):
                for step in range(steps):
                    for g, model in PIPES["p2"]:
                        for exc in classes(first or (omode == "product" and step == 0)):
                            cases.append({"mode": "obs_seq", "omode": omode, "pipe": "p2", "steps": steps,
                                          "site": {"name": model, "step": step, "a": run["a"], "b": run["b"]}, "exc": exc})
                        first = False
    # swept values that are long (a file-name-like text of 45 characters, a list of 8 numbers): they must reach the caller
    # in full, not abbreviated
    for run in _runs("longvals"):
        for g, model in PIPES["p2"]:
            cases.append({"mode": "obs_seq", "omode": "longvals", "pipe": "p2", "steps": 1,
                          "site": {"name": model, "step": 0, "a": run["a"], "b": run["b"]}, "exc": "ValueError"})
    # the command-line / YAML entry point pyxel.run(<file>) with an outputs section
    for ymode in ("exposure", "obs_seq"):
        first = True
        for run in ([{"a": 0, "b": 0}] if ymode == "exposure" else _runs("product")):
            for step in range(2):
                for g, model in PIPES["p2"]:
                    for exc in (EXC if (thorough or first) else ["ValueError"]):
                        site = {"name": model, "step": step}
                        if ymode == "obs_seq":
                            site.update(a=run["a"], b=run["b"])
                        cases.append({"mode": ymode, "entry": "yaml", "omode": "product", "pipe": "p2", "steps": 2,
                                      "site": site, "exc": exc})
                    first = False
    # seeded runs (pipeline_seed set: the run is wrapped in the seeding context) and a model failing inside its own
    # seeded block: the error must come out of those contexts unchanged
    for pseed in ("pipeline", "model"):
        for step in range(2):
            for g, model in PIPES["p2"]:
                for exc in ("ValueError", "KeyError", "ProbeError"):
                    cases.append({"mode": "exposure", "pipe": "p2", "steps": 2, "pseed": pseed,
                                  "site": {"name": model, "step": step}, "exc": exc})
        for omode in ("product", "sequential"):
            for run in _runs(omode):
                for g, model in PIPES["p2"]:
                    cases.append({"mode": "obs_seq", "omode": omode, "pipe": "p2", "steps": 1, "pseed": pseed,
                                  "site": {"name": model, "step": 0, "a": run["a"], "b": run["b"]}, "exc": "ValueError"})
        for run in _runs("product3"):
            for g, model in PIPES["p2"]:
                cases.append({"mode": "obs_dask", "sched": "synchronous", "omode": "product3", "pipe": "p2", "steps": 1,
                              "pseed": pseed, "site": {"name": model, "step": 0, "a": run["a"], "b": run["b"]},
                              "exc": "ValueError"})
    # the legacy entry points pyxel.exposure_mode / pyxel.observation_mode (deprecated, still public, own implementations)
    for lmode, omodes in (("exposure", (None,)), ("obs_seq", ("product", "sequential", "custom"))):
        for omode in omodes:
            first = True
            for run in ([{"a": 0, "b": 0}] if lmode == "exposure" else _runs(omode)):
                for step in range(2):
                    for g, model in PIPES["p2"]:
                        for exc in (EXC if (thorough or first) else ["ValueError"]):
                            site = {"name": model, "step": step}
                            if lmode == "obs_seq":
                                site.update(a=run["a"], b=run["b"])
                            c = {"mode": lmode, "entry": "legacy", "pipe": "p2", "steps": 2, "site": site, "exc": exc}
                            if omode:
                                c["omode"] = omode
                            cases.append(c)
                        first = False
    # parallel observation
    for sched in ("synchronous", "threads", "controlled"):
        first = True
        for run in _runs("product3"):
            for g, model in PIPES["p2"]:
                # every class at every (run, model) site under the synchronous scheduler: a handler for one class on
                # the path of the later runs only (the first run is executed eagerly) is a separate behaviour
                for exc in classes(sched == "synchronous" or (first and sched == "threads")):
                    if sched == "controlled":
                        for order in itertools.permutations(range(3)):
                            cases.append({"mode": "obs_dask", "sched": sched, "order": list(order), "omode": "product3",
                                          "pipe": "p2", "steps": 1,
                                          "site": {"name": model, "step": 0, "a": run["a"], "b": run["b"]}, "exc": exc})
                    else:
                        cases.append({"mode": "obs_dask", "sched": sched, "omode": "product3", "pipe": "p2", "steps": 1,
                                      "site": {"name": model, "step": 0, "a": run["a"], "b": run["b"]}, "exc": exc})
                    first = False
    # calibration: k-th fitness evaluation (population 8: 0-7 initial population, 8-23 two generations)
    ks = list(range(24)) if thorough else [0, 5, 7, 8, 13, 16, 23]
    for k in ks:
        for exc in (EXC if (thorough and k in (0, 8)) else (["ValueError", "ProbeError"] if k in (0, 8) else ["ValueError"])):
            cases.append({"mode": "calibration", "pipe": "p2", "site": {"name": "m_cc", "call": k}, "exc": exc})
    for k in ((0, 3, 8, 20) if thorough else (0, 8)):
        for exc in ("ValueError", "ProbeError"):
            cases.append({"mode": "calibration", "pipe": "p2", "vector": True, "site": {"name": "m_cc", "call": k}, "exc": exc})
    # several islands: a fault in one island while the others are still evolving (their later evaluations are slowed
    # down so that the failing island finishes first); 2 islands x population 8: calls 0-15 initial populations
    ks2 = list(range(0, 48, 2)) if thorough else [3, 12, 17, 19, 26, 33]
    for islands in ((2, 3) if thorough else (2,)):
        for k in ks2:
            cases.append({"mode": "calibration", "pipe": "p2", "islands": islands, "slow_after": True,
                          "site": {"name": "m_cc", "call": k}, "exc": "ValueError"})
    return cases


def _runs(omode):
    s = int(os.environ.get("VERIF_SEED", "0") or 0) % 5
    if omode == "product":
        return [{"a": a, "b": b} for a in (1 + s, 2 + s) for b in (5, 6)]
    if omode == "product3":
        return [{"a": a, "b": 0} for a in (1 + s, 2 + s, 3 + s)]
    if omode == "sequential":
        # one parameter at a time, the other keeps its configured value (0)
        return [{"a": 1 + s, "b": 0}, {"a": 2 + s, "b": 0}, {"a": 0, "b": 5}, {"a": 0, "b": 6}]
    if omode == "custom":
        return [{"a": 1 + s, "b": 5}, {"a": 2 + s, "b": 6}, {"a": 3 + s, "b": 7}]
    if omode == "longvals":
        return [{"a": 1 + s, "b": 0}, {"a": 2 + s, "b": 0}]
    raise KeyError(omode)


def build_observation(omode, pname, steps, with_dask, tmp):
    from pyxel.observation import Observation, ParameterValues

    s = int(os.environ.get("VERIF_SEED", "0") or 0) % 5
    ka, kb = key_of(pname, "m_ph", "a"), key_of(pname, "m_ph", "b")
    # both models must see the swept values: sweep the same values on both models
    ka2, kb2 = key_of(pname, "m_cc", "a"), key_of(pname, "m_cc", "b")
    times = [float(i + 1) for i in range(steps)]
    kw = {}
    if omode == "product":
        params = [ParameterValues(key=ka, values=[1 + s, 2 + s]), ParameterValues(key=kb, values=[5, 6])]
    elif omode == "product3":
        params = [ParameterValues(key=ka, values=[1 + s, 2 + s, 3 + s])]
    elif omode == "longvals":
        params = [ParameterValues(key=ka, values=[1 + s, 2 + s]),
                  ParameterValues(key=key_of(pname, "m_ph", "tag"), values=list(LONG_TAGS)),
                  ParameterValues(key=key_of(pname, "m_cc", "v"), values=[list(LONG_LIST)])]
    elif omode == "sequential":
        params = [ParameterValues(key=ka, values=[1 + s, 2 + s]), ParameterValues(key=kb, values=[5, 6])]
    else:
        fn = os.path.join(tmp, "custom.txt")
        with open(fn, "w") as f:
            for r in _runs("custom"):
                f.write(f"{r['a']} {r['b']}\n")
        params = [ParameterValues(key=ka, values="_"), ParameterValues(key=kb, values="_")]
        kw = dict(from_file=fn, column_range=(0, 2))
    mode = {"product3": "product", "longvals": "product"}.get(omode, omode)
    return Observation(parameters=params, mode=mode, readout=mk.readout(times), with_dask=with_dask, **kw)


# ------------------------------------------------------------------------- oracle helpers

def chain_texts(e):
    """(types in chain, concatenated text of str(), notes) following the explicit __cause__ chain."""
    types, texts = [], []
    seen = set()
    while e is not None and id(e) not in seen:
        seen.add(id(e))
        types.append(type(e))
        texts.append(str(e))
        texts.extend(str(n) for n in getattr(e, "__notes__", []) or [])
        texts.extend(str(a) for a in getattr(e, "args", ()) or ())
        # only the explicit chain (`raise ... from exc`): an implicit __context__ means that ANOTHER error happened while
        # the failure was being handled and replaced it - the caller then catches that other error, not the model's
        e = e.__cause__
    return types, "\n".join(texts)


def exc_class(name):
    import builtins

    if name == "ProbeStop":
        return ProbeStop
    return probes.ProbeError if name == "ProbeError" else getattr(builtins, name)


def run_case(case):
    import pyxel

    mode = case["mode"]
    site = case["site"]
    msg = f"BOOM-{cfgx.sig(case)[:8]}"
    viol = []

    def bad(code, what, **extra):
        key = {"mode": mode, "code": code}
        if case.get("debug"):
            key["debug"] = True
        if case.get("entry"):
            key["entry"] = case["entry"]
        if mode == "obs_seq":
            key["omode"] = case["omode"]
        if mode == "obs_dask":
            key["sched"] = case["sched"]
        key.update(extra)
        viol.append((key, f"[{mode} {case.get('omode', '')} {case.get('sched', '')} pipe={case['pipe']} steps="
                          f"{case.get('steps')}] fault {case['exc']}({msg!r}) at {site}: {what}"))

    tmp = tempfile.mkdtemp(prefix="vp_c09_")
    probes.reset()
    LOG.clear()
    PLAN.clear()
    PLAN.update(dict(site, exc=case["exc"], msg=msg, slow_after=bool(case.get("slow_after")),
                     own_seed=(case.get("pseed") == "model")))
    raised = None
    result = None
    phase = "start"
    try:
        det = mk.detector("ccd", 2, 3)
        pipe = build_pipe(case["pipe"])
        try:
            if case.get("entry") == "yaml":
                result = pyxel.run(_write_yaml(case, tmp))
            elif case.get("entry") == "legacy":
                import warnings

                with warnings.catch_warnings():
                    warnings.simplefilter("ignore")
                    if mode == "exposure":
                        result = pyxel.exposure_mode(mk.exposure([float(i + 1) for i in range(case["steps"])]), det, pipe)
                    else:
                        obs = build_observation(case["omode"], case["pipe"], case["steps"], False, tmp)
                        result = pyxel.observation_mode(obs, det, pipe)
            elif mode == "exposure":
                expo = mk.exposure([float(i + 1) for i in range(case["steps"])])
                if case.get("pseed") == "pipeline":
                    expo.pipeline_seed = 7
                result = pyxel.run_mode(expo, det, pipe, with_inherited_coords=True, debug=bool(case.get("debug")))
            elif mode == "obs_seq":
                obs = build_observation(case["omode"], case["pipe"], case["steps"], False, tmp)
                if case.get("pseed") == "pipeline":
                    obs.pipeline_seed = 7
                result = pyxel.run_mode(obs, det, pipe, with_inherited_coords=True)
            elif mode == "obs_dask":
                import dask

                obs = build_observation(case["omode"], case["pipe"], case["steps"], True, tmp)
                if case.get("pseed") == "pipeline":
                    obs.pipeline_seed = 7
                if case["sched"] == "controlled":
                    result, phase = _run_controlled(obs, det, pipe, case["order"])
                else:
                    kw = {"scheduler": case["sched"]}
                    if case["sched"] == "threads":
                        kw["num_workers"] = 2
                    with dask.config.set(**kw):
                        result = pyxel.run_mode(obs, det, pipe, with_inherited_coords=True)
                        phase = "load"
                        result.load()
            elif mode == "calibration":
                result = _run_calibration(det, pipe, tmp, case.get("islands", 1), vector=bool(case.get("vector")))
                phase = "compute"
                # everything lazily attached to the result must be computable (or fail loudly)
                for node in result.subtree:
                    for v in node.data_vars.values():
                        v.compute()
        except BaseException as e:  # noqa: BLE001
            raised = e
    finally:
        hit = PLAN.get("_hit", 0)
        if mode in ("obs_dask", "calibration"):
            _quiesce()              # worker threads of a failed parallel run must not log into the next case
        PLAN.clear()
        shutil.rmtree(tmp, ignore_errors=True)

    log = list(LOG)
    if not hit:
        # the faulted call never happened (e.g. calibration finished earlier): trivial case
        return {"viol": viol, "sig": cfgx.sig([mode, "nohit"]), "nontrivial": False, "outcome": "site not reached"}

    if raised is None:
        bad("swallowed", f"no exception reached the caller (phase {phase}); a result object was returned "
                         f"({type(result).__name__})")
    else:
        types, text = chain_texts(raised)
        if msg not in text:
            bad("message-lost", f"original message not found in {type(raised).__name__}: {text[:300]!r}")
        if mode != "calibration" and not any(issubclass(t, exc_class(case["exc"])) for t in types):
            bad("type-lost", f"original type {case['exc']} not in exception chain {[t.__name__ for t in types]}")
        g = [g for g, n in PIPES[case["pipe"]] if n == site["name"]][0]
        if g not in text:
            bad("group-missing", f"group name {g!r} not attached to {type(raised).__name__}: {text[:400]!r}")
        if site["name"] not in text:
            bad("model-missing", f"model name {site['name']!r} not attached: {text[:400]!r}")
        blamed = [n for _, n in PIPES[case["pipe"]] + DISABLED[case["pipe"]]
                  if n != site["name"] and f"model '{n}'" in text]
        if blamed:
            bad("wrong-model-blamed", f"the error names model(s) {blamed} although {site['name']!r} failed: {text[:400]!r}")
        if mode == "obs_seq":
            # the parameter values of the failing run: every swept key and its value
            if case["omode"] == "longvals":
                # the first run with the faulted `a` carries the first tag; the list has one value
                if LONG_TAGS[0] not in text:
                    bad("parameters-missing", f"the swept text value {LONG_TAGS[0]!r} of the failing run does not reach the "
                        f"caller in full: {text[-500:]!r}", value="long-text")
                if not all(repr(x) in text.split(key_of(case["pipe"], "m_cc", "v"))[-1] for x in LONG_LIST):
                    bad("parameters-missing", f"the swept list {list(LONG_LIST)} of the failing run does not reach the caller "
                        f"in full: {text[-500:]!r}", value="long-list")
            for arg in ("a", "b") if case["omode"] != "longvals" else ("a",):
                k = key_of(case["pipe"], "m_ph", arg)
                v = site[arg]
                swept = not (case["omode"] == "sequential" and v == 0)
                if swept and (k not in text or not _has_value(text, k, v)):
                    bad("parameters-missing", f"parameter {k}={v} of the failing run not attached: {text[-500:]!r}")
    # sequential modes: nothing after the fault may execute
    if mode in ("exposure", "obs_seq") and raised is not None:
        idx = None
        for i, c in enumerate(log):
            if c["name"] == site["name"] and c["step"] == site["step"] and \
                    c["a"] == site.get("a", c["a"]) and c["b"] == site.get("b", c["b"]):
                idx = i
                break
        if idx is not None and len(log) > idx + 1:
            bad("continued", f"{len(log) - idx - 1} model call(s) executed after the failing one: {log[idx + 1:][:4]}")
    return {"viol": viol, "sig": cfgx.sig([mode, case.get("entry"), case.get("omode"), case.get("sched"), case.get("order"), site, case["exc"],
                                           case.get("debug"), case.get("vector"), case.get("pseed")]),
            "nontrivial": True, "n": 1,
            "outcome": {"raised": None if raised is None else type(raised).__name__, "phase": phase, "calls": len(log)}}


def _write_yaml(case, tmp):
    import yaml

    s = int(os.environ.get("VERIF_SEED", "0") or 0) % 5
    pname = case["pipe"]
    pipe = {}
    for g, n in DISABLED[pname]:
        pipe.setdefault(g, []).append({"name": n, "func": "props.c09_fault_propagation.boom", "enabled": False,
                                       "arguments": {"a": 0, "b": 0}})
    for g, n in PIPES[pname]:
        pipe.setdefault(g, []).append({"name": n, "func": "props.c09_fault_propagation.boom", "enabled": True,
                                       "arguments": {"a": 0, "b": 0}})
    readout = {"times": [float(i + 1) for i in range(case["steps"])]}
    outputs = {"output_folder": os.path.join(tmp, "out"), "save_data_to_file": [{"detector.pixel.array": ["npy"]}]}
    doc = {"ccd_detector": {
        "geometry": {"row": 2, "col": 3, "total_thickness": 10.0, "pixel_vert_size": 2.0, "pixel_horz_size": 0.5},
        "environment": {"temperature": 100.0},
        "characteristics": {"quantum_efficiency": 0.5, "charge_to_volt_conversion": 1e-3, "pre_amplification": 4.0,
                            "full_well_capacity": 1000, "adc_bit_resolution": 16, "adc_voltage_range": [0.0, 8.0]}},
        "pipeline": pipe}
    if case["mode"] == "exposure":
        doc["exposure"] = {"readout": readout, "outputs": outputs}
    else:
        doc["observation"] = {"mode": "product", "readout": readout, "outputs": outputs, "parameters": [
            {"key": key_of(pname, "m_ph", "a"), "values": [1 + s, 2 + s]},
            {"key": key_of(pname, "m_ph", "b"), "values": [5, 6]}]}
    path = os.path.join(tmp, "config.yaml")
    with open(path, "w") as f:
        yaml.safe_dump(doc, f, sort_keys=False)
    return path


def _has_value(text, key, value):
    i = text.find(key)
    while i >= 0:
        seg = text[i + len(key): i + len(key) + 40]
        if str(value) in seg:
            return True
        i = text.find(key, i + 1)
    return False


def _run_calibration(det, pipe, tmp, islands=1, vector=False):
    import pyxel
    from pyxel.observation import ParameterValues

    from vp import calib

    tgt = os.path.join(tmp, "t.npy")
    np.save(tgt, np.ones((2, 3)))
    variables = [ParameterValues(key=key_of("p2", "m_ph", "a"), values="_", boundaries=(0.0, 5.0))]
    if vector:          # a vector-valued variable: the decision vector is longer than the list of variables
        variables.append(ParameterValues(key=key_of("p2", "m_cc", "v"), values=["_", "_"], boundaries=(0.0, 1.0)))
    cal = calib.calibration([tgt], variables,
                            generations=2, population_size=8, pygmo_seed=1, num_islands=islands, num_evolutions=1)
    return pyxel.run_mode(cal, det, pipe, with_inherited_coords=True)


_SCHED = [None]


def _run_controlled(obs, det, pipe, order):
    """parallel observation where the three run tasks are started in the given order (atomic tasks)."""
    import dask
    import pyxel

    from props.c07_parallel import _is_run_task

    schedx.install_dask_queue_get(lambda: _SCHED[0])
    result = pyxel.run_mode(obs, det, pipe, with_inherited_coords=True)
    # translate the requested start order into choices: at decision i pick the thread whose rank is order[i]
    remaining = [0, 1, 2]
    choices = []
    for o in order:
        choices.append(remaining.index(o))
        remaining.remove(o)
    sched = schedx.Sched(choices)
    _SCHED[0] = sched
    try:
        ex = schedx.ControlledExecutor(sched, 3, controlled=_is_run_task)
        with dask.config.set(scheduler="threads", pool=ex, num_workers=3):
            result.load()
    finally:
        _SCHED[0] = None
    return result, "load"


cfgx.install(__import__("sys").modules[__name__])
