"""C15 - charge-handling models neither create nor lose charge unaccountably.

Bounded exhaustive enumeration (vp.cfgx) of parameter grids (end points of the documented ranges included)
x frame palette x number of trap species x illumination histories; every case calls the real model
function(s) on a real detector and checks the conservation law of the statement for that model:

  collection     pixel_after == pixel_before + charge            (exact)
  conversion     sampling off: charge == QE * photons; sampling on: the arguments handed to numpy's
                 generator are n = floor(photons), p = QE and the generator's answer is stored unchanged
                 (seam on np.random.binomial - outcomes are not sampled)
  full_well      out == minimum(in, capacity); applying it twice == once
  ipc            kernel weights sum to one; a uniform frame is unchanged
  cdm            no negative (or NaN) pixel, total not larger than received, for 1..3 applications
  persistence    pixel + sum of trapped charge is constant over every step, trapped charge >= 0
"""
from __future__ import annotations

import itertools
import os
import shutil
import tempfile

import numpy as np

from vp import cfgx, mk

ID = "C15"
LEVEL = "exploration"
ENGINE = "cfgx"
TIMEOUT = 900
TECHNIQUE = ("bounded exhaustive enumeration of model parameter grids x frame palette x trap species x illumination "
             "histories on real detectors; per-model conservation law as oracle; seam on np.random.binomial for the "
             "sampled photo-conversion")
LEVEL_TEXT = ("Every member of seven finite families (simple_collection, simple_conversion with and without binomial "
              "sampling, simple_full_well, simple_ipc, cdm parallel/serial, simple_persistence, persistence with map "
              "files) is executed on a real CCD/CMOS detector of 3x3 or 2x4 pixels: full grids over the documented "
              "parameter ranges with their end points, 1..5 trap species, every illumination history of 1..3 (quick) / "
              "1..4 (thorough) steps over three levels, 1..3 repeated CTI applications. The oracle is the conservation "
              "law of the statement for that model with a stated tolerance (exact, or 1e-9 relative for FFT / fastmath "
              "sums).")
LEVEL_NOTE = ("Bounded: frame palette of 6 patterns on two geometries, 3-point grids per CDM parameter, uniform or "
              "gradient trap maps. Outcomes of random draws are not enumerated: for the sampled conversion the "
              "arguments given to numpy's generator decide the bound for every outcome. Trusted: numpy's binomial "
              "generator returns values in [0, n]; the law formulas (5 lines each).")
DESIGN_REF = "DESIGN.md section 4, C15"
RULE = ("cases = union of 7 families (model x parameter grid x frames x species x histories); each case = one parameter "
        "vector with all its steps; non-trivial = some charge was present; distinct = distinct (family, rounded output) "
        "signatures")
NSHARDS = 48
ASSUMPTIONS = [
    "2-D photon frames only (3-D wavelength-resolved photons are integrated by xarray before conversion)",
    "trap densities within [0, 1] and time constants > 0 (simple_persistence does not document a range)",
    "tolerances: exact for collection / full well / expectation-value conversion (1e-12 relative); 1e-9 relative for "
    "IPC (FFT), CDM totals and persistence sums",
    "illumination levels {0, 10, 1000} x frame pattern; each step starts from freshly collected charge (destructive readout)",
]

SHAPES = [(3, 3), (2, 4)]
PATTERNS = ["zero", "uniform", "hot", "saturated", "ramp", "checker"]
LEVELS = [0.0, 10.0, 1000.0]


def _seed():
    return int(os.environ.get("VERIF_SEED", "0") or 0)


def frame(pattern, shape, scale=1.0):
    s = _seed()
    r, c = shape
    k = 1.0 + 0.25 * (s % 4)                  # payload rotation only
    if pattern == "zero":
        a = np.zeros(shape)
    elif pattern == "uniform":
        a = np.full(shape, 100.0 * k)
    elif pattern == "hot":
        a = np.zeros(shape)
        a[(1 + s) % r, (2 + s) % c] = 5000.0 * k
    elif pattern == "saturated":
        a = np.full(shape, 1.0e5)
    elif pattern == "ramp":
        a = (np.arange(r * c, dtype=float).reshape(shape) * 12.5 + 0.5) * k
    elif pattern == "checker":
        a = ((np.indices(shape).sum(axis=0) + s) % 2) * 250.0 * k + 0.75
    elif pattern.startswith("faintrow_") or pattern.startswith("faintcol_"):
        # one faint packet (a few hundred electrons) per line, all other pixels empty: next to the readout end, in the
        # middle, at the far end of the transfer axis
        a = np.zeros(shape)
        where = pattern.split("_")[1]
        if pattern.startswith("faintrow_"):
            a[{"far": r - 1, "near": 1 % r, "mid": r // 2}[where], :] = 300.0 * k
        else:
            a[:, {"far": c - 1, "near": 1 % c, "mid": c // 2}[where]] = 300.0 * k
    elif pattern in ("sparse_rows", "sparse_cols"):
        # one bright pixel per line (row / column), a third of the way in, all other pixels of the line empty
        a = np.zeros(shape)
        if pattern == "sparse_rows":
            a[:, c // 3] = 7.0e4 * k
        else:
            a[r // 3, :] = 7.0e4 * k
    else:
        raise KeyError(pattern)
    return a * scale


# ------------------------------------------------------------------ enumeration

def _persist_params(thorough):
    out = []
    for n in (1, 2, 3, 4, 5):
        for dens in ((0.0, 0.1, 0.5, 1.0) if thorough else (0.1, 0.5, 1.0)):
            for tau in ((0.5, 5.0, 1000.0) if thorough else (0.5, 1000.0)):
                for cap in ("none", "tight", "loose"):
                    out.append({"n": n, "dens": dens, "tau": tau, "cap": cap})
                    if n >= 2 and cap != "loose":
                        # the same species listed with DEscending time constants (the order is the user's choice)
                        out.append({"n": n, "dens": dens, "tau": tau, "cap": cap, "order": "desc"})
    return out


def _histories(maxlen):
    out = []
    for ln in range(1, maxlen + 1):
        out.extend([list(h) for h in itertools.product(range(len(LEVELS)), repeat=ln)])
    return out


CDM_AXES = {
    "beta": [0.0, 0.3, 1.0],
    "tr": [1e-4, 1e-2, 1.0],
    "nt": [0.0, 1e8, 1e12],
    "sigma": [0.0, 1e-15, 1e-10],
    "vg": [0.0, 1e-10, 1.0],
    "t": [0.0, 1e-3, 10.0],
}
CDM_BASE = {"beta": 0.3, "tr": 1e-2, "nt": 1e8, "sigma": 1e-15, "vg": 1e-10, "t": 1e-3}


def enumerate_cases(tier, seed):
    thorough = tier == "thorough"
    cases = []
    # collection
    for shape in SHAPES:
        for pat in PATTERNS:
            for pre in ("initial", "prefilled"):
                cases.append({"fam": "collection", "shape": list(shape), "pattern": pat, "pre": pre, "as": "array"})
    for pat in ("hot", "ramp"):
        cases.append({"fam": "collection", "shape": [3, 3], "pattern": pat, "pre": "prefilled", "as": "clusters"})
    # repeated application over the steps of a readout sequence (the detector is emptied between the steps as run_pipeline
    # does - fully or keeping the pixels - and every step generates the same NUMBER of packets with other values)
    for pat in ("hot", "ramp"):
        for as_ in ("array", "clusters"):
            for nd in (False, True):
                cases.append({"fam": "collection", "shape": [3, 3], "pattern": pat, "pre": "initial", "as": as_,
                              "steps": 3, "nd": nd})
    # conversion
    for shape in SHAPES:
        for pat in PATTERNS:
            for qe in (0.0, 0.3, 0.5, 1.0):
                for sampling in (False, True):
                    for via in ("argument", "characteristics"):
                        cases.append({"fam": "conversion", "shape": list(shape), "pattern": pat, "qe": qe,
                                      "sampling": sampling, "via": via})
    # photo-conversion of multi-wavelength photons (integrated over the wavelength axis first): regular / irregular grids
    for shape in SHAPES:
        for grid in ("regular", "irregular", "single2"):
            for qe in (0.0, 0.3, 1.0):
                for sampling in (False, True):
                    for pat in ("uniform", "ramp", "hot"):
                        cases.append({"fam": "conversion3d", "shape": list(shape), "grid": grid, "qe": qe,
                                      "sampling": sampling, "pattern": pat})
    # photo-conversion with a per-pixel efficiency map placed at an offset (row offset != column offset included)
    for shape in SHAPES:
        for mshape in ("same", "larger", "smaller"):
            for pos in ((0, 0), (0, 1), (1, 0), (1, 2), (2, 1), (-1, 0), (0, -1)):
                for sampling in (False, True):
                    for pat in ("uniform", "ramp"):
                        cases.append({"fam": "qemap", "shape": list(shape), "mshape": mshape, "pos": list(pos),
                                      "sampling": sampling, "pattern": pat})
    # full well
    for shape in SHAPES:
        for pat in PATTERNS:
            for fwc in ("0", "10", "10.5", "max", "halfmax", "1e7"):
                for via in ("argument", "characteristics"):
                    cases.append({"fam": "full_well", "shape": list(shape), "pattern": pat, "fwc": fwc, "via": via})
    # ipc
    grid_c = [0.01, 0.05, 0.1, 0.15, 0.25]
    grid_d = [0.0, 0.005, 0.02, 0.05, 0.1]
    grid_a = [0.0, 0.005, 0.02, 0.05, 0.1]
    for c in grid_c:
        for d in grid_d:
            for a in grid_a:
                if d < c and a < c and 0 <= c + d <= 0.25:
                    for shape in SHAPES:
                        for pat in ("zero", "uniform", "saturated"):
                            cases.append({"fam": "ipc", "shape": list(shape), "pattern": pat, "c": c, "d": d, "a": a})
    # cdm
    if thorough:
        grid = cfgx.product(**CDM_AXES)
    else:
        grid = [{k: v for k, v in g.items() if k != "_dev"} for g in cfgx.k_deviations(CDM_BASE, CDM_AXES, 2)]
    for g in grid:
        for direction in ("parallel", "serial"):
            for species in ((1, 2, 3) if thorough else (1, 3)):
                for pat in (("uniform", "hot", "ramp", "saturated") if thorough else ("hot", "ramp")):
                    cases.append(dict(g, fam="cdm", direction=direction, species=species, pattern=pat,
                                      shape=[3, 3] if species != 2 else [2, 4], fwc=1000.0, inj=False, repeats=3))
    for direction in ("parallel", "serial"):                      # remaining axes, one at a time
        for pat in PATTERNS:
            for fwc in (0.0, 1.0e7):
                cases.append(dict(CDM_BASE, fam="cdm", direction=direction, species=2, pattern=pat, shape=[2, 4],
                                  fwc=fwc, inj=False, repeats=2))
            cases.append(dict(CDM_BASE, fam="cdm", direction=direction, species=2, pattern=pat, shape=[2, 4],
                              fwc=1000.0, inj=True, repeats=2))
    # cdm, sparse lines (a bright pixel followed by a long run of empty pixels) with traps strong enough that the
    # charge released into the empty pixels is far above the model's 0.01 e- floor: release bookkeeping
    for direction in ("parallel", "serial"):
        for shape in ([1, 24], [24, 1], [3, 18], [18, 3]):
            for species in (1, 3):
                for nt in (1.0e10, 4.0e10):
                    for ratio in (1.0, 0.1, 0.01):           # transfer period / release time
                        for pat in ("sparse_rows", "sparse_cols"):
                            cases.append(dict(fam="cdm", beta=0.3, tr=2.0e-3 / ratio, nt=nt, sigma=1.0e-15, vg=1.0e-10,
                                              t=2.0e-3, direction=direction, species=species, pattern=pat,
                                              shape=shape, fwc=1.0e5, inj=False, repeats=2))
    # cdm, faint packets in a heavily damaged device: several trap species whose capture fractions add up to more than
    # one (each species must capture from what the others left)
    for direction in ("parallel", "serial"):
        for shape in ([40, 2], [2, 40], [6, 6]):
            for species in (2, 3, 5):
                for nt in (1.0e10, 3.0e11, 1.0e12):
                    for tr in (1.0e-3, 2.0e-2):                 # release as fast as / much slower than the transfer
                        for pat in ("faintrow_far", "faintrow_near", "faintrow_mid", "faintcol_far", "faintcol_near",
                                    "faintcol_mid"):
                            cases.append(dict(fam="cdm", beta=0.3, tr=tr, nt=nt, sigma=1.0e-15, vg=1.6e-10, t=1.0e-3,
                                              direction=direction, species=species, pattern=pat, shape=shape,
                                              fwc=1.0e4, inj=False, repeats=2, eq=True))
    # persistence (simple and with maps)
    hist = _histories(4 if thorough else 3)
    for p in _persist_params(thorough):
        for h in hist:
            for pat in (("uniform", "ramp") if thorough else ("ramp",)):
                cases.append(dict(p, fam="simple_persistence", hist=h, pattern=pat, shape=[3, 3], dt=1.0))
    for p in _persist_params(thorough):
        if p["tau"] == 5.0:
            continue
        for h in hist:
            if not thorough and len(h) == 3 and h[0] == h[1] == h[2]:
                continue
            for dmap in ("uniform", "gradient"):
                cases.append(dict(p, fam="persistence", hist=h, pattern="ramp", shape=[2, 4], dt=10.0, dmap=dmap))
    return cases


# ------------------------------------------------------------------ helpers

def _close(a, b, rtol, scale=None):
    a, b = np.asarray(a, dtype=float), np.asarray(b, dtype=float)
    if a.shape != b.shape or np.isnan(a).any() or np.isnan(b).any():
        return False
    s = max(float(np.max(np.abs(b))) if b.size else 0.0, 1.0) if scale is None else scale
    return bool(np.all(np.abs(a - b) <= rtol * s))


def _sig(*arrays):
    return cfgx.sig([np.round(np.asarray(a, dtype=float), 6).tolist() for a in arrays])


class Result:
    def __init__(self, case):
        self.case, self.viol, self.n, self.sigs, self.nontrivial = case, [], 0, [], False

    def bad(self, key, what):
        k = {"model": self.case["fam"]}
        k.update(key)
        self.viol.append((k, f"{self.case['fam']}: {what}; case={ {k2: v for k2, v in self.case.items() if k2 != 'fam'} }"))

    def out(self, outcome=None):
        return {"viol": self.viol, "sig": cfgx.sig([self.case["fam"], self.sigs]), "nontrivial": self.nontrivial,
                "n": max(1, self.n), "outcome": outcome, "counts": {"model_calls": self.n}}


# ------------------------------------------------------------------ families

def run_collection_steps(case, res):
    from pyxel.models.charge_collection import simple_collection

    from props.c14_charge_accounting import add_clusters

    shape = tuple(case["shape"])
    det = mk.detector("ccd", *shape)
    det.empty()
    pixel = np.zeros(shape)
    for k in range(case["steps"]):
        det.empty(not case["nd"] or k == 0)          # what run_pipeline does at the beginning of step k
        if not case["nd"]:
            pixel = np.zeros(shape)
        charge = frame(case["pattern"], shape) * float(k + 1) + (7.0 if k == 1 else 0.0) * (frame(case["pattern"], shape) > 0)
        if case["as"] == "array":
            det.charge.add_charge_array(charge.copy())
        else:
            ys, xs = np.nonzero(charge)
            pv, ph = det.geometry.pixel_vert_size, det.geometry.pixel_horz_size
            add_clusters(det.charge, [(charge[y, x], (y + 0.5) * pv, (x + 0.5) * ph) for y, x in zip(ys, xs)])
        try:
            simple_collection(det)
            res.n += 1
            after = np.array(det.pixel.array, dtype=float)
        except Exception as e:  # noqa: BLE001
            res.bad({"code": "raised"}, f"step {k}: raised {type(e).__name__}: {e}")
            return
        exp = pixel + charge
        if not (after.shape == exp.shape and np.array_equal(after, exp)):
            res.bad({"code": "not-exact", "as": case["as"], "step": "later" if k else "first"},
                    f"step {k} ({'non-destructive' if case['nd'] else 'destructive'}): pixel after collection {after.tolist()} "
                    f"!= pixel before + generated charge {exp.tolist()}")
            return
        pixel = exp
        res.sigs.append(_sig(after))
    res.nontrivial = True


def run_collection(case, res):
    from pyxel.models.charge_collection import simple_collection

    if case.get("steps"):
        return run_collection_steps(case, res)
    shape = tuple(case["shape"])
    det = mk.detector("ccd", *shape)
    charge = frame(case["pattern"], shape)
    before = np.zeros(shape)
    det.empty()                                  # state at the start of a pipeline run: pixel bucket reset to zero
    if case["pre"] == "prefilled":
        before = frame("checker", shape, 0.5)
        det.pixel.array = before.copy()
    if case["as"] == "array":
        det.charge.add_charge_array(charge.copy())
    else:
        from props.c14_charge_accounting import add_clusters
        ys, xs = np.nonzero(charge)
        pv, ph = det.geometry.pixel_vert_size, det.geometry.pixel_horz_size
        add_clusters(det.charge, [(charge[y, x], (y + 0.5) * pv, (x + 0.5) * ph) for y, x in zip(ys, xs)])
    try:
        simple_collection(det)
        res.n += 1
        after = np.array(det.pixel.array, dtype=float)
    except Exception as e:  # noqa: BLE001
        res.bad({"code": "raised"}, f"raised {type(e).__name__}: {e}")
        return
    exp = before + charge
    if not (after.shape == exp.shape and np.array_equal(after, exp)):
        res.bad({"code": "not-exact", "as": case["as"]},
                f"pixel after collection {after.tolist()} != pixel before + charge {exp.tolist()}")
    res.sigs.append(_sig(after))
    res.nontrivial = bool(charge.any())


class BinomialSeam:
    """records the arguments handed to numpy's legacy generator and its answer (calls through)"""

    def __init__(self):
        self.calls = []

    def __enter__(self):
        self.orig = np.random.binomial

        def wrapped(n, p, size=None):
            out = self.orig(n, p, size)
            self.calls.append((np.array(n, copy=True), np.array(p, copy=True), np.array(out, copy=True)))
            return out

        np.random.binomial = wrapped
        return self

    def __exit__(self, *exc):
        np.random.binomial = self.orig
        return False


def run_conversion(case, res):
    from pyxel.models.charge_generation import simple_conversion

    shape = tuple(case["shape"])
    qe = case["qe"]
    det = mk.detector("ccd", *shape, char_kw={"quantum_efficiency": qe if case["via"] == "characteristics" else 0.123})
    photons = frame(case["pattern"], shape)
    det.photon.array = photons.copy()
    kw = {"binomial_sampling": case["sampling"], "seed": 1 + _seed()}
    if case["via"] == "argument":
        kw["quantum_efficiency"] = qe
    try:
        with BinomialSeam() as seam:
            simple_conversion(det, **kw)
        res.n += 1
        charge = np.array(det.charge.array, dtype=float)
    except Exception as e:  # noqa: BLE001
        res.bad({"code": "raised"}, f"raised {type(e).__name__}: {e}")
        return
    key = {"sampling": case["sampling"]}
    if charge.shape != photons.shape:
        res.bad(dict(key, code="shape"), f"charge shape {charge.shape}")
        return
    if (charge < 0).any() or (charge > photons * (1 + 1e-12)).any() or np.isnan(charge).any():
        res.bad(dict(key, code="out-of-bounds"), f"charge {charge.tolist()} not within [0, photons {photons.tolist()}]")
    if not case["sampling"]:
        if not _close(charge, photons * qe, 1e-12):
            res.bad(dict(key, code="expectation"), f"charge {charge.tolist()} != QE {qe} x photons {photons.tolist()}")
    else:
        if len(seam.calls) == 0:
            res.sigs.append("seam-not-used")        # another generator is used: only the outcome bound above applies
        else:
            if len(seam.calls) != 1:
                res.bad(dict(key, code="draws"), f"{len(seam.calls)} binomial draws for one conversion")
            n, p, out = seam.calls[0]
            n_b = np.broadcast_to(np.asarray(n, dtype=float), photons.shape)
            p_b = np.broadcast_to(np.asarray(p, dtype=float), photons.shape)
            if not np.array_equal(n_b, np.floor(photons)):
                res.bad(dict(key, code="binomial-n"), f"generator asked for n={np.asarray(n).tolist()} trials, incident "
                        f"photons are {photons.tolist()} (expected floor)")
            if not np.array_equal(p_b, np.full(photons.shape, qe)):
                res.bad(dict(key, code="binomial-p"), f"generator asked for p={np.asarray(p).tolist()}, QE is {qe}")
            if not np.array_equal(np.broadcast_to(np.asarray(out, dtype=float), photons.shape), charge):
                res.bad(dict(key, code="draw-altered"), f"generator returned {np.asarray(out).tolist()} but the charge "
                        f"added is {charge.tolist()}")
    res.sigs.append(_sig(charge) if not case["sampling"] else [str(len(seam.calls)), qe])
    res.nontrivial = bool(photons.any())


WL_GRIDS = {"regular": [400.0, 450.0, 500.0, 550.0], "irregular": [400.0, 405.0, 410.0, 420.0, 500.0, 600.0],
            "single2": [500.0, 510.0]}


def run_conversion3d(case, res):
    """simple_conversion on (wavelength, y, x) photons: the incident photons per pixel are the integral of the spectral
    photon density over the wavelength coordinate (trapezoidal rule on the ACTUAL coordinate values)"""
    import xarray as xr

    from pyxel.models.charge_generation import simple_conversion

    shape = tuple(case["shape"])
    wl = np.array(WL_GRIDS[case["grid"]])
    base = frame(case["pattern"], shape)
    cube = np.stack([base * (1.0 + 0.25 * k) / 64.0 for k in range(len(wl))])
    det = mk.detector("ccd", *shape, char_kw={"quantum_efficiency": 0.123})
    det.photon.array_3d = xr.DataArray(cube, dims=["wavelength", "y", "x"], coords={"wavelength": wl})
    trapz = getattr(np, "trapezoid", None) or np.trapz
    incident = trapz(cube, x=wl, axis=0)
    key = {"sampling": case["sampling"], "grid": case["grid"]}
    try:
        simple_conversion(det, quantum_efficiency=case["qe"], binomial_sampling=case["sampling"], seed=1 + _seed())
        res.n += 1
        charge = np.array(det.charge.array, dtype=float)
    except Exception as e:  # noqa: BLE001
        res.bad(dict(key, code="raised"), f"raised {type(e).__name__}: {str(e)[:200]}")
        return
    if charge.shape != incident.shape:
        res.bad(dict(key, code="shape"), f"charge shape {charge.shape}")
        return
    if (charge < 0).any() or (charge > incident * (1 + 1e-12) + 1e-9).any() or np.isnan(charge).any():
        res.bad(dict(key, code="out-of-bounds"), f"charge {charge.tolist()} not within [0, incident photons {incident.tolist()}] "
                f"(wavelengths {wl.tolist()})")
    if not case["sampling"] and not _close(charge, incident * case["qe"], 1e-12):
        res.bad(dict(key, code="expectation"), f"charge {charge.tolist()} != QE {case['qe']} x incident photons "
                f"{incident.tolist()} (wavelengths {wl.tolist()})")
    res.sigs.append(_sig(charge) if not case["sampling"] else [case["grid"], case["qe"]])
    res.nontrivial = bool(base.any())


def run_qemap(case, res):
    """conversion_with_qe_map: the map is placed like any input image (offset = position of the map's first pixel on the
    detector, zero efficiency where the map does not reach); per pixel 0 <= charge <= photons, = efficiency x photons
    without sampling"""
    import shutil
    import tempfile

    from pyxel.models.charge_generation import conversion_with_qe_map

    from props.c20_input_files import ref_place

    shape = tuple(case["shape"])
    ms = {"same": shape, "larger": (shape[0] + 2, shape[1] + 1), "smaller": (shape[0] - 1, shape[1] - 1)}[case["mshape"]]
    n = ms[0] * ms[1]
    # non-uniform, non-symmetric map with exact binary fractions, a dead pixel (0) and a perfect one (1)
    qmap = ((np.arange(n) * 5 + _seed()) % 9 / 8.0).reshape(ms)
    py, px = case["pos"]
    placed = ref_place(qmap, shape, py, px)
    tmp = tempfile.mkdtemp(prefix="vp_c15_")
    try:
        fn = os.path.join(tmp, f"qe_{_seed()}.npy")
        np.save(fn, qmap)
        det = mk.detector("ccd", *shape)
        photons = frame(case["pattern"], shape)
        det.photon.array = photons.copy()
        key = {"sampling": case["sampling"], "map": case["mshape"]}
        try:
            conversion_with_qe_map(det, filename=fn, position=(py, px), binomial_sampling=case["sampling"], seed=1 + _seed())
            res.n += 1
            charge = np.array(det.charge.array, dtype=float)
        except Exception as e:  # noqa: BLE001
            if placed is None:
                res.sigs.append("no-overlap-rejected")
                return
            res.bad(dict(key, code="raised"), f"raised {type(e).__name__}: {str(e)[:200]}")
            return
        if placed is None:
            res.bad(dict(key, code="no-overlap-accepted"), f"a map that does not reach the detector (position {(py, px)}) was accepted")
            return
        if (charge < 0).any() or (charge > photons * (1 + 1e-12)).any() or np.isnan(charge).any():
            res.bad(dict(key, code="out-of-bounds"), f"charge {charge.tolist()} not within [0, photons {photons.tolist()}]")
        if not case["sampling"]:
            if not _close(charge, photons * placed, 1e-12):
                res.bad(dict(key, code="expectation"), f"charge {charge.tolist()} != placed efficiency {placed.tolist()} x photons "
                        f"{photons.tolist()} (map {qmap.tolist()} at position {(py, px)})")
        else:
            if (charge[placed == 0] != 0).any():
                res.bad(dict(key, code="dead-pixel-converts"), f"pixels with efficiency 0 produced charge: {charge.tolist()} "
                        f"(placed efficiency {placed.tolist()})")
            full = placed == 1
            if (charge[full] != np.floor(photons[full])).any():
                res.bad(dict(key, code="perfect-pixel-loses"), f"pixels with efficiency 1 lost photons: {charge.tolist()} vs "
                        f"{photons.tolist()} (placed efficiency {placed.tolist()})")
        res.sigs.append(_sig(charge) if not case["sampling"] else [case["mshape"], py, px])
        res.nontrivial = bool(photons.any())
    finally:
        shutil.rmtree(tmp, ignore_errors=True)


def run_full_well(case, res):
    from pyxel.models.charge_collection import simple_full_well

    shape = tuple(case["shape"])
    inp = frame(case["pattern"], shape)
    fwc = {"0": 0.0, "10": 10, "10.5": 10.5, "max": float(inp.max()), "halfmax": float(inp.max()) / 2, "1e7": 1.0e7}[case["fwc"]]
    det = mk.detector("ccd", *shape, char_kw={"full_well_capacity": fwc if case["via"] == "characteristics" else 77})
    det.pixel.array = inp.copy()
    kw = {} if case["via"] == "characteristics" else {"fwc": fwc}
    outs = []
    try:
        for _ in range(2):
            simple_full_well(det, **kw)
            res.n += 1
            outs.append(np.array(det.pixel.array, dtype=float))
    except Exception as e:  # noqa: BLE001
        res.bad({"code": "raised"}, f"raised {type(e).__name__}: {e}")
        return
    exp = np.minimum(inp, fwc)
    if not np.array_equal(outs[0], exp):
        res.bad({"code": "not-minimum"}, f"output {outs[0].tolist()} != minimum(input {inp.tolist()}, capacity {fwc})")
    if not np.array_equal(outs[1], outs[0]):
        res.bad({"code": "not-idempotent"}, f"second application changed {outs[0].tolist()} into {outs[1].tolist()}")
    res.sigs.append(_sig(outs[0]))
    res.nontrivial = bool(inp.any())


def run_ipc(case, res):
    from pyxel.models.charge_collection import simple_ipc

    shape = tuple(case["shape"])
    c, d, a = case["c"], case["d"], case["a"]
    inp = frame(case["pattern"], shape)
    det = mk.detector("cmos", *shape)
    det.pixel.array = inp.copy()
    try:
        simple_ipc(det, coupling=c, diagonal_coupling=d, anisotropic_coupling=a)
        res.n += 1
        out = np.array(det.pixel.array, dtype=float)
    except Exception as e:  # noqa: BLE001
        res.bad({"code": "raised"}, f"raised {type(e).__name__}: {e}")
        return
    if not _close(out, inp, 1e-9):
        res.bad({"code": "uniform-changed"}, f"uniform frame of {float(inp.flat[0])} became {out.tolist()}")
    try:
        from pyxel.models.charge_collection.inter_pixel_capacitance import ipc_kernel

        k = ipc_kernel(c, d, a)
        if abs(float(np.sum(k)) - 1.0) > 1e-12:
            res.bad({"code": "kernel-sum"}, f"kernel weights sum to {float(np.sum(k))!r}")
        res.sigs.append(_sig(k))
    except ImportError:
        pass
    res.sigs.append(_sig(out))
    res.nontrivial = bool(inp.any())


def run_cdm(case, res):
    from pyxel.models.charge_transfer import cdm

    shape = tuple(case["shape"])
    inp = frame(case["pattern"], shape)
    det = mk.detector("ccd", *shape)
    det.pixel.array = inp.copy()
    ns = case["species"]
    kw = dict(direction=case["direction"], beta=case["beta"],
              trap_release_times=[case["tr"] * ((i + 1.0) if case.get("eq") else 10.0 ** i) for i in range(ns)],
              trap_densities=[case["nt"] if case.get("eq") else case["nt"] / (i + 1) for i in range(ns)],
              sigma=[case["sigma"]] * ns,
              full_well_capacity=case["fwc"], max_electron_volume=case["vg"], transfer_period=case["t"],
              charge_injection=case["inj"])
    degenerate = ("vg=0 & t*sigma=0" if case["vg"] == 0 and (case["t"] == 0 or case["sigma"] == 0) else
                  ("fwc=0" if case["fwc"] == 0 else ("vg=0" if case["vg"] == 0 else "-")))
    key = {"direction": case["direction"], "degenerate": degenerate}
    cur = inp
    for rep in range(case["repeats"]):
        try:
            with np.errstate(all="ignore"):
                cdm(det, **kw)
            res.n += 1
            out = np.array(det.pixel.array, dtype=float)
        except Exception:  # noqa: BLE001
            res.sigs.append("rejected")
            return                              # refused parameters: nothing is claimed
        if np.isnan(out).any():
            res.bad(dict(key, code="nan-output"), f"application {rep + 1}: input {cur.tolist()} gives {out.tolist()}")
            return
        if (out < 0).any():
            res.bad(dict(key, code="negative-pixel"), f"application {rep + 1}: input {cur.tolist()} gives {out.tolist()}")
        if float(out.sum()) > float(cur.sum()) * (1 + 1e-9) + 1e-9:
            res.bad(dict(key, code="charge-created"), f"application {rep + 1}: total {float(out.sum())!r} > received "
                    f"{float(cur.sum())!r} (input {cur.tolist()}, output {out.tolist()})")
        if rep == 0 and not np.array_equal(out, inp):
            res.nontrivial = True
        res.sigs.append(_sig(out))
        cur = out


def _persistence_lists(case):
    n = case["n"]
    taus = [case["tau"] * 10.0 ** i for i in range(n)]
    dens = [case["dens"] / (i + 1) for i in range(n)]
    caps = {"none": None, "tight": [1.0 + 0.5 * i for i in range(n)], "loose": [1.0e6] * n}[case["cap"]]
    if case.get("order") == "desc":
        taus, dens, caps = taus[::-1], dens[::-1], (caps[::-1] if caps else caps)
    return taus, dens, caps


def run_persistence(case, res):
    from pyxel.models.charge_collection import persistence, simple_persistence

    shape = tuple(case["shape"])
    fam = case["fam"]
    n = case["n"]
    taus, dens, caps = _persistence_lists(case)
    det = mk.detector("cmos", *shape)
    steps = len(case["hist"])
    det.set_readout(times=[case["dt"] * (i + 1) for i in range(steps)], start_time=0.0)
    tmp = None
    try:
        if fam == "persistence":
            tmp = tempfile.mkdtemp(prefix="vp_c15_")
            if case["dmap"] == "uniform":
                dm = np.full(shape, case["dens"])
            else:
                dm = np.linspace(0.0, case["dens"], shape[0] * shape[1]).reshape(shape)
            np.save(os.path.join(tmp, "dens.npy"), dm)
            props = [1.0 / n] * n
            kw = dict(trap_time_constants=taus, trap_proportions=props,
                      trap_densities_filename=os.path.join(tmp, "dens.npy"))
            if case["cap"] != "none":
                cm = np.full(shape, 2.0 * n if case["cap"] == "tight" else 1.0e6)
                np.save(os.path.join(tmp, "cap.npy"), cm)
                kw["trap_capacities_filename"] = os.path.join(tmp, "cap.npy")
            func = persistence
        else:
            kw = dict(trap_time_constants=taus, trap_densities=dens, trap_capacities=caps)
            func = simple_persistence
        base = frame(case["pattern"], shape) / 100.0
        key = {"species": "1" if n == 1 else ">=2", "capacities": case["cap"]}
        trapped_before = np.zeros(shape)
        for si, lv in enumerate(case["hist"]):
            pix_in = base * LEVELS[lv]
            det.pixel.array = pix_in.copy()
            det.time_step = case["dt"]
            try:
                func(det, **kw)
                res.n += 1
            except Exception as e:  # noqa: BLE001
                res.bad(dict(key, code="raised"), f"step {si + 1} raised {type(e).__name__}: {e}")
                return
            pix = np.array(det.pixel.array, dtype=float)
            trapped = np.array(det.persistence.trapped_charge_array, dtype=float)
            if trapped.shape != (n,) + shape:
                res.bad(dict(key, code="shape"), f"trapped charge array has shape {trapped.shape}")
                return
            tot_before = pix_in + trapped_before
            tot_after = pix + trapped.sum(axis=0)
            scale = max(float(tot_before.max()), 1.0)
            if np.isnan(tot_after).any() or not bool(np.all(np.abs(tot_after - tot_before) <= 1e-9 * scale)):
                diff = tot_after - tot_before
                i = np.unravel_index(int(np.nanargmax(np.abs(diff))), shape)
                code = "charge-lost" if diff[i] < 0 else "charge-created"
                res.bad(dict(key, code=code),
                        f"step {si + 1} (illumination x{LEVELS[lv]}): pixel + trapped = {float(tot_after[i])!r} after the "
                        f"step but {float(tot_before[i])!r} before it at pixel {tuple(int(x) for x in i)} "
                        f"(pixel in {float(pix_in[i])!r}, trapped before {float(trapped_before[i])!r}, pixel out "
                        f"{float(pix[i])!r}, trapped per species {trapped[(slice(None),) + i].tolist()})")
                return
            if (trapped < -1e-9 * scale).any():
                res.bad(dict(key, code="trapped-negative"), f"step {si + 1}: trapped charge {trapped.min()!r} < 0")
                return
            if trapped.any():
                res.nontrivial = True
            trapped_before = trapped.sum(axis=0)
            res.sigs.append(_sig(pix, trapped))
    finally:
        if tmp is not None:
            shutil.rmtree(tmp, ignore_errors=True)


RUNNERS = {"collection": run_collection, "conversion": run_conversion, "qemap": run_qemap, "conversion3d": run_conversion3d, "full_well": run_full_well, "ipc": run_ipc,
           "cdm": run_cdm, "simple_persistence": run_persistence, "persistence": run_persistence}


def run_case(case):
    res = Result(case)
    RUNNERS[case["fam"]](case, res)
    out = res.out(outcome={"model_calls": res.n, "violations": len(res.viol)})
    out["sets"] = {"families": [case["fam"]]}
    return out


cfgx.install(__import__("sys").modules[__name__])
