"""C08 - a dotted parameter key addresses exactly one existing setting, or is rejected.

Part "seq" (explicit-state exploration, level model_checking): exhaustive operation sequences over the alphabet
{has(k), get(k), set(k, v)} on real `Processor` objects of all four detector types.  Keys = every valid key (all
settable geometry / environment / characteristics fields, every declared model argument, every `enabled` flag) plus
the invalid keys derived mechanically from each of them (one character changed in each segment, last segment cut
short, last segment dropped, a middle segment dropped, `.foo` appended, wrong container); values = a palette of 17
python / textual / numpy values.  Reference model = flat dict key -> value.  Every transition is executed on the
implementation and compared with the reference and with a deep structural snapshot (vp.snapshot) of the whole
processor, so "changes that setting and nothing else" and "no new attribute anywhere" are decided structurally.

Part "entry" (bounded enumeration of the three entry points): pyxel.run_mode(..., override_dct=...), Observation
sweeps (product / sequential, sequential and dask execution) and the calibration problem's update_processor, each
for valid keys, derived invalid keys, undeclared arguments and arguments of a disabled model.
"""
from __future__ import annotations

import ast
import copy
import inspect
import itertools
import os
import shutil
import tempfile

import numpy as np

from vp import cfgx, mk, probes, snapshot

ID = "C08"
LEVEL = "model_checking"
ENGINE = "seqx+cfgx"
TIMEOUT = 1500
TECHNIQUE = ("exhaustive operation sequences (has/get/set x all valid and mechanically derived invalid dotted keys x value "
             "palette) on real Processor objects of the four detector types, each transition compared with a flat "
             "key->value reference model and a deep structural snapshot; plus bounded enumeration of the entry points "
             "(override_dct, Observation sweep validation, calibration update_processor)")
LEVEL_TEXT = ("All operation sequences of length 1 over the full alphabet and of length 2 (quick) / 3 (thorough) whose "
              "prefix is a state-changing assignment to every valid key are executed on deep copies of real processors. "
              "After every transition: reads are pure and agree with the reference dict; an accepted assignment to a "
              "valid key makes get(k) return the literal the value denotes, leaves every other key's value unchanged and "
              "changes the object graph only at that key's storage location (located mechanically beforehand); any "
              "operation on an invalid key is rejected by an exception and leaves the complete structural snapshot "
              "unchanged (no new attribute anywhere). Entry points: invalid / undeclared / disabled-model keys must be "
              "rejected before any model ran (empty probe trace) with the caller's objects unchanged."
              " Override keys addressed to the running mode are also given as text, and the command-line entry pyxel.run(file, override=['key=text']) is executed for detector, model-argument, enabled-flag and running-mode keys (valid and misspelt).")
LEVEL_NOTE = ("Bounded: sequence length, one generated pipeline (2 groups x 2 models, one disabled, int/float/bool/str/list "
              "arguments, one argument name shared by two models), palette of 17 values, one derived key per (valid key, "
              "derivation rule). Keys that address existing non-setting containers (last segment dropped, e.g. "
              "'detector.environment') are judged for set only (has/get of a container are not settings reads). Trusted: "
              "python's ast.literal_eval as definition of 'the literal a text denotes', vp.snapshot, the physical coupling "
              "avalanche_gain / pixel_reset_voltage / common_voltage of the APD characteristics (declared, not inferred).")
DESIGN_REF = "DESIGN.md section 4, C08"
ASSUMPTIONS = [
    "a valid key is a settable public property of detector.geometry/environment/characteristics, a declared model "
    "argument or a model's enabled flag; read-only properties (shape, system_gain, ...) are neither valid nor invalid keys",
    "a validated setter may refuse a value of a valid key (any exception); then nothing else may change",
    "the three APD settings avalanche_gain, pixel_reset_voltage and common_voltage are physically coupled: assigning one "
    "may change the other two (and nothing else)",
    "value equality is by value and kind (bool / number / string / sequence / array); int 5 vs float 5.0 is not distinguished",
]

ROWS, COLS = 2, 3
COUPLED = {"apd": [{"detector.characteristics.avalanche_gain", "detector.characteristics.pixel_reset_voltage",
                    "detector.characteristics.common_voltage"}]}
SECTIONS = ("geometry", "environment", "characteristics")


def _s():
    return int(os.environ.get("VERIF_SEED", "0") or 0) % 5


# ---------------------------------------------------------------- the configuration under test

def model_specs():
    s = _s()
    return {
        "photon_collection": [("vp.cprobes.plain", "p1", {"i": 3 + s, "f": 2.5, "flag": True}, True),
                              ("vp.cprobes.plain", "p2", {"s": "txt", "lst": [1, 2 + s]}, False)],
        "charge_generation": [("vp.cprobes.plain", "q1", {"i": 7 + s, "w": [0.5, 1.5]}, True),
                              # (an argument declared with the value None - `seed: null` in a file - is a declared setting)
                              ("vp.cprobes.plain", "q2", {"seed": None}, True)],
    }


def make_processor(kind):
    from pyxel.pipelines import Processor

    return Processor(detector=make_detector(kind), pipeline=mk.pipeline(model_specs()))


def make_detector(kind):
    """every optional setting is configured, so that every valid key reads a value"""
    return mk.detector(kind, ROWS, COLS, temperature=100.0 + _s(), geo_kw={"pixel_scale": 0.5},
                       env_kw={"wavelength": 600.0 + _s()})


def detector_fields(kind):
    """{section: [settable public property names]} derived from the classes"""
    det = mk.detector(kind, ROWS, COLS)
    out = {}
    for sec in SECTIONS:
        cls = type(getattr(det, sec))
        out[sec] = sorted(n for n, v in inspect.getmembers(cls, lambda v: isinstance(v, property))
                          if v.fset is not None and not n.startswith("_"))
    return out


def valid_keys(kind):
    keys = []
    for sec, fields in detector_fields(kind).items():
        keys += [f"detector.{sec}.{f}" for f in fields]
    for g, models in model_specs().items():
        for _, name, args, _en in models:
            keys += [f"pipeline.{g}.{name}.arguments.{a}" for a in args]
            keys.append(f"pipeline.{g}.{name}.enabled")
    return keys


def _mis(seg):
    return seg[:-1] + ("x" if seg[-1] != "x" else "y")


def derived_invalid(kind):
    """[(key, derivation class, valid key it was derived from)], de-duplicated, none of them valid; keys that are a
    proper prefix of a valid key (they address a container) carry the class 'truncated'."""
    valid = valid_keys(kind)
    vset = set(valid)
    prefixes = {".".join(k.split(".")[:i]) for k in valid for i in range(1, len(k.split(".")))}
    fields = detector_fields(kind)
    specs = model_specs()
    out, seen = [], set()

    def add(key, cls, src):
        if key in vset or key in seen or not key:
            return
        if key in prefixes:
            cls = "truncated"
        seen.add(key)
        out.append((key, cls, src))

    for k in valid:
        seg = k.split(".")
        n = len(seg)
        for j in range(n):
            add(".".join(seg[:j] + [_mis(seg[j])] + seg[j + 1:]), f"misspelt-segment-{'last' if j == n - 1 else j}", k)
        add(".".join(seg[:-1] + [seg[-1][:-1]]), "cut-short-last", k)
        add(".".join(seg[:-1]), "truncated", k)
        for j in range(1, n - 1):
            add(".".join(seg[:j] + seg[j + 1:]), f"dropped-segment-{j}", k)
        add(k + ".foo", "extended", k)
        # a spurious component inserted before the last one (the last component exists on the object before it)
        add(".".join(seg[:-1] + ["typo", seg[-1]]), "inserted-segment", k)
        if seg[0] == "pipeline" and seg[-1] == "enabled":
            add(".".join(seg[:-1] + ["argument", "enabled"]), "inserted-segment", k)
        if seg[0] == "detector":
            for sec in SECTIONS:
                if sec != seg[1] and seg[2] not in fields[sec]:
                    add(f"detector.{sec}.{seg[2]}", "wrong-container", k)
        else:
            if seg[3] == "arguments":
                add(".".join(seg[:3] + ["argument"] + seg[4:]), "wrong-container", k)
                for g, models in specs.items():
                    for _, name, args, _en in models:
                        if name != seg[2] and seg[4] not in args:
                            add(f"pipeline.{g}.{name}.arguments.{seg[4]}", "undeclared-argument", k)
            for g in specs:
                if g != seg[1]:
                    add(".".join([seg[0], g] + seg[2:]), "wrong-container", k)
    return out


PALETTE = [
    ["int", 5], ["float", 2.5], ["bool", False], ["str", "abc"], ["numstr-int", "5"], ["numstr-float", "5.0"],
    ["numstr-exp", "1e3"], ["numstr-neg", "-3"], ["liststr", "[1, 2]"], ["quoted", "'q'"], ["expr", "1+1"],
    ["name", "len"], ["empty", ""], ["strlist", ["1", "2.5", "x"]], ["strlist2", ["[1, 2]", "", "-3"]],
    ["npscalar", "np:1.5"], ["nparray", "np:[1.0, 2.0]"],
    ["mixlist", [3, "4", "2.5"]], ["mixtuple", (0.5, "5.0")],          # numbers first, numeric text later
]
PAL = dict((n, v) for n, v in PALETTE)
SHORT_VALUES = ["int", "str", "liststr", "strlist", "numstr-float"]          # value alphabet of the last op of longer sequences


def value_of(name):
    v = PAL[name]
    if isinstance(v, str) and v.startswith("np:"):
        lit = ast.literal_eval(v[3:])
        return np.array(lit) if isinstance(lit, list) else np.float64(lit)
    if isinstance(v, (int, float)) and not isinstance(v, bool):
        return v + _s()
    if name in ("numstr-int", "numstr-float"):
        # the same number as the "int" value, written as text with / without a decimal point (equal, other class)
        return f"{5 + _s()}" + (".0" if name == "numstr-float" else "")
    return copy.deepcopy(v)


def literal(v):
    """The value a (textual) value literally denotes - the reference definition."""
    if isinstance(v, str):
        try:
            return ast.literal_eval(v)
        except Exception:  # noqa: BLE001
            return v
    if isinstance(v, (list, tuple)):
        return [literal(x) if isinstance(x, str) else x for x in v]
    return v


def kind_of(x):
    if isinstance(x, (bool, np.bool_)):
        return "bool"
    if isinstance(x, (int, float, np.number)):
        return "num"
    if isinstance(x, str):
        return "str"
    if isinstance(x, (list, tuple)):
        return "seq"
    if isinstance(x, np.ndarray):
        return "arr" if x.ndim else "num"
    if x is None:
        return "none"
    return type(x).__name__


def same(a, b):
    """equal by value and kind (sequences element-wise, list == tuple)"""
    ka, kb = kind_of(a), kind_of(b)
    if ka != kb:
        if {ka, kb} == {"seq", "arr"}:
            return same(list(np.asarray(a).tolist()) if ka == "arr" else list(a),
                        list(np.asarray(b).tolist()) if kb == "arr" else list(b))
        return False
    if ka == "seq":
        return len(a) == len(b) and all(same(x, y) for x, y in zip(a, b))
    if ka == "arr":
        return a.shape == b.shape and bool(np.array_equal(a, b))
    if ka == "num":
        fa, fb = float(a), float(b)
        return fa == fb or (fa != fa and fb != fb)
    try:
        return bool(a == b)
    except Exception:  # noqa: BLE001
        return False


def numclass(x):
    if isinstance(x, (bool, np.bool_)):
        return "bool"
    if isinstance(x, (int, np.integer)):
        return "int"
    if isinstance(x, (float, np.floating)):
        return "float"
    return "-"


def same_typed(a, b):
    """`same`, and numbers additionally of the same class (5 is not 5.0): used for model arguments, which are handed to
    the model exactly as assigned (detector fields may legitimately normalise the number class)"""
    if not same(a, b):
        return False
    if kind_of(a) == "seq":
        return all(same_typed(x, y) for x, y in zip(a, b))
    return numclass(a) == numclass(b)


def show(x):
    r = repr(x.tolist() if isinstance(x, np.ndarray) else x)
    return f"{kind_of(x)}:{r[:60]}"


# ---------------------------------------------------------------- explicit-state model

def _common_prefix(paths):
    segs = [_segments(p) for p in paths]
    out = []
    for parts in zip(*segs):
        if all(p == parts[0] for p in parts):
            out.append(parts[0])
        else:
            break
    return "".join(out)


def _segments(path):
    """'$.a[1].b' -> ['$', '.a', '[1]', '.b']"""
    out, cur = [], ""
    depth = 0
    for ch in path:
        if ch in ".[<" and depth == 0 and cur:
            out.append(cur)
            cur = ""
        if ch in "[<":
            depth += 1
        if ch in "]>":
            depth -= 1
        cur += ch
    if cur:
        out.append(cur)
    return out


def _under(path, loc):
    sp, sl = _segments(path), _segments(loc)
    return sp[:len(sl)] == sl


class Model:
    def __init__(self, det_kind):
        self.kind = det_kind
        self.valid = valid_keys(det_kind)
        self.vset = set(self.valid)
        self.invalid = derived_invalid(det_kind)
        self.icls = {k: c for k, c, _ in self.invalid}
        self.isrc = {k: src for k, _, src in self.invalid}
        self.coupled = COUPLED.get(det_kind, [])
        self.init = make_processor(det_kind)
        self.init_snap = snapshot.snapshot(self.init)
        self.loc, self.loc_problems = self._locate()
        self.shared = {k for k in self.valid
                       if any(k2 != k and _under(self.loc[k2], self.loc[k]) for k2 in self.valid if k2 in self.loc)
                       and k in self.loc}

    # ---- storage location of every valid key (found mechanically by a probe assignment)
    def _probe_values(self, cur):
        if isinstance(cur, bool):
            return [not cur]
        if isinstance(cur, (int, float)):
            return [cur + 1, cur * 0.5, cur + 0.125]
        if isinstance(cur, str):
            return [cur + "x"]
        if isinstance(cur, (list, tuple)):
            return [type(cur)([9.5, 8.5, 7.5, 6.5][: len(cur) + 1]), type(cur)([9.5, 8.5, 7.5][: max(1, len(cur))])]
        return [1.0, 1]

    def _locate(self):
        loc, problems = {}, []
        self.probe_ok = {}
        for k in self.valid:
            cur = self.init.get(k)
            done = False
            for pv in self._probe_values(cur):
                scratch = copy.deepcopy(self.init)
                try:
                    scratch.set(k, pv, convert_value=False)
                except Exception:  # noqa: BLE001
                    continue
                d = snapshot.diff(self.init_snap, snapshot.snapshot(scratch), ignore=("_numbytes",))
                if d:
                    loc[k] = _common_prefix([p for p, _, _ in d])
                    self.probe_ok[k] = pv
                    done = True
                    break
            if not done:
                problems.append(k)
        return loc, problems

    def group_of(self, k):
        for g in self.coupled:
            if k in g:
                return g
        return {k}

    # ---- alphabets
    def all_keys(self):
        return self.valid + [k for k, _, _ in self.invalid]

    def full_alphabet(self):
        ops = []
        for k in self.all_keys():
            ops.append(["has", k])
            ops.append(["get", k])
        for k in self.all_keys():
            for name, _ in PALETTE:
                ops.append(["set", k, name])
        return ops

    def short_alphabet(self):
        ops = []
        for k in self.all_keys():
            ops.append(["has", k])
            ops.append(["get", k])
            for name in SHORT_VALUES:
                ops.append(["set", k, name])
        return ops

    def prefix_ops(self, tier):
        """state-changing assignments used as non-final operations of longer sequences"""
        ops = []
        for k in self.valid:
            first = "int" if self._changes(k, "int") else "probe"    # an assignment this key's setter accepts
            names = [first] + (["liststr"] + (["probe"] if first != "probe" else []) if tier == "thorough" else [])
            ops += [["set", k, n] for n in names if n != "probe" or k in self.probe_ok]
        ops += [["set", k, "bool"] for k in self.valid if k.endswith(".enabled")]
        return ops

    def _changes(self, k, name):
        scratch = copy.deepcopy(self.init)
        try:
            scratch.set(k, self.value(k, name))
        except Exception:  # noqa: BLE001
            return False
        return bool(snapshot.diff(self.init_snap, snapshot.snapshot(scratch), ignore=("_numbytes",)))

    def value(self, k, name):
        """value of the palette; 'probe' = the key-specific value found acceptable while locating the setting"""
        return copy.deepcopy(self.probe_ok[k]) if name == "probe" else value_of(name)

    # ---- reference model
    def initial_ref(self, proc):
        return {k: copy.deepcopy(proc.get(k)) for k in self.valid}

    def canon(self, proc):
        s = snapshot.snapshot(proc)
        return cfgx.sig(sorted(s.items()))

    def key_class(self, k):
        if k in self.vset:
            return "valid"
        return self.icls.get(k, "invalid")

    def target_of(self, k):
        src = k if k in self.vset else self.isrc.get(k, k)
        if src.startswith("detector."):
            return "detector-field"
        return "enabled-flag" if src.endswith(".enabled") else "model-argument"


class Walker:
    """Applies operations to real processors; owns the scratch copy used for operations that change nothing."""

    def __init__(self, model):
        self.m = model
        self.transitions = 0
        self.viol = []
        self.vkeys = set()
        self.nbad = 0                 # every violation met (also those whose key was already recorded)

    def bad(self, hist, op, code, what):
        k = op[1]
        key = {"part": "seq", "op": op[0], "code": code, "key_class": self.m.key_class(k), "target": self.m.target_of(k)}
        if op[0] == "set" and code in ("wrong-value", "valid-set-raised-and-changed", "get-after-set-raised"):
            key["value"] = op[2]
        self.nbad += 1
        kk = repr(sorted(key.items()))
        if kk in self.vkeys:
            return
        self.vkeys.add(kk)
        self.viol.append({"key": key, "what": f"[{self.m.kind} processor, ops {hist + [op]}] {what}", "ops": hist + [op]})

    def explore_from(self, proc, ref, hist, ops):
        """Apply every op of `ops` to the state (proc, ref) [never mutated]; returns list of (new_proc, new_ref, op)
        for the state-changing, non-violating ones."""
        m = self.m
        base_snap = snapshot.snapshot(proc)
        scratch = copy.deepcopy(proc)
        changed_states = []
        for op in ops:
            self.transitions += 1
            nviol = self.nbad
            name, k = op[0], op[1]
            valid = k in m.vset
            kcls = m.key_class(k)
            exc, res = None, None
            try:
                if name == "has":
                    res = scratch.has(k)
                elif name == "get":
                    res = scratch.get(k)
                else:
                    v = m.value(k, op[2])
                    scratch.set(k, v)
            except Exception as e:  # noqa: BLE001
                exc = e
            after = snapshot.snapshot(scratch)
            d = snapshot.diff(base_snap, after, ignore=("_numbytes",))
            new_ref = ref
            if name in ("has", "get"):
                if d:
                    self.bad(hist, op, "read-changed-state", f"{name} changed the processor: {snapshot.fmt(d)}")
                if valid:
                    if exc is not None:
                        self.bad(hist, op, "valid-read-raised", f"{name} of a valid key raised {type(exc).__name__}: {exc}")
                    elif name == "has" and res is not True:
                        self.bad(hist, op, "has-false-for-valid", f"has({k!r}) returned {res!r}")
                    elif name == "get" and not same(res, ref[k]):
                        self.bad(hist, op, "get-wrong", f"get({k!r}) returned {show(res)}, the setting holds {show(ref[k])}")
                elif kcls != "truncated":
                    if name == "has" and exc is None and res:
                        self.bad(hist, op, "has-true-for-invalid", f"has({k!r}) answered {res!r} for a key that addresses "
                                 f"no setting ({kcls})")
                    if name == "get" and exc is None:
                        self.bad(hist, op, "get-invalid-returned", f"get({k!r}) returned {show(res)} for a key that "
                                 f"addresses no setting ({kcls})")
            elif not valid:
                if exc is None:
                    self.bad(hist, op, "invalid-accepted", f"set({k!r}, {show(v)}) on a key that addresses no setting "
                             f"({kcls}) raised nothing" + (f" and changed: {snapshot.fmt(d, 3)}" if d else ""))
                elif d:
                    self.bad(hist, op, "invalid-raised-but-changed", f"set({k!r}, ...) raised {type(exc).__name__} but "
                             f"changed: {snapshot.fmt(d, 3)}")
            else:
                # assignment to a valid key (accepted or refused by a validating setter)
                group = m.group_of(k)
                new_ref = dict(ref)
                if exc is None:
                    want = literal(v)
                    got = None
                    try:
                        got = scratch.get(k)
                    except Exception as e:  # noqa: BLE001
                        self.bad(hist, op, "get-after-set-raised", f"get({k!r}) after set raised {type(e).__name__}")
                    else:
                        if not (same_typed if ".arguments." in k else same)(got, want):
                            self.bad(hist, op, "wrong-value", f"set({k!r}, {show(v)}) then get returned {show(got)}"
                                     f"{' (' + type(got).__name__ + ')' if kind_of(got) == 'num' else ''}; the "
                                     f"value denotes {show(want)}"
                                     f"{' (' + type(want).__name__ + ')' if kind_of(want) == 'num' else ''}")
                    new_ref[k] = copy.deepcopy(want)
                else:
                    # refused by a validating setter: whatever the setting holds now is the reference from here on
                    # (a setter that assigns before it raises leaves its own setting modified - not judged here)
                    try:
                        new_ref[k] = copy.deepcopy(scratch.get(k))
                    except Exception:  # noqa: BLE001
                        pass
                for k2 in m.valid:
                    if k2 == k:
                        continue
                    try:
                        cur = scratch.get(k2)
                    except Exception as e:  # noqa: BLE001
                        self.bad(hist, op, "other-key-unreadable", f"after set({k!r}, ...) get({k2!r}) raised "
                                 f"{type(e).__name__}")
                        break
                    if k2 in group:
                        new_ref[k2] = copy.deepcopy(cur)           # physically coupled setting: trusted
                    elif not same(cur, ref[k2]):
                        self.bad(hist, op, "other-setting-changed", f"set({k!r}, {show(v)}) changed {k2!r} from "
                                 f"{show(ref[k2])} to {show(cur)}")
                        break
                if k in m.loc:
                    outside = [x for x in d if not _under(x[0], m.loc[k])]
                    if outside:
                        self.bad(hist, op, "changed-elsewhere", f"set({k!r}, {show(v)}) changed the object graph outside "
                                 f"the setting's location {m.loc[k]}: {snapshot.fmt(outside, 3)}")
                    elif k in m.shared or len(group) > 1:
                        # the location is an object shared with other settings: no attribute may appear / vanish
                        nloc = len(_segments(m.loc[k]))
                        added = [x for x in d if snapshot.ABSENT in (x[1], x[2])
                                 and ("".join(_segments(x[0])[: nloc + 1]) not in base_snap
                                      or "".join(_segments(x[0])[: nloc + 1]) not in after)]
                        if added:
                            self.bad(hist, op, "attribute-added", f"set({k!r}, {show(v)}) added/removed: "
                                     f"{snapshot.fmt(added, 3)}")
                if exc is not None and d and self.nbad == nviol:
                    own = [x for x in d if k in m.loc and _under(x[0], m.loc[k])]
                    if len(own) != len(d):
                        self.bad(hist, op, "valid-set-raised-and-changed", f"set({k!r}, {show(v)}) raised "
                                 f"{type(exc).__name__} and changed {snapshot.fmt(d, 3)}")
            if d:
                if self.nbad == nviol and name == "set" and valid:
                    changed_states.append((scratch, new_ref, op))
                scratch = copy.deepcopy(proc)
        return changed_states


def run_seq(shard):
    """One shard = one detector type and one slice of the prefix operations."""
    tier, kind = shard["tier"], shard["det"]
    m = Model(kind)
    w = Walker(m)
    ref0 = m.initial_ref(m.init)
    states = {m.canon(m.init)}
    for k in m.loc_problems:
        w.bad([], ["set", k, "int"], "location-not-found", f"no probe assignment to valid key {k!r} was accepted / visible")
    depth = shard["depth"]
    sample = None
    if shard["slice"] == 0:
        for st in w.explore_from(m.init, ref0, [], m.full_alphabet()):
            states.add(m.canon(st[0]))
    if depth >= 2:
        pre = m.prefix_ops(tier)
        mine = pre[shard["slice"]:: shard["of"]]
        for p1 in mine:
            r1 = w.explore_from(m.init, ref0, [], [p1])
            if not r1:
                continue
            s1, ref1, _ = r1[0]
            states.add(m.canon(s1))
            nxt = w.explore_from(s1, ref1, [p1], m.short_alphabet())
            sample = [p1, m.short_alphabet()[-1]]
            for st in nxt:
                states.add(m.canon(st[0]))
            if depth >= 3:
                # third operation after every state-changing *prefix* pair (p1, p2) with p2 from the prefix alphabet
                for p2 in pre:
                    if p2[1] == p1[1]:
                        continue
                    r2 = w.explore_from(s1, ref1, [p1], [p2])
                    if not r2:
                        continue
                    s2, ref2, _ = r2[0]
                    for st in w.explore_from(s2, ref2, [p1, p2], shard_third_alphabet(m, p1, p2)):
                        states.add(m.canon(st[0]))
    viols = [{"key": v["key"], "what": v["what"],
              "case": {"part": "seq", "det": kind, "ops": v["ops"], "seed": os.environ.get("VERIF_SEED", "0")}}
             for v in w.viol]
    return {"violations": viols,
            "counts": {"transitions": w.transitions, "seq_shards": 1},
            "sets": {"states": sorted(states), "explored": [f"{kind}@depth{depth}"]},
            "samples": [{"det": kind, "ops": sample}] if sample else []}


def shard_third_alphabet(m, p1, p2):
    """last operation of length-3 sequences: has/get/set(int, strlist) on the two keys touched before, on the keys
    derived from them, and set on every other valid key (interaction of three assignments)."""
    touched = {p1[1], p2[1]}
    keys = [k for k in m.valid if k in touched] + [k for k, _, src in m.invalid if src in touched]
    ops = []
    for k in keys:
        ops += [["has", k], ["get", k], ["set", k, "int"], ["set", k, "strlist"]]
    ops += [["set", k, "str"] for k in m.valid if k not in touched]
    return ops


def replay_seq(case):
    os.environ["VERIF_SEED"] = str(case.get("seed", "0"))
    m = Model(case["det"])
    w = Walker(m)
    proc, ref = m.init, m.initial_ref(m.init)
    ops = case["ops"]
    for k in m.loc_problems:
        w.bad([], ["set", k, "int"], "location-not-found", f"no probe assignment to valid key {k!r} was accepted / visible")
    for i, op in enumerate(ops):
        r = w.explore_from(proc, ref, ops[:i], [op])
        if w.viol:
            break
        if r:                                   # state-changing operation: continue from the new state
            proc, ref, _ = r[0]
    return [{"key": v["key"], "what": v["what"], "case": dict(case, ops=v["ops"])} for v in w.viol]


# ---------------------------------------------------------------- entry points

def entry_cases(tier):
    thorough = tier == "thorough"
    cases = []
    for kind in mk.DET_TYPES:
        valid = valid_keys(kind)
        inv = derived_invalid(kind)
        # one invalid key per (derivation class, target) - all of them in thorough
        picked, seen = [], set()
        for k, cls, src in inv:
            tgt = "detector" if k.startswith("detector") or src.startswith("detector") else (
                "enabled" if src.endswith(".enabled") else "argument")
            if thorough or (cls, tgt) not in seen:
                seen.add((cls, tgt))
                picked.append([k, cls])
        vals = ["numstr-int", "liststr", "str", "strlist"] if thorough else ["numstr-int", "liststr"]
        if kind == "ccd" or thorough:
            for k in valid:
                for v in vals:
                    cases.append({"part": "entry", "ep": "override", "det": kind, "key": k, "kcls": "valid", "value": v})
        for k, cls in picked:
            cases.append({"part": "entry", "ep": "override", "det": kind, "key": k, "kcls": cls, "value": "numstr-int"})
        if kind in ("ccd", "apd") or thorough:
            disabled = [k for k in valid if ".p2.arguments." in k]
            for ex in ("seq", "dask"):
                for mode in ("product", "sequential"):
                    for k, cls in picked:
                        cases.append({"part": "entry", "ep": "sweep", "det": kind, "key": k, "kcls": cls, "exec": ex,
                                      "mode": mode})
                    for k in disabled:
                        cases.append({"part": "entry", "ep": "sweep", "det": kind, "key": k, "kcls": "disabled-model",
                                      "exec": ex, "mode": mode})
                    for k in valid:
                        if k not in disabled and (thorough or mode == "product"):
                            cases.append({"part": "entry", "ep": "sweep", "det": kind, "key": k, "kcls": "valid",
                                          "exec": ex, "mode": mode})
        if kind in ("ccd", "apd") or thorough:
            for k in valid:
                cases.append({"part": "entry", "ep": "calib", "det": kind, "key": k, "kcls": "valid"})
            for k, cls in picked:
                cases.append({"part": "entry", "ep": "calib", "det": kind, "key": k, "kcls": cls})
    # keys that address an entry INSIDE a dictionary-valued / list-of-dictionaries model argument
    for key, ok in (("d.k", True), ("d.r", True), ("ld.0.k", True), ("ld.1.k", True), ("d.kk", False), ("d.K", False),
                    ("d.k.foo", False), ("ld.0.kk", False), ("ld.2.k", False), ("dd.k", False)):
        for via in ("override", "set", "replace", "sweep"):
            cases.append({"part": "entry", "ep": "nested", "det": "ccd", "key": "pipeline.photon_collection.p1.arguments." + key,
                          "kcls": "valid" if ok else "invalid-nested", "via": via})
    # and the history "run, then assign, then run again" on the same objects (a value must not be frozen by a first run)
    for key in ("pipeline.photon_collection.p1.arguments.i", "pipeline.photon_collection.p1.arguments.d.k",
                "pipeline.photon_collection.p1.enabled", "detector.environment.temperature"):
        for via in ("override", "set", "sweep"):
            cases.append({"part": "entry", "ep": "rerun", "det": "ccd", "key": key, "kcls": "valid", "via": via})
    # the same model name in two groups, one enabled and one disabled (both orders): a key addresses ONE model - the
    # argument of the disabled one must be refused, the argument of the enabled one must be swept
    for which_disabled in ("first", "second"):
        for target in ("enabled-one", "disabled-one"):
            for ex in ("seq", "dask"):
                for mode in (("product", "sequential") if thorough else ("product",)):
                    cases.append({"part": "entry", "ep": "dupname", "det": "ccd", "key": "dup.arguments.i",
                                  "kcls": "valid" if target == "enabled-one" else "disabled-model", "exec": ex,
                                  "mode": mode, "disabled": which_disabled, "aim": target})
    # the same TEXT assigned to several settings (two keys of one processor / the same key of independent processors), one
    # of them modified afterwards (deeper key, or a model that mutates its list argument): the other settings, and a
    # later conversion of the same text, must still hold what the text denotes
    for text in ("ld", "v"):
        for where in ("two-keys", "two-processors"):
            for mod in (("deeper-key", "mutating-model") if text == "ld" else ("item-key", "mutating-model")):
                cases.append({"part": "entry", "ep": "textalias", "det": "ccd", "key": "pipeline.photon_collection.p1.arguments." + text,
                              "kcls": "valid", "text": text, "where": where, "mod": mod})
    # several keys swept together, two of them with the same last component ('i' of p1 and q1) and a detector field, in every
    # declaration order: each key must receive ITS values (each run's models are compared with the run's element)
    for order in itertools.permutations(range(3)):
        for ex in ("seq", "dask"):
            for mode in ("product", "sequential"):
                cases.append({"part": "entry", "ep": "multisweep", "det": "ccd", "key": "pipeline.photon_collection.p1.arguments.i",
                              "kcls": "valid", "order": list(order), "exec": ex, "mode": mode})
    # ONE Observation object used twice: after the first run the swept model is disabled / the swept argument's model is
    # replaced by one that does not declare it - the second run must be refused like a first one
    for how in ("attribute", "set", "override"):
        for ex in ("seq", "dask"):
            cases.append({"part": "entry", "ep": "resweep", "det": "ccd", "key": "pipeline.photon_collection.p1.arguments.i",
                          "kcls": "disabled-model", "how": how, "exec": ex, "mode": "product"})
    # overrides combined with the calibration mode (valid keys must reach every evaluated pipeline, invalid ones must
    # be refused before the first evaluation)
    for key, kcls in (("detector.environment.temperature", "valid"), ("pipeline.charge_collection.cm.arguments.i", "valid"),
                      ("calibration.pygmo_seed", "valid"),
                      ("detector.environment.temperatur", "misspelt-last"), ("pipeline.charge_collection.cm.arguments.ii", "undeclared"),
                      ("pipeline.charge_collection.cx.arguments.i", "misspelt-model"), ("calibration.pygmo_sed", "misspelt-last")):
        cases.append({"part": "entry", "ep": "override-cal", "det": "ccd", "key": key, "kcls": kcls})
    # override keys that address the running mode ('exposure.readout.non_destructive', ...): valid ones and every
    # mechanically derived misspelling / truncation of one component
    for rm in ("exposure", "observation"):
        for key, val in MODE_KEYS:
            cases.append({"part": "entry", "ep": "modekey", "det": "ccd", "key": f"{rm}.{key}", "kcls": "valid",
                          "value": val, "rm": rm})
            comps = key.split(".")
            seen_bad = set()
            for ci in range(len(comps)):
                for how in ("drop-last-char", "swap", "double", "upper"):
                    c2 = list(comps)
                    w = comps[ci]
                    c2[ci] = {"drop-last-char": w[:-1], "swap": w[1] + w[0] + w[2:], "double": w + w[-1],
                              "upper": w.capitalize()}[how]
                    k2 = ".".join(c2)
                    if k2 == key or k2 in seen_bad or not c2[ci]:
                        continue
                    seen_bad.add(k2)
                    cases.append({"part": "entry", "ep": "modekey", "det": "ccd", "key": f"{rm}.{k2}",
                                  "kcls": f"misspelt-component-{min(ci, 1) if ci < len(comps) - 1 else 'last'}",
                                  "value": val, "rm": rm})
    # the same running-mode keys with the value given as TEXT (what a command-line override delivers): the setting must
    # hold what the text denotes
    for rm in ("exposure", "observation"):
        for key, val in MODE_KEYS:
            cases.append({"part": "entry", "ep": "modekey", "det": "ccd", "key": f"{rm}.{key}", "kcls": "valid",
                          "value": val, "rm": rm, "text": True})
    # the command-line entry point pyxel.run(<YAML file>, override=["key=text", ...]) (= `pyxel run file -o key=text`)
    for rm in ("exposure", "observation"):
        for key, txt in CLI_KEYS:
            cases.append({"part": "entry", "ep": "cli", "det": "ccd", "key": key.replace("<mode>", rm), "kcls": "valid",
                          "value": txt, "rm": rm})
        for key in ("detector.environment.temperatur", "pipeline.photon_collection.p1.arguments.ii",
                    "pipeline.photon_collection.px.arguments.i", "<mode>.readout.non_destructiv", "<mode>.pipeline_sed"):
            cases.append({"part": "entry", "ep": "cli", "det": "ccd", "key": key.replace("<mode>", rm), "kcls": "misspelt",
                          "value": "5", "rm": rm})
    for c in cases:
        if c["ep"] == "modekey":
            c["target"] = "running-mode"
            continue
        if c["ep"] == "override-cal":
            c["target"] = ("running-mode" if c["key"].startswith("calibration") else
                           "detector-field" if c["key"].startswith("detector") else "model-argument")
            continue
        if c["ep"] in ("dupname", "nested", "rerun", "textalias", "multisweep", "resweep"):
            c["target"] = "model-argument"
            continue
        src = c["key"] if c["kcls"] in ("valid", "disabled-model") else next(
            (s for k, _, s in derived_invalid(c["det"]) if k == c["key"]), c["key"])
        c["target"] = ("detector-field" if src.startswith("detector.") else
                       "enabled-flag" if src.endswith(".enabled") else "model-argument")
    return cases


def _mutate_args(detector, ld=None, v=None, i=0):
    """probe model that modifies its mutable arguments in place (as real models may)"""
    if ld:
        ld[0]["k"] = 1000
        ld.append({"k": 3})
    if v:
        v[0] = 1000
        v.append(5)


def _cal_model(detector, i=1, a=1.0):
    """probe for the calibration entry: records what it receives, writes a pixel frame"""
    probes.TRACE.append({"name": detector.current_running_model_name, "i": i,
                         "temperature": float(detector.environment.temperature)})
    shape = detector.geometry.shape
    detector.pixel.array = np.full(shape, float(a) + float(i))


def _run_override_cal(case, bad):
    import pyxel
    from pyxel.observation import ParameterValues

    from vp import calib

    key, valid = case["key"], case["kcls"] == "valid"
    tmp = tempfile.mkdtemp(prefix="vp_c08c_")
    try:
        tgt = os.path.join(tmp, "t.npy")
        np.save(tgt, np.ones((2, 3)))
        det = mk.detector("ccd", 2, 3, temperature=100.0)
        pipe = mk.pipeline({"charge_collection": [("props.c08_dotted_keys._cal_model", "cm", {"i": 3, "a": 1.0}, True)]})
        cal = calib.calibration([tgt], [ParameterValues(key="pipeline.charge_collection.cm.arguments.a", values="_",
                                                        boundaries=(0.0, 5.0))],
                                generations=1, population_size=8, pygmo_seed=5, num_islands=1, num_evolutions=1)
        val = {"detector.environment.temperature": 222.0, "pipeline.charge_collection.cm.arguments.i": 9,
               "calibration.pygmo_seed": 17}.get(key, 7)
        probes.reset()
        exc = None
        try:
            pyxel.run_mode(cal, det, pipe, override_dct={key: val}, with_inherited_coords=True)
        except Exception as e:  # noqa: BLE001
            exc = e
        trace = list(probes.TRACE)
        if not valid:
            if exc is None:
                bad("invalid-accepted", f"calibration with override {key}={val!r} raised nothing; {len(trace)} model call(s) ran")
            elif trace:
                bad("rejected-after-running", f"override raised {type(exc).__name__} only after {len(trace)} model call(s)")
            return ["invalid", type(exc).__name__ if exc else None, len(trace)]
        if exc is not None:
            bad("valid-refused", f"calibration with override {key}={val!r} raised {type(exc).__name__}: {str(exc)[:200]}")
            return ["valid-refused", type(exc).__name__]
        if not trace:
            bad("wrong-models-ran", "the calibration evaluated no pipeline")
        if key.startswith("detector"):
            seen = sorted({t["temperature"] for t in trace})
            if seen != [val]:
                bad("value-not-applied", f"after override {key}={val!r} the evaluated pipelines saw temperature {seen}")
        elif key.startswith("pipeline"):
            seen = sorted({t["i"] for t in trace})
            if seen != [val]:
                bad("value-not-applied", f"after override {key}={val!r} the evaluated pipelines received i={seen}")
        else:
            if cal.pygmo_seed != val:
                bad("value-not-applied", f"after override {key}={val!r} the calibration holds pygmo_seed={cal.pygmo_seed!r}")
        return ["applied", len(trace)]
    finally:
        shutil.rmtree(tmp, ignore_errors=True)


def _run_textalias(case, bad):
    import pyxel
    from pyxel.pipelines import Processor

    texts = {"ld": "[{'k': 1}, {'k': 2}]", "v": "[10.0, 20.0]"}
    t = case["text"]
    text = texts[t]
    want = ast.literal_eval(text)

    def fresh():
        func = "props.c08_dotted_keys._mutate_args" if case["mod"] == "mutating-model" else "vp.cprobes.plain"
        pipe = mk.pipeline({"photon_collection": [(func, "p1", {"ld": [{"k": 7}], "v": [7.0], "i": 1}, True)],
                            "charge_generation": [("vp.cprobes.plain", "q1", {"ld": [{"k": 8}], "v": [8.0], "i": 2}, True)]})
        return Processor(make_detector("ccd"), pipe)

    k1 = "pipeline.photon_collection.p1.arguments." + t
    k2 = "pipeline.charge_generation.q1.arguments." + t
    a = fresh()
    a.set(k1, text)
    if case["where"] == "two-keys":
        b, kb = a, k2
    else:
        b, kb = fresh(), k1
    b.set(kb, text)
    if not same(b.get(kb), want):
        bad("wrong-value", f"after set({kb!r}, {text!r}) get returns {show(b.get(kb))}")
        return ["wrong-value"]
    if case["mod"] == "deeper-key":
        a.set(k1 + ".0.k", 99)
    elif case["mod"] == "item-key":
        a.get(k1)[0] = 99.0                      # the list the user's processor holds, changed by the user
    else:
        pyxel.run_mode(mk.exposure([1.0]), a.detector, a.pipeline)
    other = b.get(kb)
    if not same(other, want):
        bad("assignment-changed-other-setting", f"{text!r} was assigned to {k1!r} and to {kb!r} ({case['where']}); after "
            f"{case['mod']} on the first, the second holds {show(other)} instead of {show(want)}", where=case["where"], mod=case["mod"])
    c = fresh()
    c.set(k1, text)
    if not same(c.get(k1), want):
        bad("text-conversion-stale", f"a later set({k1!r}, {text!r}) on a fresh processor gives {show(c.get(k1))} instead of "
            f"{show(want)}", where=case["where"], mod=case["mod"])
    return ["ok", case["where"], case["mod"]]


MODE_KEYS = [("readout.non_destructive", True), ("readout.times", [1.0, 2.0, 3.0]), ("readout.start_time", 0.5),
             ("pipeline_seed", 77), ("outputs.custom_dir_name", "foo_")]


CLI_KEYS = [("detector.environment.temperature", "150"), ("detector.environment.temperature", "150.5"),
            ("detector.characteristics.quantum_efficiency", "0.25"),
            ("pipeline.photon_collection.p1.arguments.i", "41"), ("pipeline.photon_collection.p1.arguments.i", "4.5"),
            ("pipeline.photon_collection.p1.arguments.i", "[1, 2, 3]"), ("pipeline.photon_collection.p1.arguments.i", "abc"),
            ("pipeline.photon_collection.p1.arguments.d.k", "9"), ("pipeline.charge_generation.q1.enabled", "False"),
            ("<mode>.readout.non_destructive", "True"), ("<mode>.readout.times", "[1.0, 2.0, 3.0]"),
            ("<mode>.readout.start_time", "0.5"), ("<mode>.pipeline_seed", "77")]

_CLI_YAML = """
ccd_detector:
  geometry: {row: 2, col: 3, total_thickness: 10.0, pixel_vert_size: 2.0, pixel_horz_size: 0.5}
  environment: {temperature: 100.0}
  characteristics: {quantum_efficiency: 0.5, charge_to_volt_conversion: 1.0e-3, pre_amplification: 4.0,
                    full_well_capacity: 1000, adc_bit_resolution: 16, adc_voltage_range: [0.0, 8.0]}
pipeline:
  photon_collection:
    - name: p1
      func: props.c08_dotted_keys.cli_probe
      enabled: true
      arguments: {i: 3, d: {k: 1, r: 2.5}}
  charge_generation:
    - name: q1
      func: props.c08_dotted_keys.cli_probe
      enabled: true
      arguments: {i: 7}
"""


def cli_probe(detector, **kw):
    """probe of the command-line cases: records its typed arguments and what the detector / its clock look like"""
    probes.TRACE.append({"name": detector.current_running_model_name, "kw": probes.tagged(kw),
                         "temperature": detector.environment.temperature,
                         "qe": detector.characteristics.quantum_efficiency,
                         "non_destructive": bool(detector.non_destructive_readout), "times": [float(t) for t in detector.readout_properties.times],
                         "start": float(detector.readout_properties.start_time), "step": int(detector.pipeline_count)})


def _run_cli(case, bad):
    """pyxel.run(<file>, override=[...]): every model call must see exactly the overridden setting, or the call is refused
    before any model ran"""
    import pyxel

    key, txt, valid, rm = case["key"], case["value"], case["kcls"] == "valid", case["rm"]
    tmp = tempfile.mkdtemp(prefix="vp_c08c_")
    try:
        if rm == "exposure":
            head = "exposure:\n  readout: {times: [1.0, 2.0]}\n"
            nruns = 1
        else:
            head = ("observation:\n  with_dask: false\n  readout: {times: [1.0, 2.0]}\n  parameters:\n"
                    "    - {key: pipeline.charge_generation.q1.arguments.i, values: [7, 8]}\n")
            nruns = 2
        cfg = os.path.join(tmp, "cfg.yaml")
        with open(cfg, "w") as fh:
            fh.write(head + _CLI_YAML)
        probes.reset()
        exc = None
        try:
            pyxel.run(cfg, override=[f"{key}={txt}"])
        except Exception as e:  # noqa: BLE001
            exc = e
        trace = list(probes.TRACE)
        if not valid:
            if exc is None:
                bad("invalid-accepted", f"pyxel.run(file, override=['{key}={txt}']) raised nothing; {len(trace)} model call(s) ran")
            elif trace:
                bad("rejected-after-running", f"command-line override raised {type(exc).__name__} only after {len(trace)} model call(s)")
            return ["invalid", type(exc).__name__ if exc else None, len(trace)]
        if key.endswith("q1.enabled") and rm == "observation":
            # the sweep addresses an argument of the model this override switches off: refusing is the specified behaviour
            if exc is None:
                bad("invalid-accepted", f"override {key}={txt} disables the swept model, yet nothing was raised; {len(trace)} call(s)")
            return ["disabled-swept", type(exc).__name__ if exc else None]
        if exc is not None:
            bad("valid-refused", f"pyxel.run(file, override=['{key}={txt}']) raised {type(exc).__name__}: {str(exc)[:200]}")
            return ["valid-refused", type(exc).__name__]
        want = literal(txt)
        exp = {"p1.i": 3, "p1.d": {"k": 1, "r": 2.5}, "q1": True, "temperature": 100.0, "qe": 0.5, "non_destructive": False,
               "times": [1.0, 2.0], "start": 0.0}
        seg = key.split(".")
        if key.endswith("p1.arguments.i"):
            exp["p1.i"] = want
        elif key.endswith("arguments.d.k"):
            exp["p1.d"] = {"k": want, "r": 2.5}
        elif key.endswith("q1.enabled"):
            exp["q1"] = want
        elif seg[-1] == "temperature":
            exp["temperature"] = want
        elif seg[-1] == "quantum_efficiency":
            exp["qe"] = want
        elif seg[-1] == "non_destructive":
            exp["non_destructive"] = want
        elif seg[-1] == "times":
            exp["times"] = want
        elif seg[-1] == "start_time":
            exp["start"] = want
        steps = len(exp["times"])
        nmodels = 2 if exp["q1"] else 1
        if len(trace) != nruns * steps * nmodels:
            bad("wrong-models-ran", f"{len(trace)} model calls after command-line override {key}={txt}, expected {nruns} run(s) x "
                f"{steps} step(s) x {nmodels} model(s)")
            return ["ran", len(trace)]
        for t in trace:
            kw = _untag(t["kw"])
            if t["name"] == "p1" and not (same(kw.get("i"), exp["p1.i"]) and same(kw.get("d"), exp["p1.d"])):
                bad("wrong-arguments", f"after command-line override {key}={txt} model p1 received {kw}, expected i={exp['p1.i']!r} "
                    f"d={exp['p1.d']!r}")
                break
            for f in ("temperature", "qe", "non_destructive", "times", "start"):
                if not same(t[f], exp[f]):
                    bad("wrong-value", f"after command-line override {key}={txt} the models saw {f}={t[f]!r}, the text denotes "
                        f"{exp[f]!r}")
                    return ["ran", len(trace)]
        if seg[-1] == "pipeline_seed":
            pass        # (observable only through random draws; the text form is judged by the 'modekey' cases)
        return ["ran", len(trace)]
    finally:
        shutil.rmtree(tmp, ignore_errors=True)


def _run_modekey(case, det, pipe, bad):
    """override keys addressed to the running mode"""
    import pyxel
    from pyxel.observation import Observation, ParameterValues
    from pyxel.outputs import ExposureOutputs, ObservationOutputs

    key, val, valid = case["key"], case["value"], case["kcls"] == "valid"
    ov = (val if isinstance(val, str) else repr(val)) if case.get("text") else val
    tmp = tempfile.mkdtemp(prefix="vp_c08m_")
    try:
        if case["rm"] == "exposure":
            mode = mk.exposure([1.0, 2.0], outputs=ExposureOutputs(output_folder=tmp, save_data_to_file=[{"detector.pixel.array": ["npy"]}]))
            nruns = 1
        else:
            mode = Observation(parameters=[ParameterValues(key="detector.environment.temperature", values=[100, 200])],
                               readout=mk.readout([1.0, 2.0]), with_dask=False,
                               outputs=ObservationOutputs(output_folder=tmp, save_data_to_file=[{"detector.pixel.array": ["npy"]}]))
            nruns = 2
        before = snapshot.snapshot([mode.readout, mode.outputs, mode.pipeline_seed])
        exc = None
        try:
            pyxel.run_mode(mode, det, pipe, override_dct={key: ov}, with_inherited_coords=True)
        except Exception as e:  # noqa: BLE001
            exc = e
        trace = list(probes.TRACE)
        val_shown = ov
        if not valid:
            if exc is None:
                d = snapshot.diff(before, snapshot.snapshot([mode.readout, mode.outputs, mode.pipeline_seed]))
                bad("invalid-accepted", f"override {key}={val!r} raised nothing; {len(trace)} model call(s) ran; running-mode "
                    f"objects changed: {snapshot.fmt(d, 3) if d else 'nothing'}")
            elif trace:
                bad("rejected-after-running", f"override raised {type(exc).__name__} only after {len(trace)} model call(s)")
            return ["invalid", type(exc).__name__ if exc else None, len(trace)]
        if exc is not None:
            bad("valid-refused", f"override {key}={ov!r} raised {type(exc).__name__}: {str(exc)[:200]}")
            return ["valid-refused", type(exc).__name__]
        sub = key.split(".", 1)[1]
        obj = mode
        for part in sub.split("."):
            obj = getattr(obj, part)
        got = obj.tolist() if hasattr(obj, "tolist") else obj
        if not same(got, val):
            bad("wrong-value", f"after override {key}={ov!r} the running mode holds {show(got)}")
        steps = 3 if sub == "readout.times" else 2
        nmodels = len({t["name"] for t in trace}) or 1
        if len(trace) != nruns * steps * nmodels:
            bad("wrong-models-ran", f"{len(trace)} model calls after override {key}={val!r}, expected {nruns} run(s) x {steps} "
                f"step(s) x {nmodels} model(s)")
        return ["ran", len(trace)]
    finally:
        shutil.rmtree(tmp, ignore_errors=True)


def _sweep_values(proc, key):
    """two values of the kind the setting currently holds"""
    try:
        cur = proc.get(key)
    except Exception:  # noqa: BLE001
        cur = 1
    s = _s()
    if isinstance(cur, bool):
        return [False, True]
    if key.endswith("quantum_efficiency"):
        return [0.25, 0.75]
    if key.endswith("adc_bit_resolution"):
        return [8, 12]
    if key.endswith("avalanche_gain"):
        return [3.0, 4.0]
    if isinstance(cur, str):
        return ["u" + str(s), "v" + str(s)]
    if isinstance(cur, (list, tuple)):
        return [[1.5 + s, 2.5], [3.5 + s, 4.5]]
    if isinstance(cur, int):
        return [4 + s, 6 + s]
    return [1.5 + s, 3.5 + s]


def run_entry(case):
    import pyxel

    kind, key, kcls, ep = case["det"], case["key"], case["kcls"], case["ep"]
    viol = []
    valid = kcls == "valid"

    def bad(code, what, **extra):
        k = {"part": "entry", "ep": ep, "code": code, "key_class": kcls,
             "target": case.get("target", "detector-field" if key.startswith("detector") else "pipeline")}
        for f in ("exec", "mode"):
            if f in case:
                k[f] = case[f]
        k.update(extra)
        viol.append((k, f"[{ep} on {kind}, key {key!r} ({kcls})" + (f", {case.get('mode')}/{case.get('exec')}" if ep == "sweep" else "")
                     + f"] {what}"))

    det = make_detector(kind)
    pipe = mk.pipeline(model_specs())
    if ep == "dupname":
        first_enabled = case["disabled"] == "second"
        pipe = mk.pipeline({
            "photon_collection": [("vp.cprobes.plain", "dup", {"i": 3 + _s()}, first_enabled)],
            "charge_generation": [("vp.cprobes.plain", "other", {"i": 1}, True)],
            "charge_collection": [("vp.cprobes.plain", "dup", {"i": 7 + _s()}, not first_enabled)],
        })
        aim_first = (case["aim"] == "enabled-one") == first_enabled
        key = ("pipeline.photon_collection." if aim_first else "pipeline.charge_collection.") + "dup.arguments.i"
        case = dict(case, key=key)
    if ep in ("nested", "rerun"):
        pipe = mk.pipeline({"photon_collection": [("vp.cprobes.plain", "p1",
                                                   {"i": 3 + _s(), "d": {"k": 1, "r": 2.5}, "ld": [{"k": 1}, {"k": 2}]}, True)],
                            "charge_generation": [("vp.cprobes.plain", "q1", {"i": 7}, True)]})
    before = snapshot.snapshot([det, pipe])
    probes.reset()
    outcome = None
    tmp = tempfile.mkdtemp(prefix="vp_c08_")
    try:
        if ep in ("nested", "rerun"):
            outcome = _run_nested(case, det, pipe, before, bad)
        elif ep == "modekey":
            outcome = _run_modekey(case, det, pipe, bad)
        elif ep == "cli":
            outcome = _run_cli(case, bad)
        elif ep == "textalias":
            outcome = _run_textalias(case, bad)
        elif ep == "override-cal":
            outcome = _run_override_cal(case, bad)
        elif ep == "multisweep":
            outcome = _run_multisweep(case, bad)
        elif ep == "resweep":
            outcome = _run_resweep(case, bad)
        elif ep == "dupname":
            outcome = _run_sweep(case, det, pipe, before, bad)
        elif ep == "override":
            v = value_of(case["value"])
            exc = None
            try:
                pyxel.run_mode(mk.exposure([1.0]), det, pipe, override_dct={key: v}, with_inherited_coords=True)
            except Exception as e:  # noqa: BLE001
                exc = e
            trace = list(probes.TRACE)
            d = snapshot.diff(before, snapshot.snapshot([det, pipe]), ignore=("_numbytes", "_func"))
            if not valid:
                if exc is None:
                    bad("invalid-accepted", f"override {key}={v!r} raised nothing; {len(trace)} model call(s) ran")
                elif trace:
                    bad("rejected-after-running", f"override raised {type(exc).__name__} only after {len(trace)} model call(s)")
                if exc is not None and not trace and d:
                    bad("invalid-raised-but-changed", f"override raised {type(exc).__name__} but the caller's objects "
                        f"changed: {snapshot.fmt(d, 3)}")
                outcome = ["invalid", type(exc).__name__ if exc else None, len(trace)]
            else:
                want = literal(v)
                if exc is None:
                    outcome = ["ran", len(trace)]
                    seen = _seen_arguments(trace)
                    exp = _expected_arguments()
                    seg = key.split(".")
                    if seg[0] == "pipeline" and seg[3] == "arguments":
                        exp[seg[2]][seg[4]] = want
                    if seg[0] == "pipeline" and seg[3] == "enabled":
                        exp["__enabled__"][seg[2]] = want
                    ran = [n for n in exp if n != "__enabled__" and exp["__enabled__"][n]]
                    if sorted(seen) != sorted(ran):
                        bad("wrong-models-ran", f"models run {sorted(seen)}, expected {sorted(ran)} after override {key}={v!r}")
                    else:
                        for n in ran:
                            if not same_args(seen[n], exp[n]):
                                bad("wrong-arguments", f"model {n} received {seen[n]}, expected {exp[n]} after override "
                                    f"{key}={v!r}")
                                break
                    if seg[0] == "detector":
                        from pyxel.pipelines import Processor

                        got = Processor(det, pipe).get(key)
                        if not same(got, want):
                            bad("wrong-value", f"after override {key}={v!r} the detector holds {show(got)}, the text "
                                f"denotes {show(want)}")
                else:
                    outcome = ["valid-refused", type(exc).__name__]
                    if trace:
                        bad("rejected-after-running", f"override of a valid key raised {type(exc).__name__} after "
                            f"{len(trace)} model call(s)")
        elif ep == "sweep":
            outcome = _run_sweep(case, det, pipe, before, bad)
        else:
            outcome = _run_calib(case, det, pipe, before, bad, tmp)
    finally:
        shutil.rmtree(tmp, ignore_errors=True)
    return {"viol": viol, "sig": cfgx.sig([ep, kind, kcls, key.split(".")[0], outcome, case.get("exec"), case.get("mode")]),
            "nontrivial": True, "n": 1, "outcome": outcome}


def _expected_arguments():
    exp = {"__enabled__": {}}
    for g, models in model_specs().items():
        for _, name, args, en in models:
            exp[name] = copy.deepcopy(args)
            exp["__enabled__"][name] = en
    return exp


def _untag(t):
    (tag, val), = t.items()
    if tag == "__dict__":
        return {_untag(k): _untag(v) for k, v in val}
    if tag in ("__list__", "__tuple__"):
        return [_untag(x) for x in val]
    if tag == "__ndarray__":
        return np.array(val[2], dtype=val[0])
    if tag == "__np__":
        return val[1]
    if tag == "__repr__":
        return val[1]
    return val


def _seen_arguments(trace):
    return {t["name"]: _untag(t["kw"]) for t in trace}


def same_args(a, b):
    return sorted(a) == sorted(b) and all(same(a[k], b[k]) for k in a)


def _run_nested(case, det, pipe, before, bad):
    """one assignment of `key` through `via`, optionally after a first run of the same objects (ep == 'rerun')"""
    import pyxel
    from pyxel.observation import Observation, ParameterValues
    from pyxel.pipelines import Processor

    key, via, valid = case["key"], case["via"], case["kcls"] == "valid"
    seg = key.split(".")
    if case["ep"] == "rerun":
        pyxel.run_mode(mk.exposure([1.0]), det, pipe)               # the first run, configuration as given
        before = snapshot.snapshot([det, pipe])
        probes.reset()
    new = 41 + _s()
    if key.endswith(".enabled"):
        new = False
    elif key.startswith("detector"):
        new = 150.0 + _s()
    exc = None
    target_det, target_pipe = det, pipe
    try:
        if via == "override":
            pyxel.run_mode(mk.exposure([1.0]), det, pipe, override_dct={key: new})
        elif via == "set":
            Processor(det, pipe).set(key, new)
            pyxel.run_mode(mk.exposure([1.0]), det, pipe)
        elif via == "replace":
            q = Processor(det, pipe).replace({key: new})
            target_det, target_pipe = q.detector, q.pipeline
            pyxel.run_mode(mk.exposure([1.0]), target_det, target_pipe)
        else:
            obs = Observation(parameters=[ParameterValues(key=key, values=[new])], readout=mk.readout([1.0]))
            pyxel.run_mode(obs, det, pipe, with_inherited_coords=True)
    except Exception as e:  # noqa: BLE001
        exc = e
    trace = list(probes.TRACE)
    if not valid:
        if exc is None:
            bad("invalid-accepted", f"{via} of {key}={new!r} raised nothing; {len(trace)} model call(s) ran "
                "(the key addresses no existing entry)", via=via)
        elif trace:
            bad("rejected-after-running", f"{via} raised {type(exc).__name__} only after {len(trace)} model call(s)", via=via)
        d = snapshot.diff(before, snapshot.snapshot([det, pipe]), ignore=("_numbytes", "_func"))
        if d:
            bad("invalid-raised-but-changed", f"{via} of the invalid key changed the caller's objects: {snapshot.fmt(d, 3)}",
                via=via)
        return ["invalid", type(exc).__name__ if exc else None, len(trace)]
    if exc is not None:
        bad("valid-refused", f"{via} of the valid key {key}={new!r} raised {type(exc).__name__}: {str(exc)[:200]}", via=via)
        return ["valid-refused", type(exc).__name__]
    if via in ("replace", "sweep"):
        # the assignment is made on a COPY (Processor.replace / the per-run processor of an observation): the caller's
        # configuration - also the inside of its dictionary-valued arguments - keeps what it held
        d = snapshot.diff(before, snapshot.snapshot([det, pipe]), ignore=("_numbytes", "_func"))
        if d:
            bad("caller-changed", f"{via} of {key}={new!r} (made on a copy) changed the caller's objects: {snapshot.fmt(d, 3)}",
                via=via)
    seen = _seen_arguments(trace)
    if key.endswith(".enabled"):
        if "p1" in seen:
            bad("value-not-applied", f"after {via} of {key}=False model p1 still ran", via=via, history=case["ep"])
    elif seg[0] == "pipeline":
        got = seen.get("p1", {})
        node = got
        try:
            for part in seg[4:]:
                node = node[int(part)] if isinstance(node, list) else node[part]
        except Exception:  # noqa: BLE001
            node = "<missing>"
        if not same(node, new):
            bad("value-not-applied", f"after {via} of {key}={new!r} model p1 received {got}", via=via, history=case["ep"])
    else:
        cur = Processor(target_det, target_pipe).get(key) if via != "sweep" else None
        if via != "sweep" and not same(cur, new):
            bad("value-not-applied", f"after {via} of {key}={new!r} the detector holds {show(cur)}", via=via, history=case["ep"])
    return ["applied", via, len(trace)]


def _run_sweep(case, det, pipe, before, bad):
    import dask
    import pyxel
    from pyxel.observation import Observation, ParameterValues
    from pyxel.pipelines import Processor

    key, kcls = case["key"], case["kcls"]
    valid = kcls == "valid"
    vals = _sweep_values(Processor(det, pipe), key)
    exc = None
    try:
        with dask.config.set(scheduler="synchronous"):
            obs = Observation(parameters=[ParameterValues(key=key, values=vals)], mode=case["mode"],
                              readout=mk.readout([1.0]), with_dask=(case["exec"] == "dask"))
            res = pyxel.run_mode(obs, det, pipe, with_inherited_coords=True)
            for node in res.subtree:
                node.to_dataset().load()
    except Exception as e:  # noqa: BLE001
        exc = e
    trace = list(probes.TRACE)
    d = snapshot.diff(before, snapshot.snapshot([det, pipe]), ignore=("_numbytes", "_func"))
    if d:
        bad("caller-changed", f"the sweep changed the caller's objects: {snapshot.fmt(d, 3)}")
    if not valid:
        if exc is None:
            bad("invalid-accepted", f"sweeping {key} over {vals} raised nothing; {len(trace)} model call(s) ran "
                "(silent no-op or silent new attribute)")
        elif trace:
            bad("rejected-after-running", f"the sweep raised {type(exc).__name__} only after {len(trace)} model call(s) ran")
        return ["invalid", type(exc).__name__ if exc else None, len(trace)]
    if exc is not None:
        bad("valid-sweep-raised", f"sweeping valid key {key} over {vals} raised {type(exc).__name__}: {str(exc)[:200]}")
        return ["valid-raised", type(exc).__name__]
    seg = key.split(".")
    if seg[0] == "pipeline" and seg[3] == "arguments":
        got = [t["kw"] for t in trace if t["name"] == seg[2]]
        recv = [_untag(k).get(seg[4]) for k in got]
        for v in vals:
            if not any(same(r, literal(v)) for r in recv):
                bad("value-not-applied", f"no run of model {seg[2]} received {seg[4]}={v!r}; received {recv}")
                break
    return ["swept", len(trace)]


def _seen_temperature(detector, **kw):
    """probe: like cprobes.plain, additionally records the detector temperature the run sees"""
    probes.TRACE.append({"name": detector.current_running_model_name, "kw": probes.tagged(kw), "det": id(detector),
                         "step": int(detector.pipeline_count), "temperature": float(detector.environment.temperature)})


def _run_resweep(case, bad):
    import dask
    import pyxel
    from pyxel.observation import Observation, ParameterValues
    from pyxel.pipelines import Processor

    key = case["key"]
    det = make_detector("ccd")
    pipe = mk.pipeline(model_specs())
    obs = Observation(parameters=[ParameterValues(key=key, values=[11 + _s(), 12 + _s()])], mode=case["mode"],
                      readout=mk.readout([1.0]), with_dask=(case["exec"] == "dask"))
    with dask.config.set(scheduler="synchronous"):
        try:
            r = pyxel.run_mode(obs, det, pipe, with_inherited_coords=True)
            for node in r.subtree:
                node.to_dataset().load()
        except Exception as e:  # noqa: BLE001
            bad("valid-sweep-raised", f"the first run of the observation raised {type(e).__name__}: {str(e)[:200]}")
            return ["first-raised"]
        kw = {}
        if case["how"] == "attribute":
            pipe.photon_collection.p1.enabled = False
        elif case["how"] == "set":
            Processor(det, pipe).set("pipeline.photon_collection.p1.enabled", False)
        else:
            kw = {"override_dct": {"pipeline.photon_collection.p1.enabled": False}}
        probes.reset()
        exc = None
        try:
            r = pyxel.run_mode(obs, det, pipe, with_inherited_coords=True, **kw)
            for node in r.subtree:
                node.to_dataset().load()
        except Exception as e:  # noqa: BLE001
            exc = e
    trace = list(probes.TRACE)
    if exc is None:
        bad("invalid-accepted", f"second run of the same Observation after model p1 was disabled ({case['how']}): the sweep of "
            f"{key} raised nothing; {len(trace)} model call(s) ran (silent no-op)")
    elif trace:
        bad("rejected-after-running", f"the second run raised {type(exc).__name__} only after {len(trace)} model call(s) ran")
    return ["resweep", type(exc).__name__ if exc else None, len(trace)]


def _run_multisweep(case, bad):
    import dask
    import pyxel
    from pyxel.observation import Observation, ParameterValues

    s = _s()
    keys = ["pipeline.photon_collection.p1.arguments.i", "detector.environment.temperature",
            "pipeline.charge_generation.q1.arguments.i"]
    values = [[11 + s, 12 + s], [210.0 + s, 220.0 + s], [31 + s, 32 + s]]
    order = case["order"]
    det = make_detector("ccd")
    pipe = mk.pipeline({"photon_collection": [("props.c08_dotted_keys._seen_temperature", "p1", {"i": 3 + s}, True)],
                        "charge_generation": [("props.c08_dotted_keys._seen_temperature", "q1", {"i": 7 + s}, True)]})
    cfg = {"p1": 3 + s, "T": 100.0 + s, "q1": 7 + s}
    params = [ParameterValues(key=keys[j], values=list(values[j])) for j in order]
    probes.reset()
    try:
        with dask.config.set(scheduler="synchronous"):
            obs = Observation(parameters=params, mode=case["mode"], readout=mk.readout([1.0]), with_dask=(case["exec"] == "dask"))
            res = pyxel.run_mode(obs, det, pipe, with_inherited_coords=True)
            for node in res.subtree:
                node.to_dataset().load()
    except Exception as e:  # noqa: BLE001
        bad("valid-sweep-raised", f"sweeping {[keys[j] for j in order]} raised {type(e).__name__}: {str(e)[:200]}")
        return ["raised"]
    trace = list(probes.TRACE)
    runs = []
    for a, b in zip(trace[0::2], trace[1::2]):
        if a["name"] != "p1" or b["name"] != "q1":
            bad("wrong-models-ran", f"model calls are not (p1, q1) pairs: {[t['name'] for t in trace][:12]}")
            return ["structure"]
        runs.append((_untag(a["kw"]).get("i"), a["temperature"], _untag(b["kw"]).get("i")))
    slot = {0: 0, 1: 1, 2: 2}
    if case["mode"] == "product":
        want = set()
        for combo in itertools.product(*[values[j] for j in order]):
            el = [cfg["p1"], cfg["T"], cfg["q1"]]
            for j, v in zip(order, combo):
                el[slot[j]] = v
            want.add(tuple(float(x) for x in el))
    else:
        want = set()
        for j in order:
            for v in values[j]:
                el = [cfg["p1"], cfg["T"], cfg["q1"]]
                el[slot[j]] = v
                want.add(tuple(float(x) for x in el))
    got = {tuple(float(x) for x in r) for r in runs}
    if not want <= got or (got - want and case["exec"] != "dask") or len(got - want) > 0:
        foreign = sorted(got - want)[:2]
        missing = sorted(want - got)[:2]
        bad("value-not-applied", f"swept keys (declaration order) {[keys[j] for j in order]}: runs received (p1.i, temperature, "
            f"q1.i) combinations {foreign} that were not requested; requested but never seen: {missing}")
    return ["swept", len(runs)]


def _run_calib(case, det, pipe, before, bad, tmp):
    from pyxel.observation import ParameterValues
    from pyxel.pipelines import Processor

    from vp import calib

    key, kcls = case["key"], case["kcls"]
    valid = kcls == "valid"
    proc = Processor(detector=det, pipeline=pipe)
    cur = None
    try:
        cur = proc.get(key)
    except Exception:  # noqa: BLE001
        pass
    vec = isinstance(cur, (list, tuple))
    n = len(cur) if vec else 1
    tgt = os.path.join(tmp, "t.npy")
    np.save(tgt, np.zeros((ROWS, COLS)))
    s = _s()
    dv = np.array([0.25 + 0.125 * i + 0.0625 * s for i in range(n)])
    if key.endswith("adc_bit_resolution") or key.endswith("avalanche_gain"):
        dv = np.array([8.0 + s])
    exc = None
    new = None
    try:
        pv = ParameterValues(key=key, values=(["_"] * n if vec else "_"), boundaries=(0.0, 100.0))
        cal = calib.calibration([tgt], [pv], fit_range=(0, ROWS, 0, COLS), population_size=8)
        problem, _ = calib.real_problem(cal, proc)
        probes.reset()
        new = problem.update_processor(parameter=dv, processor=proc)
    except Exception as e:  # noqa: BLE001
        exc = e
    d = snapshot.diff(before, snapshot.snapshot([det, pipe]), ignore=("_numbytes", "_func"))
    if d:
        bad("caller-changed", f"update_processor changed the caller's objects: {snapshot.fmt(d, 3)}")
    if not valid:
        if exc is None:
            dn = snapshot.diff(snapshot.snapshot(proc), snapshot.snapshot(new), ignore=("_numbytes", "_func"))
            bad("invalid-accepted", f"calibrating {key} raised nothing; the candidate processor differs by "
                f"{snapshot.fmt(dn, 3) or 'nothing (silent no-op)'}")
        return ["invalid", type(exc).__name__ if exc else None]
    if exc is not None:
        return ["valid-refused", type(exc).__name__]
    got = new.get(key)
    want = list(dv) if vec else dv[0]
    if not same(got, want) and not (vec and same(list(np.asarray(got).tolist()), [float(x) for x in dv])):
        bad("wrong-value", f"candidate processor holds {key}={show(got)} for decision vector {dv.tolist()}")
    grp = next((g for g in COUPLED.get(case["det"], []) if key in g), {key})
    for k2 in valid_keys(case["det"]):
        if k2 in grp:
            continue
        if not same(new.get(k2), proc.get(k2)):
            bad("other-setting-changed", f"calibrating {key} changed {k2}: {show(proc.get(k2))} -> {show(new.get(k2))}")
            break
    return ["updated", kind_of(got)]


# ---------------------------------------------------------------- module interface

ENTRY_SHARDS = 24


def shards(tier, seed):
    out = []
    depth = 2 if tier == "quick" else 3
    of = 6 if tier == "quick" else 12
    for kind in mk.DET_TYPES:
        for i in range(of):
            out.append({"part": "seq", "tier": tier, "seed": seed, "det": kind, "depth": depth, "slice": i, "of": of})
    n = len(entry_cases(tier))
    for i in range(ENTRY_SHARDS):
        out.append({"part": "entry", "tier": tier, "seed": seed, "i": i, "of": ENTRY_SHARDS, "total": n})
    return out


def run_shard(shard):
    os.environ["VERIF_SEED"] = str(shard["seed"])
    if shard["part"] == "seq":
        return run_seq(shard)
    cases = entry_cases(shard["tier"])
    if len(cases) != shard["total"]:
        raise RuntimeError("entry enumeration is not deterministic")
    viol, sigs, samples, n = [], set(), [], 0
    seen = set()
    for c in cases[shard["i"]:: shard["of"]]:
        r = run_entry(c)
        n += 1
        sigs.add(r["sig"])
        for key, what in r["viol"]:
            kk = repr(sorted(key.items()))
            if kk not in seen:
                seen.add(kk)
                viol.append({"key": key, "what": what, "case": dict(c, seed=shard["seed"])})
        if not samples and not r["viol"]:
            samples.append({"case": c, "outcome": r["outcome"]})
    return {"violations": viol, "counts": {"entry_cases": n}, "sets": {"entry_sigs": sorted(sigs)}, "samples": samples}


def replay(case):
    if case.get("part") == "seq":
        return replay_seq(case)
    os.environ["VERIF_SEED"] = str(case.get("seed", "0"))
    c = {k: v for k, v in case.items() if k != "seed"}
    r = run_entry(c)
    return [{"key": key, "what": what, "case": case} for key, what in r["viol"]]


def coverage(tier, seed, agg):
    c, s = agg["counts"], agg["sets"]
    return {
        "states": len(s.get("states", [])),
        "transitions": c.get("transitions", 0),
        "traces_validated_against_impl": c.get("transitions", 0),
        "exhaustive": True,
        "bound": "operation sequences up to the length given in `explored` per detector type. Length 1: the full alphabet "
                 "(has/get/set x all keys x 17 values). Length 2: first operation = a state-changing assignment to each valid "
                 "key (quick: 1 value, thorough: 2 values, plus a bool for enabled flags), second operation = has/get/set x all "
                 "keys x 4 values. Length 3 (thorough): two such assignments to different keys, third operation = "
                 "has/get/set(2 values) on the two touched keys and every key derived from them + set on every other valid key",
        "explored": s.get("explored", []),
        "entry_point_cases": c.get("entry_cases", 0),
        "distinct_entry_outcomes": len(s.get("entry_sigs", [])),
        "rule": "every transition executed on a deep copy of a real Processor and compared with the flat key->value "
                "reference model and the structural snapshot; states counted by structural snapshot hash",
    }
