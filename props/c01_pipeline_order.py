"""C01 - enabled models run once per readout, in the fixed physical group order.

Bounded exhaustive enumeration (vp.cfgx) of pipelines made of recording probe models, run through
the real entry points (pyxel.run_mode / pyxel.loads / the calibration problem's fitness), compared
with the trace predicted by a 10-line reference model.
"""
from __future__ import annotations

import copy
import itertools
import os

import numpy as np

from vp import cfgx, mk, probes

ID = "C01"
LEVEL = "exploration"
ENGINE = "cfgx"
TIMEOUT = 900
TECHNIQUE = ("bounded exhaustive enumeration of pipelines (all 2^10 group subsets, all 45 group pairs x enabled "
             "patterns, k<=2 disabled-model deviations of the full pipeline, YAML key-order permutations) executed on "
             "the real entry points with recording probe models, trace compared with a reference model")
LEVEL_TEXT = ("Every member of four finite pipeline families is executed through pyxel.run_mode (exposure; observation "
              "sequential and dask; calibration fitness) both from Python objects and from generated YAML text, with "
              "1-3 readout steps and debug capture on/off; the recorded call trace (model, kwargs with types, step, "
              "detector identity) must equal the predicted sequence, so every order relation between the 45 group pairs "
              "and every enabled pattern up to the bound is decided, not sampled."
              " Family f: a run after an abandoned traversal of a group (a failing model at every position x step, or a partial look at the group); family yb: hand-written YAML with the 16 boolean spellings of YAML 1.1.")
LEVEL_NOTE = ("Bounded: <=2 models per group, <=3 readout steps, argument palette of 7 shapes; probe models stand in for "
              "real models (the dispatcher does not look inside a model). Trusted: the reference model (group order "
              "list copied from the property statement) and Python's import system.")
DESIGN_REF = "DESIGN.md section 4, C01"
RULE = ("cases = family a (all subsets of the 10 groups, 1 enabled model each) + b (all 45 group pairs x models per group "
        "x enabled patterns x YAML key order) + c (full pipeline, <=k disabled, key-order rotations/transpositions) + d "
        "(argument palette product) + modes; a case is non-trivial when at least one model call was predicted; distinct "
        "= distinct predicted traces")
NSHARDS = 64

GROUPS = ["scene_generation", "photon_collection", "phasing", "charge_generation", "charge_collection",
          "charge_transfer", "charge_measurement", "signal_transfer", "readout_electronics", "data_processing"]

ARG_PALETTE = {
    "none": None,
    "empty": {},
    "scalar": {"a": 3},
    "two": {"a": 1.5, "b": "txt"},
    "list": {"v": [1, 2, 3]},
    "nested": {"d": {"k": [1, {"z": 2.5}]}},
    "nonev": {"a": None, "b": True},
    # text that LOOKS like a number / boolean / expression stays text; numbers of unusual form stay numbers
    "numtext": {"a": "123", "b": "1.10", "c": "True", "d": "1e5", "e": "0x10", "f": "None", "g": "[1, 2]", "h": "1_000"},
    "edge": {"a": 0, "b": 0.0, "c": False, "d": "", "e": [], "f": -0.0, "g": 1e300, "h": 2 ** 70},
}


def _seed_args(seed):
    return {"a": 10 + int(seed) % 5}


# ---------------------------------------------------------------- enumeration

def _pipe_spec(groups, nmodels=1, disabled=(), args="scalar", order=None):
    """spec = {"order": [group names in YAML key order], "groups": {g: [[name, enabled, argname], ...]}}"""
    spec = {"order": list(order if order is not None else groups), "groups": {}}
    for g in groups:
        lst = []
        for j in range(nmodels if isinstance(nmodels, int) else nmodels[g]):
            name = f"{g[:2]}{GROUPS.index(g)}m{j}"
            lst.append([name, name not in disabled, args])
        spec["groups"][g] = lst
    return spec


def enumerate_cases(tier, seed):
    cases = []
    thorough = tier == "thorough"
    # family a: every subset of the ten groups, one enabled model each
    for sub in cfgx.subsets(GROUPS):
        for steps in ((1, 2) if not thorough else (1, 2, 3)):
            cases.append({"fam": "a", "spec": _pipe_spec(sub), "steps": steps, "ctor": "py" if len(sub) % 2 else "yaml",
                          "debug": False, "mode": "exposure"})
        if thorough:
            cases.append({"fam": "a", "spec": _pipe_spec(sub), "steps": 2, "ctor": "yaml" if len(sub) % 2 else "py",
                          "debug": True, "mode": "exposure"})
    # family b: all 45 pairs x models per group x enabled patterns x key order
    for pair in cfgx.pairs(GROUPS):
        for nm in ((1, 2) if thorough else (1,)):
            names = [f"{g[:2]}{GROUPS.index(g)}m{j}" for g in pair for j in range(nm)]
            for dis in cfgx.subsets(names):
                for order in (pair, pair[::-1]):
                    for ctor in ("py", "yaml"):
                        if ctor == "py" and order != pair:
                            continue        # key order only exists in YAML
                        for debug in (False, True):
                            if debug and not (thorough or nm == 1):
                                continue
                            cases.append({"fam": "b", "spec": _pipe_spec(pair, nm, dis, order=order), "steps": 2,
                                          "ctor": ctor, "debug": debug, "mode": "exposure"})
    # family c: full pipeline with two models per group, <= k disabled, key orders
    names = [f"{g[:2]}{GROUPS.index(g)}m{j}" for g in GROUPS for j in range(2)]
    kmax = 2 if thorough else 1
    orders = [GROUPS, GROUPS[::-1]] + [GROUPS[i:] + GROUPS[:i] for i in range(1, 10)]
    orders += [GROUPS[:i] + [GROUPS[i + 1], GROUPS[i]] + GROUPS[i + 2:] for i in range(9)]
    for dis in cfgx.subsets(names, 0, kmax):
        cases.append({"fam": "c", "spec": _pipe_spec(GROUPS, 2, dis), "steps": 2, "ctor": "py", "debug": len(dis) == 1,
                      "mode": "exposure"})
    for order in orders:
        for dis in ([], [names[3]], [names[0], names[19]]):
            cases.append({"fam": "c", "spec": _pipe_spec(GROUPS, 2, dis, order=order), "steps": 1, "ctor": "yaml",
                          "debug": False, "mode": "exposure"})
    # family d: argument palette product on a 2-group pipeline
    for a1, a2 in itertools.product(ARG_PALETTE, repeat=2):
        for ctor in ("py", "yaml"):
            spec = _pipe_spec(["photon_collection", "charge_collection"], 1)
            spec["groups"]["photon_collection"][0][2] = a1
            spec["groups"]["charge_collection"][0][2] = a2
            cases.append({"fam": "d", "spec": spec, "steps": 1, "ctor": ctor, "debug": False, "mode": "exposure"})
    # family e: histories on one set of objects: run, edit (argument / enabled flag, through four entry points), run ...
    edit_ops = [["arg_attr", 0], ["arg_attr", 1], ["arg_item", 1], ["arg_set", 0], ["arg_set", 1], ["toggle_attr", 0],
                ["toggle_set", 1], ["replace", 0], ["replace_toggle", 1], ["nested_set", 0], ["copy_nested", 0],
                ["copy_list", 1], ["arg_set_sametype", 0], ["arg_set_sametype", 1]]
    depth = 3 if thorough else 2
    for k in range(1, depth + 1):
        for seq in itertools.product(edit_ops, repeat=k):
            for first_run in ((True, False) if k == 1 else (True,)):
                cases.append({"fam": "e", "edits": [list(x) for x in seq], "first_run": first_run,
                              "run_between": k > 1 and (len(seq) % 2 == 0), "mode": "history", "ctor": "py",
                              "debug": False, "steps": 2})
    # family y: YAML documents that use anchors / aliases: a whole model entry listed twice, an argument mapping shared
    for entry_enabled in (True, False):
        for shared_args in (True, False):
            for steps in (1, 2):
                cases.append({"fam": "y", "entry_enabled": entry_enabled, "shared_args": shared_args, "steps": steps,
                              "mode": "yaml-alias", "ctor": "yaml", "debug": False})
    # family s: (1) several models configured from ONE argument dictionary object (Python: the same dict; YAML: anchor +
    # alias inside one group), one of them re-configured afterwards through four entry points; (2) models of one group
    # that carry the same name (listed order and every enabled pattern), the same model object listed twice
    for ctor in ("py", "yaml"):
        for edit in ("none", "attr", "item", "set", "set_other"):
            for same_group in (True, False):
                for mode in ("exposure", "obs_seq"):
                    cases.append({"fam": "s", "kind": "shared", "ctor": ctor, "edit": edit, "same_group": same_group,
                                  "mode": mode, "debug": False, "steps": 2})
        for pattern in itertools.product((True, False), repeat=3):
            for debug in (False, True):
                cases.append({"fam": "s", "kind": "dupname", "ctor": ctor, "pattern": list(pattern), "mode": "exposure",
                              "debug": debug, "steps": 2})
    # the same model name in two groups, one of them re-configured through its dotted key
    for target in ("first", "second"):
        for via in ("set", "override", "sweep"):
            cases.append({"fam": "s", "kind": "dupgroups", "ctor": "py", "target": target, "via": via, "mode": "exposure",
                          "debug": False, "steps": 1})
    for n in (2, 3):
        cases.append({"fam": "s", "kind": "sameobj", "ctor": "py", "n": n, "mode": "exposure", "debug": False, "steps": 2})
    # other running modes: subsets of <= 3 (quick: <= 2) groups and the full pipeline
    msub = cfgx.subsets(GROUPS, 1, 3 if thorough else 2) + [GROUPS]
    for mode in ("obs_seq", "obs_dask", "calibration"):
        for sub in msub:
            if not thorough and len(sub) == 2 and mode != "obs_seq" and (GROUPS.index(sub[0]) + GROUPS.index(sub[1])) % 3:
                continue
            nm = 2 if len(sub) <= 2 else 1
            names2 = [f"{g[:2]}{GROUPS.index(g)}m{j}" for g in sub for j in range(nm)]
            dis = [names2[1]] if len(names2) > 1 else []
            cases.append({"fam": "m", "spec": _pipe_spec(sub, nm, dis), "steps": 2 if mode != "calibration" else 1,
                          "ctor": "py", "debug": False, "mode": mode})
    # family f: an ABANDONED traversal of a model group, then a normal run on the same objects: (a) a run in which the
    # j-th model fails at step s (every model x step of a 2 x 3 pipeline), (b) a partial look at a group (next(iter(g)),
    # any(...), a loop left with break); the following run must execute every enabled model of every step
    for j in range(6):
        for step in range(2):
            for debug in (False, True):
                cases.append({"fam": "f", "pre": ["fail", j, step], "debug": debug, "mode": "abandoned", "ctor": "py",
                              "steps": 2})
    # family yb: YAML documents written by hand with the boolean spellings of YAML 1.1 (what `yaml.safe_load` resolves):
    # the flag of a model / a boolean argument means what the document says, or the document is refused
    for sp, val in BOOL_SPELLINGS:
        for steps in (1, 2):
            cases.append({"fam": "yb", "spelling": sp, "value": val, "steps": steps, "mode": "yaml-bool", "ctor": "yaml",
                          "debug": False})
    for g in range(2):
        for how in ("next", "any", "break", "len-list"):
            cases.append({"fam": "f", "pre": ["peek", g, how], "debug": False, "mode": "abandoned", "ctor": "py", "steps": 2})
    return cases


# ---------------------------------------------------------------- reference model

def predict(spec, steps):
    """Predicted trace: per step, groups in the statement's order, listed order inside, enabled only."""
    out = []
    for s in range(steps):
        for g in GROUPS:
            for name, enabled, argname in spec["groups"].get(g, []):
                if enabled:
                    out.append((name, g, s))
    return out


def _args(argname, seed):
    if argname == "scalar":
        return dict(_seed_args(seed))
    a = ARG_PALETTE[argname]
    return None if a is None else eval(repr(a))  # fresh deep copy of literals


# ---------------------------------------------------------------- construction

def build_python(spec, seed):
    groups = {}
    for g in spec["order"]:
        groups[g] = [mk.model("vp.probes.rec", name, _args(argname, seed), enabled)
                     for name, enabled, argname in spec["groups"][g]]
    return mk.pipeline(groups)


def yaml_text(spec, steps, seed, mode="exposure"):
    import yaml

    times = [float(i + 1) for i in range(steps)]
    doc = {
        "exposure": {"readout": {"times": times, "non_destructive": False}},
        "ccd_detector": {
            "geometry": {"row": 2, "col": 3, "total_thickness": 10.0, "pixel_vert_size": 2.0, "pixel_horz_size": 0.5},
            "environment": {"temperature": 100.0},
            "characteristics": {"quantum_efficiency": 0.5, "charge_to_volt_conversion": 1e-3,
                                "pre_amplification": 4.0, "full_well_capacity": 1000, "adc_bit_resolution": 16,
                                "adc_voltage_range": [0.0, 8.0]},
        },
        "pipeline": {},
    }
    for g in spec["order"]:
        lst = []
        for name, enabled, argname in spec["groups"][g]:
            d = {"name": name, "func": "vp.probes.rec", "enabled": bool(enabled)}
            a = _args(argname, seed)
            if a is not None:
                d["arguments"] = a
            lst.append(d)
        doc["pipeline"][g] = lst
    return yaml.safe_dump(doc, sort_keys=False)


BOOL_SPELLINGS = [("no", False), ("No", False), ("NO", False), ("off", False), ("Off", False), ("OFF", False),
                  ("false", False), ("False", False), ("FALSE", False), ("yes", True), ("Yes", True), ("on", True),
                  ("ON", True), ("true", True), ("True", True), ("TRUE", True)]


def run_yaml_bool(case):
    """family yb: see enumerate_cases"""
    import pyxel

    seed = int(os.environ.get("VERIF_SEED", "0") or 0)
    viol = []
    sp, val, steps = case["spelling"], case["value"], case["steps"]
    base = yaml_text(_pipe_spec([]), steps, seed)
    head = base[: base.index("pipeline:")]
    text = head + (
        "pipeline:\n"
        "  photon_collection:\n"
        f"    - {{name: first, func: vp.probes.rec, enabled: true, arguments: {{flag: {sp}}}}}\n"
        f"    - {{name: flagged, func: vp.probes.rec, enabled: {sp}, arguments: {{a: 1}}}}\n"
        "  charge_collection:\n"
        "    - {name: last, func: vp.probes.rec, enabled: true}\n")
    probes.reset()
    try:
        cfg = pyxel.loads(text)
        pyxel.run_mode(cfg.running_mode, cfg.detector, cfg.pipeline)
    except Exception as e:  # noqa: BLE001
        # refusing the spelling loudly is legitimate
        return {"viol": viol, "sig": cfgx.sig(["yb", sp, "refused", type(e).__name__]), "nontrivial": True, "n": 1,
                "outcome": "refused"}
    got = [(t["name"], t["step"], t["kw"]) for t in probes.TRACE]
    exp = []
    for s_ in range(steps):
        exp.append(("first", s_, probes.tagged({"flag": val})))
        if val:
            exp.append(("flagged", s_, probes.tagged({"a": 1})))
        exp.append(("last", s_, probes.tagged({})))
    if got != exp:
        code = "arguments" if [g[:2] for g in got] == [e[:2] for e in exp] else "disabled-ran" if not val else "enabled-skipped"
        viol.append(({"fam": "yb", "code": code, "value": val},
                     f"YAML document with the boolean written as '{sp}' (enabled flag of model 'flagged', argument 'flag' of "
                     f"model 'first'): executed {got}, the document says {exp}"))
    return {"viol": viol, "sig": cfgx.sig(["yb", sp, [e[:2] for e in exp]]), "nontrivial": True, "n": len(got),
            "outcome": [g[:2] for g in got][:8]}


def run_abandoned(case):
    """family f: see enumerate_cases"""
    import pyxel

    viol = []
    groups = ["photon_collection", "charge_collection"]
    names = [[f"fm{3 * gi + j}" for j in range(3)] for gi in range(2)]
    det = mk.detector("ccd", 2, 3)
    pipe = mk.pipeline({g: [("vp.probes.rec", n, {"a": int(n[2:])}, True) for n in names[gi]] for gi, g in enumerate(groups)})
    kind, x, y = case["pre"]
    probes.reset()
    if kind == "fail":
        probes.FAULT.update({"name": f"fm{x}", "step": y, "exc": "ValueError", "msg": "BOOM-C01"})
        try:
            pyxel.run_mode(mk.exposure([1.0, 2.0]), det, pipe, debug=case["debug"])
            viol.append(({"fam": "f", "code": "fault-not-raised"}, f"the run with a failing model fm{x} at step {y} raised nothing"))
        except Exception:  # noqa: BLE001
            pass
        finally:
            probes.FAULT.clear()
    else:
        grp = getattr(pipe, groups[x])
        if y == "next":
            next(iter(grp))
        elif y == "any":
            any(m.name == names[x][1] for m in grp)
        elif y == "break":
            for m in grp:
                if m.name == names[x][1]:
                    break
        else:
            list(grp)
    probes.reset()
    exp = [(n, s) for s in range(2) for gi in range(2) for n in names[gi]]
    try:
        pyxel.run_mode(mk.exposure([1.0, 2.0]), det, pipe, debug=case["debug"])
        got = [(t["name"], t["step"]) for t in probes.TRACE]
    except Exception as e:  # noqa: BLE001
        got = f"raised {type(e).__name__}: {str(e)[:200]}"
    if got != exp:
        viol.append(({"fam": "f", "code": "order", "pre": kind, "debug": case["debug"]},
                     f"[abandoned traversal {case['pre']}, debug={case['debug']}] the following run executed {got}, expected {exp}"))
    return {"viol": viol, "sig": cfgx.sig(["f", case["pre"], case["debug"]]), "nontrivial": True, "n": 2,
            "outcome": {"pre": case["pre"]}}


def run_history(case):
    """family e: one detector/pipeline, runs interleaved with edits; every run must reflect the *current* configuration."""
    import pyxel
    from pyxel.pipelines import Processor

    seed = int(os.environ.get("VERIF_SEED", "0") or 0)
    viol = []
    names = [("photon_collection", "hm0"), ("charge_collection", "hm1")]
    cfg = {"hm0": {"enabled": True, "args": {"a": 1 + seed % 5, "v": [1, 2], "d": {"k": 1, "z": [1, 2]}}},
           "hm1": {"enabled": True, "args": {"a": 2, "v": [3]}}}
    det = mk.detector("ccd", 2, 3)
    pipe = mk.pipeline({g: [("vp.probes.rec", n, eval(repr(cfg[n]["args"])), True)] for g, n in names})
    holder = {"proc": Processor(detector=det, pipeline=pipe)}
    counter = [10]
    nruns = [0]
    sig = []

    def do_run(tag):
        probes.reset()
        p = holder["proc"]
        try:
            pyxel.run_mode(mk.exposure([1.0, 2.0]), p.detector, p.pipeline)
        except Exception as e:  # noqa: BLE001
            viol.append(({"fam": "e", "code": "raised"}, f"history {case['edits']}: run {tag} raised {type(e).__name__}: {e}"))
            return
        nruns[0] += 1
        got = [(t["name"], t["step"], t["kw"]) for t in probes.TRACE]
        exp = [(n, s, probes.tagged(cfg[n]["args"])) for s in range(2) for g, n in names if cfg[n]["enabled"]]
        sig.append([x[:2] for x in exp])
        if got != exp:
            code = "stale-arguments" if [x[:2] for x in got] == [x[:2] for x in exp] else "stale-enabled"
            viol.append(({"fam": "e", "code": code, "after": case["edits"][-1][0] if tag else "none"},
                         f"history run? {case['first_run']} edits {case['edits']}: run {tag} executed {got} but the current "
                         f"configuration is {exp}"))

    if case["first_run"]:
        do_run(0)
    for i, (op, mi) in enumerate(case["edits"]):
        g, n = names[mi]
        counter[0] += 1
        val = counter[0]
        p = holder["proc"]
        mf = getattr(getattr(p.pipeline, g), n)
        if op == "arg_attr":
            mf.arguments.a = val
            cfg[n]["args"]["a"] = val
        elif op == "arg_item":
            mf.arguments["v"] = [val, val + 1]
            cfg[n]["args"]["v"] = [val, val + 1]
        elif op == "arg_set":
            p.set(f"pipeline.{g}.{n}.arguments.a", val)
            cfg[n]["args"]["a"] = val
        elif op == "arg_set_sametype":
            # a value that compares equal to the current one but is of another type (2 -> 2.0, 2.0 -> 2)
            cur = cfg[n]["args"]["a"]
            new = float(cur) if isinstance(cur, int) else int(cur)
            p.set(f"pipeline.{g}.{n}.arguments.a", new)
            cfg[n]["args"]["a"] = new
        elif op == "toggle_attr":
            mf.enabled = not mf.enabled
            cfg[n]["enabled"] = not cfg[n]["enabled"]
        elif op == "toggle_set":
            p.set(f"pipeline.{g}.{n}.enabled", not cfg[n]["enabled"])
            cfg[n]["enabled"] = not cfg[n]["enabled"]
        elif op == "replace":
            holder["proc"] = p.replace({f"pipeline.{g}.{n}.arguments.a": val})
            cfg[n]["args"]["a"] = val
        elif op == "replace_toggle":
            holder["proc"] = p.replace({f"pipeline.{g}.{n}.enabled": not cfg[n]["enabled"]})
            cfg[n]["enabled"] = not cfg[n]["enabled"]
        elif op == "nested_set":                 # a key that addresses a value inside a nested argument
            p.set(f"pipeline.{g}.{n}.arguments.d.k", val)
            cfg[n]["args"]["d"]["k"] = val
        elif op == "copy_nested":                # the change is made on a COPY: this processor keeps its configuration
            p.replace({f"pipeline.{g}.{n}.arguments.d.k": val})
            q = copy.deepcopy(p)
            q.set(f"pipeline.{g}.{n}.arguments.d.k", val + 1)
        elif op == "copy_list":
            q = copy.deepcopy(p)
            getattr(getattr(q.pipeline, g), n).arguments["v"].append(val)
        if case.get("run_between") and i < len(case["edits"]) - 1:
            do_run(i + 1)
    do_run(len(case["edits"]))
    return {"viol": viol, "sig": cfgx.sig([sig, case["edits"]]), "nontrivial": True, "n": nruns[0],
            "outcome": {"runs": nruns[0]}}


def run_alias(case):
    """family y: the same YAML mapping object used twice (anchor + alias), as PyYAML loads it"""
    import pyxel
    import yaml

    seed = int(os.environ.get("VERIF_SEED", "0") or 0)
    viol = []
    entry = {"name": "ya", "func": "vp.probes.rec", "enabled": case["entry_enabled"],
             "arguments": {"a": 3 + seed % 5, "v": [1, 2]}}
    args = {"a": 5, "d": {"k": 1}}
    doc = yaml.safe_load(yaml_text(_pipe_spec([]), case["steps"], seed))
    doc["pipeline"] = {
        "charge_collection": [entry,                                    # listed again below: alias of the same mapping
                              {"name": "yb", "func": "vp.probes.rec", "enabled": True, "arguments": args}],
        "photon_collection": [entry],
        "charge_measurement": [{"name": "yc", "func": "vp.probes.rec", "enabled": True,
                                "arguments": args if case["shared_args"] else dict(args)}],
    }
    text = yaml.safe_dump(doc, sort_keys=False)
    if "&id" not in text or "*id" not in text:
        raise RuntimeError("harness: the generated YAML contains no anchor/alias")
    probes.reset()
    try:
        cfg = pyxel.loads(text)
        pyxel.run_mode(cfg.running_mode, cfg.detector, cfg.pipeline)
    except Exception as e:  # noqa: BLE001
        viol.append(({"fam": "y", "code": "raised"}, f"YAML with aliases raised {type(e).__name__}: {str(e)[:200]}\n{text}"))
        return {"viol": viol, "sig": cfgx.sig(case), "nontrivial": True}
    exp = []
    for s_ in range(case["steps"]):
        if case["entry_enabled"]:
            exp.append(("ya", s_, probes.tagged(entry["arguments"])))      # photon_collection
            exp.append(("ya", s_, probes.tagged(entry["arguments"])))      # charge_collection
        exp.append(("yb", s_, probes.tagged(args)))
        exp.append(("yc", s_, probes.tagged(args)))
    got = [(t["name"], t["step"], t["kw"]) for t in probes.TRACE]
    if got != exp:
        code = "arguments" if [g[:2] for g in got] == [e[:2] for e in exp] else _classify([g[:2] for g in got], [e[:2] for e in exp])
        viol.append(({"fam": "y", "code": code, "entry_enabled": case["entry_enabled"]},
                     f"YAML with an aliased model entry / argument mapping: executed {got}, the document says {exp}"))
    return {"viol": viol, "sig": cfgx.sig([case, [e[:2] for e in exp]]), "nontrivial": True, "n": len(got),
            "outcome": [g[:2] for g in got][:8]}


def run_shared(case):
    """family s: one argument dictionary object behind several models / equal names inside a group"""
    import pyxel
    import yaml
    from pyxel.observation import Observation, ParameterValues
    from pyxel.pipelines import Processor

    seed = int(os.environ.get("VERIF_SEED", "0") or 0)
    viol = []
    steps = case["steps"]
    kind = case["kind"]

    def bad(code, what):
        viol.append(({"fam": "s", "kind": kind, "ctor": case["ctor"], "mode": case["mode"], "code": code},
                     f"[{kind}/{case['ctor']}/{case['mode']}] {what}; case={case}"))

    def run(det, pipe, modeobj=None):
        probes.reset()
        if case["mode"] == "obs_seq":
            obs = Observation(parameters=[ParameterValues(key="detector.environment.temperature", values=[100, 200])],
                              mode="product", readout=mk.readout([float(i + 1) for i in range(steps)]), with_dask=False)
            pyxel.run_mode(obs, det, pipe, with_inherited_coords=True)
            return 2
        pyxel.run_mode(modeobj or mk.exposure([float(i + 1) for i in range(steps)]), det, pipe, debug=case["debug"],
                       with_inherited_coords=True)
        return 1

    try:
        if kind == "shared":
            common = {"a": 3 + seed % 5, "v": [1, 2]}
            g2 = "photon_collection" if case["same_group"] else "charge_collection"
            layout = {"photon_collection": ["sa"]}
            layout[g2] = layout.get(g2, []) + ["sb"]
            if case["ctor"] == "py":
                from pyxel.pipelines import ModelFunction

                ms = {n: ModelFunction(func="vp.probes.rec", name=n, arguments=common, enabled=True) for n in ("sa", "sb")}
                pipe = mk.pipeline({g: [ms[n] for n in ns] for g, ns in layout.items()})
                det = mk.detector("ccd", 2, 3)
                modeobj = None
            else:
                doc = yaml.safe_load(yaml_text(_pipe_spec([]), steps, seed))
                doc["pipeline"] = {g: [{"name": n, "func": "vp.probes.rec", "enabled": True, "arguments": common}
                                       for n in ns] for g, ns in layout.items()}
                text = yaml.safe_dump(doc, sort_keys=False)
                if "&id" not in text or "*id" not in text:
                    raise RuntimeError("harness: the generated YAML contains no anchor/alias")
                cfg = pyxel.loads(text)
                det, pipe, modeobj = cfg.detector, cfg.pipeline, cfg.running_mode
            want = {"sa": eval(repr(common)), "sb": eval(repr(common))}
            proc = Processor(detector=det, pipeline=pipe)
            sa = pipe.photon_collection.sa
            if case["edit"] == "attr":
                sa.arguments.a = 77
                want["sa"]["a"] = 77
            elif case["edit"] == "item":
                sa.arguments["v"] = [7, 8, 9]
                want["sa"]["v"] = [7, 8, 9]
            elif case["edit"] == "set":
                proc.set("pipeline.photon_collection.sa.arguments.a", 78)
                want["sa"]["a"] = 78
            elif case["edit"] == "set_other":
                proc.set(f"pipeline.{g2}.sb.arguments.a", 79)
                want["sb"]["a"] = 79
            reps = run(det, pipe, modeobj)
            got = [(t["name"], t["step"], t["kw"]) for t in probes.TRACE]
            order = [n for g in GROUPS for n in layout.get(g, [])]
            exp = [(n, s_, probes.tagged(want[n])) for _ in range(reps) for s_ in range(steps) for n in order]
            if got != exp:
                code = "arguments" if [x[:2] for x in got] == [x[:2] for x in exp] else "trace"
                bad(code, f"executed {got}, configured {exp}")
            return {"viol": viol, "sig": cfgx.sig(case), "nontrivial": True, "n": len(got), "outcome": [x[:2] for x in got][:6]}
        if kind == "dupname":
            pat = case["pattern"]
            entries = [("dup", {"a": 1}, pat[0]), ("mid", {"a": 2}, pat[1]), ("dup", {"a": 3}, pat[2])]
            if case["ctor"] == "py":
                pipe = mk.pipeline({"charge_collection": [mk.model("vp.probes.rec", n, dict(a), en) for n, a, en in entries],
                                    "photon_collection": [mk.model("vp.probes.rec", "dup", {"a": 9}, True)]})
                det, modeobj = mk.detector("ccd", 2, 3), None
            else:
                doc = yaml.safe_load(yaml_text(_pipe_spec([]), steps, seed))
                doc["pipeline"] = {"charge_collection": [{"name": n, "func": "vp.probes.rec", "enabled": en, "arguments": dict(a)}
                                                         for n, a, en in entries],
                                   "photon_collection": [{"name": "dup", "func": "vp.probes.rec", "enabled": True,
                                                          "arguments": {"a": 9}}]}
                cfg = pyxel.loads(yaml.safe_dump(doc, sort_keys=False))
                det, pipe, modeobj = cfg.detector, cfg.pipeline, cfg.running_mode
            run(det, pipe, modeobj)
            got = [(t["name"], t["step"], t["kw"]) for t in probes.TRACE]
            exp = []
            for s_ in range(steps):
                exp.append(("dup", s_, probes.tagged({"a": 9})))
                exp += [(n, s_, probes.tagged(a)) for n, a, en in entries if en]
            if got != exp:
                bad("trace", f"executed {got}, listed {exp}")
            return {"viol": viol, "sig": cfgx.sig(case), "nontrivial": True, "n": len(got), "outcome": [x[:2] for x in got][:6]}
        if kind == "dupgroups":
            groups = ("photon_collection", "charge_collection")
            pipe = mk.pipeline({groups[0]: [mk.model("vp.probes.rec", "dup", {"a": 1}, True)],
                                "charge_generation": [mk.model("vp.probes.rec", "mid", {"a": 2}, True)],
                                groups[1]: [mk.model("vp.probes.rec", "dup", {"a": 3}, True)]})
            det = mk.detector("ccd", 2, 3)
            g = groups[0] if case["target"] == "first" else groups[1]
            key = f"pipeline.{g}.dup.arguments.a"
            want = [1, 2, 3]
            want[0 if case["target"] == "first" else 2] = 55
            probes.reset()
            if case["via"] == "set":
                Processor(detector=det, pipeline=pipe).set(key, 55)
                pyxel.run_mode(mk.exposure([1.0]), det, pipe, with_inherited_coords=True)
            elif case["via"] == "override":
                pyxel.run_mode(mk.exposure([1.0]), det, pipe, override_dct={key: 55}, with_inherited_coords=True)
            else:
                obs = Observation(parameters=[ParameterValues(key=key, values=[55])], readout=mk.readout([1.0]), with_dask=False)
                pyxel.run_mode(obs, det, pipe, with_inherited_coords=True)
            got = [(t["name"], t["kw"]) for t in probes.TRACE]
            exp = [(n, probes.tagged({"a": a})) for n, a in zip(("dup", "mid", "dup"), want)]
            if got != exp:
                bad("arguments", f"after {case['via']} of {key}=55 the models received {got}, expected {exp}")
            return {"viol": viol, "sig": cfgx.sig(case), "nontrivial": True, "n": len(got), "outcome": [x[0] for x in got][:6]}
        # the same model object listed n times in one group
        m = mk.model("vp.probes.rec", "same", {"a": 4}, True)
        pipe = mk.pipeline({"charge_collection": [m] * case["n"]})
        run(mk.detector("ccd", 2, 3), pipe)
        got = [(t["name"], t["step"]) for t in probes.TRACE]
        exp = [("same", s_) for s_ in range(steps) for _ in range(case["n"])]
        if got != exp:
            bad("trace", f"executed {got}, listed {exp}")
        return {"viol": viol, "sig": cfgx.sig(case), "nontrivial": True, "n": len(got), "outcome": got[:6]}
    except Exception as e:  # noqa: BLE001
        bad("raised", f"raised {type(e).__name__}: {str(e)[:300]}")
        return {"viol": viol, "sig": cfgx.sig(case), "nontrivial": True}


def run_case(case):
    import pyxel

    if case["fam"] == "e":
        return run_history(case)
    if case["fam"] == "f":
        return run_abandoned(case)
    if case["fam"] == "yb":
        return run_yaml_bool(case)
    if case["fam"] == "s":
        return run_shared(case)
    if case["fam"] == "y":
        return run_alias(case)
    seed = int(os.environ.get("VERIF_SEED", "0") or 0)
    spec, steps, mode = case["spec"], case["steps"], case["mode"]
    viol = []
    fam = case["fam"]

    def bad(code, what, **extra):
        key = {"fam": fam, "mode": mode, "ctor": case["ctor"], "debug": case["debug"], "code": code}
        key.update(extra)
        viol.append((key, f"[{mode}/{case['ctor']}/debug={case['debug']}] {what}; groups(order as written)="
                     f"{spec['order']} models={spec['groups']} steps={steps}"))

    probes.reset()
    times = [float(i + 1) for i in range(steps)]
    exc = None
    result = None
    expected = predict(spec, steps)
    repeat = 1
    try:
        if case["ctor"] == "yaml":
            cfg = pyxel.loads(yaml_text(spec, steps, seed))
            det, pipe, modeobj = cfg.detector, cfg.pipeline, cfg.running_mode
        else:
            det = mk.detector("ccd", 2, 3)
            pipe = build_python(spec, seed)
            modeobj = mk.exposure(times)
        if mode == "exposure":
            result = pyxel.run_mode(modeobj, det, pipe, debug=case["debug"], with_inherited_coords=True)
        elif mode in ("obs_seq", "obs_dask"):
            from pyxel.observation import Observation, ParameterValues

            # two swept detector fields: every run must see ITS pair of values in every model call
            obs = Observation(parameters=[ParameterValues(key="detector.environment.temperature", values=[100, 200]),
                                          ParameterValues(key="detector.characteristics.quantum_efficiency",
                                                          values=[0.25, 0.75])],
                              mode="product", readout=mk.readout(times), with_dask=(mode == "obs_dask"))
            if mode == "obs_dask":
                import dask

                with dask.config.set(scheduler="synchronous"):
                    result = pyxel.run_mode(obs, det, pipe, with_inherited_coords=True)
                    n_meta = len(probes.TRACE)
                    result.load() if hasattr(result, "load") else None
                repeat = 4
            else:
                result = pyxel.run_mode(obs, det, pipe, with_inherited_coords=True)
                repeat = 4
        elif mode == "calibration":
            repeat = _run_calibration_fitness(det, pipe)
    except Exception as e:  # noqa: BLE001
        exc = e

    trace = list(probes.TRACE)
    if exc is not None:
        bad("raised", f"run raised {type(exc).__name__}: {str(exc)[:300]}")
        return {"viol": viol, "sig": cfgx.sig(expected), "nontrivial": bool(expected)}

    got = [(t["name"], t["step"]) for t in trace]
    if mode == "exposure":
        exp_seq = [(n, s) for n, g, s in expected]
        if got != exp_seq:
            bad(_classify(got, exp_seq), f"call trace {got} != predicted {exp_seq}")
        if len({t["det"] for t in trace}) > 1:
            bad("detector-identity", "models of one run saw different detector objects")
    else:
        # runs may be executed several times (one per parameter / candidate, plus dask's metadata probe):
        # the trace must be a concatenation of complete predicted single-run traces
        exp_seq = [(n, s) for n, g, s in expected]
        L = len(exp_seq)
        if L == 0:
            if got:
                bad("unexpected-calls", f"calls {got} although nothing is enabled")
        else:
            if len(got) % L != 0 or any(got[i:i + L] != exp_seq for i in range(0, len(got), L)):
                bad(_classify(got[:L], exp_seq), f"trace {got} is not a repetition of the predicted single-run trace {exp_seq}")
            elif len(got) // L < repeat:
                bad("missing-runs", f"only {len(got) // L} runs executed, expected at least {repeat}")
            elif mode in ("obs_seq", "obs_dask"):
                # each run is one element of {100, 200} x {0.25, 0.75}: all its model calls see that element, and the four
                # elements are all there
                seen_runs = []
                for i in range(0, len(trace), L):
                    envs = {tuple(t["env"]) for t in trace[i:i + L] if t.get("env")}
                    if len(envs) != 1:
                        bad("swept-values", f"the model calls of one run saw different (temperature, QE): {sorted(envs)}")
                        break
                    seen_runs.append(next(iter(envs)))
                want_runs = {(float(a), float(b)) for a in (100, 200) for b in (0.25, 0.75)}
                if not want_runs <= set(seen_runs) or set(seen_runs) - want_runs:
                    bad("swept-values", f"runs saw (temperature, QE) = {sorted(set(seen_runs))}, requested {sorted(want_runs)}")
    # arguments: exactly the configured ones, by value and type
    cfg_args = {name: _args(argname, seed) or {} for g in spec["groups"] for name, en, argname in spec["groups"][g]}
    for t in trace:
        want = probes.tagged(cfg_args.get(t["name"], {}))
        if t["kw"] != want:
            bad("arguments", f"model {t['name']} received {t['kw']} instead of {want}")
            break
    # debug capture: intermediate nodes == executed set
    if mode == "exposure" and case["debug"]:
        try:
            inter = result["/intermediate"]
            got_nodes = set()
            for node in inter.subtree:
                parts = node.path.strip("/").split("/")
                # path below /intermediate: time_idx_i/group/model
                rel = parts[parts.index("intermediate") + 1:] if "intermediate" in parts else parts
                if len(rel) == 3:
                    got_nodes.add(tuple(rel))
            want_nodes = {(f"time_idx_{s}", g, n) for n, g, s in expected}
            if got_nodes != want_nodes:
                bad("debug-nodes", f"/intermediate model nodes {sorted(got_nodes)} != executed set {sorted(want_nodes)}")
        except Exception as e:  # noqa: BLE001
            bad("debug-nodes", f"cannot read /intermediate: {type(e).__name__}: {e}")
    return {"viol": viol, "sig": cfgx.sig([expected, case["mode"]]), "nontrivial": bool(expected),
            "n": max(1, len(trace)), "outcome": got[:12]}


def _classify(got, exp):
    if sorted(got) == sorted(exp):
        return "order"
    if set(got) - set(exp):
        return "extra-call"
    if len(got) > len(exp):
        return "duplicate-call"
    return "missing-call"


def _run_calibration_fitness(det, pipe):
    """The real calibration problem (wired by the real run_calibration); its fitness for two candidates."""
    import tempfile
    from pathlib import Path

    from pyxel.observation import ParameterValues
    from pyxel.pipelines import Processor

    from vp import calib

    with tempfile.TemporaryDirectory(prefix="vp_c01_") as td:
        tgt = Path(td) / "target.npy"
        np.save(tgt, np.zeros((2, 3)))
        cal = calib.calibration([tgt], [ParameterValues(key="detector.characteristics.quantum_efficiency", values="_",
                                                        boundaries=(0.1, 0.9))], pygmo_seed=1)
        proc = Processor(detector=det, pipeline=pipe)
        problem, _ = calib.real_problem(cal, proc)
        probes.reset()
        for dv in ([0.2], [0.7]):
            problem.fitness(np.array(dv))
    return 2


cfgx.install(__import__("sys").modules[__name__])
