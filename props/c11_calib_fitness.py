"""C11 - calibration fitness is the declared figure of merit on the declared data.

Bounded exhaustive enumeration (vp.cfgx) on a 4x5 detector with a probe model whose output is a known
function of its arguments:
  fam "range": (result range, target range) pairs - accepted iff equal extents in every dimension and the
               target range lies inside the target; rejection must happen before any model call; on
               acceptance fitness(dv) must equal an independent numpy evaluation;
  fam "fit"  : fitness function x number of targets (with result_input_arguments) x weights (none, scalar
               per target, weight files) x 2-D / multi-readout 3-D targets x range kind; fitness(dv)
               compared with the independent evaluation for 5 decision vectors;
  fam "run"  : real archipelago runs: champion fitness never gets worse over evolutions, the reported
               fitness is the fitness of the reported parameters, a standalone exposure with those
               parameters reproduces /simulated and /full_size after .compute().
"""
from __future__ import annotations

import itertools
import os
import shutil
import tempfile
from pathlib import Path

import numpy as np

from vp import calib, cfgx, mk

ID = "C11"
LEVEL = "exploration"
ENGINE = "cfgx"
TIMEOUT = 1500
TECHNIQUE = ("bounded exhaustive enumeration of fit-range pairs (all row / column / readout sub-range pairs of a 4x5 "
             "detector, targets smaller and larger than the detector), of fitness configurations (3 functions x 1-3 "
             "targets with input arguments x weights none/scalar/file x 2-D/3-D targets x range kinds) and of archipelago "
             "runs, on the real fitting problem with a probe model of known output, compared with an independent numpy "
             "evaluation")
LEVEL_TEXT = ("Every (result range, target range) pair of the bounded families is given to the real run_calibration; the "
              "oracle accepts iff the extents are equal in every dimension and the target range lies inside the target, "
              "and a rejection must precede any model call. For every accepted configuration and for every member of the "
              "fitness-configuration product the real problem's fitness(dv) is compared for 5 decision vectors with "
              "sum_i f(sim_i[result range], target_i[target range], w_i) computed by numpy from the probe's known output. "
              "Real optimisations (sade, sga, nlopt x seeds x islands x 1-2 targets, 3 evolutions) are checked for "
              "monotone champions, for fitness == fitness of reported parameters, and for /simulated and /full_size "
              "against a standalone exposure run with the reported parameters.")
LEVEL_NOTE = ("Bounded: detector 4x5, <= 3 readouts, <= 3 targets, contiguous ranges with start < stop, populations of 8. "
              "Trusted: numpy, the probe's closed-form output, pygmo's champion bookkeeping. Relative tolerance 1e-10 on "
              "fitness sums (summation order).")
DESIGN_REF = "DESIGN.md section 4, C11"
RULE = ("cases = range family (row pairs 10x10, column pairs 15x15, target-size and detector-size overruns, readout-range "
        "pairs) + fitness family (function x targets x weights x dims x range kind) + run family (algorithm x seed x "
        "islands x targets); non-trivial = at least one fitness value compared or a rejection decided; distinct = "
        "distinct outcomes: (reject, reason class, observed decision) for invalid pairs, the vector of expected fitness "
        "values for accepted configurations, the configuration for runs")
NSHARDS = 64
ASSUMPTIONS = [
    "a probe model with closed-form output stands in for a real pipeline",
    "a 4-value range on a multi-readout target means: all readouts",
    "weight files are aligned with the target files: they are sliced with the target fit range in the single-readout and in the time-domain path alike (also checked with shifted result/target ranges)",
    "ranges are contiguous with 0 <= start < stop (negative / reversed / stepped ranges are not enumerated)",
]

ROWS, COLS = 4, 5
CALLS = [0]
FUNCS = ("sum_of_abs_residuals", "sum_of_squared_residuals", "reduced_chi_squared")
RTOL = 1e-10


# ---------------------------------------------------------------- probe model and its closed form

def probe(detector, a=1.0, b=0.0, c=0.0, noise=0.0):
    CALLS[0] += 1
    step = int(detector.pipeline_count)
    pix = sim_pixel(float(a), float(b), step, float(c))
    if noise:
        # a stochastic model WITHOUT a seed of its own: reproducible only through the pipeline seed
        pix = pix + float(noise) * np.random.normal(0.0, 1.0, size=pix.shape)
    detector.photon.array = np.abs(pix) + 0.5
    detector.pixel.array = pix
    detector.signal.array = 2.0 * pix + 1.0
    detector.image.array = (np.abs(np.rint(pix)) % 60000).astype(np.uint16)


def sim_pixel(a, b, step, c=0.0):
    yy, xx = np.mgrid[0:ROWS, 0:COLS]
    return a * (1.0 + yy * COLS + xx) + b + 100.0 * step + c * (yy - 2.0 * xx)


def sim_cube(a, b, nsteps, result_type, c=0.0):
    cube = np.stack([sim_pixel(a, b, s, c) for s in range(nsteps)])
    return 2.0 * cube + 1.0 if result_type == "signal" else cube


def target_array(i, shape, seed):
    """distinct, non-symmetric target values; 2-D (rows, cols) or 3-D (frames, rows, cols)."""
    n = int(np.prod(shape))
    base = (np.arange(n, dtype=float) * 3.0 + 7.0 * i + 0.25 * (seed % 5)).reshape(shape)
    return base + (np.arange(n).reshape(shape) % 3) * 1.5


def weight_array(i, shape, seed):
    n = int(np.prod(shape))
    return 0.5 + ((np.arange(n) * (i + 2) + seed) % 7).astype(float).reshape(shape) / 4.0


def ref_fitness(func, sim, tgt, w, free_parameters=1):
    diff = tgt - sim
    if func == "sum_of_abs_residuals":
        return float(np.nansum(np.abs(diff * w)))
    if func == "sum_of_squared_residuals":
        return float(np.nansum(diff * diff * w))
    return float(np.nansum(np.square(diff / w))) / float(np.isfinite(diff).sum() - free_parameters)


# ---------------------------------------------------------------- range arithmetic (reference)

def subranges(n):
    return [(a, b) for a in range(n) for b in range(a + 1, n + 1)]


def norm_range(rng, nt):
    """(t0, t1, y0, y1, x0, x1) from a 4- or 6-value range; 4 values = all `nt` readouts."""
    rng = list(rng)
    return (0, nt, *rng) if len(rng) == 4 else tuple(rng)


def classify(res_rng, tgt_rng, det_shape3, tgt_shape3):
    """Reference decision: ("accept", None) or ("reject", why)."""
    r = norm_range(res_rng, det_shape3[0])
    t = norm_range(tgt_rng, tgt_shape3[0])
    dims = ("time", "y", "x")
    for d in range(3):
        if t[2 * d + 1] > tgt_shape3[d]:
            return "reject", f"target-out-of-bounds-{dims[d]}"
    either = False
    for d in range(3):
        r_ext = min(r[2 * d + 1], det_shape3[d]) - r[2 * d]
        t_ext = t[2 * d + 1] - t[2 * d]
        if r[2 * d + 1] > det_shape3[d]:
            if r_ext != t_ext:
                return "reject", f"result-exceeds-detector-{dims[d]}"
            either = True           # the selected regions have equal extent, the declared ones do not: not decided
            continue
        if r_ext != t_ext:
            same_stop = r[2 * d + 1] == t[2 * d + 1]
            return "reject", f"unequal-extent-{'equal' if same_stop else 'different'}-stop-{dims[d]}"
    if either:
        return "either", None
    return "accept", None


def valid_why(res_rng, tgt_rng):
    """Class of a *valid* pair (for narrow keys when it is wrongly rejected): are the two regions at different
    positions, and is the target range given with 4 or 6 values."""
    shifted = list(res_rng)[-4:] != list(tgt_rng)[-4:] or (len(res_rng) == len(tgt_rng) == 6 and list(res_rng) != list(tgt_rng))
    return {"shifted": bool(shifted), "target_range_values": len(tgt_rng)}


# ---------------------------------------------------------------- enumeration

def enumerate_cases(tier, seed):
    thorough = tier == "thorough"
    cases = []
    full_r, full_c = (0, ROWS), (0, COLS)
    # rows: all 10 x 10 pairs, one column setting
    for rr in subranges(ROWS):
        for tr in subranges(ROWS):
            cases.append({"fam": "range", "sub": "rows", "res": [*rr, 1, 4], "tgt": [*tr, 1, 4], "tshape": [ROWS, COLS]})
    # columns: all 15 x 15 pairs, one row setting
    if thorough:
        for rc in subranges(COLS):
            for tc in subranges(COLS):
                cases.append({"fam": "range", "sub": "cols", "res": [0, 3, *rc], "tgt": [0, 3, *tc], "tshape": [ROWS, COLS]})
    else:
        for rc in subranges(COLS):
            for tc in subranges(COLS):
                if rc[0] in (0, 2) and tc[0] in (0, 1):
                    cases.append({"fam": "range", "sub": "cols", "res": [0, 3, *rc], "tgt": [0, 3, *tc],
                                  "tshape": [ROWS, COLS]})
    # targets smaller / larger than the detector: target ranges up to 2 beyond the target, result range fixed
    for tshape in ([3, 4], [6, 7]) if thorough else ([3, 4],):
        for tr in subranges(tshape[0] + 2):
            cases.append({"fam": "range", "sub": "tsize-rows", "res": [1, 3, 0, 3], "tgt": [*tr, 0, 3], "tshape": tshape})
        for tc in subranges(tshape[1] + 2):
            cases.append({"fam": "range", "sub": "tsize-cols", "res": [1, 3, 0, 3], "tgt": [0, 2, *tc], "tshape": tshape})
    # result ranges exceeding the detector (target 6x7 large enough)
    for rr in subranges(ROWS + 2):
        if rr[1] > ROWS or thorough:
            for tr in dict.fromkeys([(rr[0], rr[1]), (0, rr[1] - rr[0])]):
                cases.append({"fam": "range", "sub": "rsize-rows", "res": [*rr, 0, 3], "tgt": [*tr, 0, 3], "tshape": [6, 7]})
    # readout ranges: 3 readouts; target cubes with 3 (quick) and 2, 4 frames (thorough)
    for nframes in (3, 2, 4):
        res_opts = [None] + subranges(3) + [(0, 4), (2, 4)]
        tgt_opts = [None] + subranges(nframes) + [(0, nframes + 1)]
        if not thorough and nframes != 3:
            # quick: target cubes with another number of frames than there are readouts, open / full / overshooting ranges
            res_opts, tgt_opts = [None, (0, 3), (0, 4)], [None, (0, nframes)]
        for rt in res_opts:
            for tt in tgt_opts:
                res = [1, 3, 0, 5] if rt is None else [*rt, 1, 3, 0, 5]
                tgt = [1, 3, 0, 5] if tt is None else [*tt, 1, 3, 0, 5]
                cases.append({"fam": "range", "sub": "time", "res": res, "tgt": tgt, "tshape": [nframes, ROWS, COLS],
                              "times": 3})
    # the same range pairs assigned through the attributes of an existing Calibration (built with other, valid ranges)
    nrange = len(cases)
    for i in range(nrange):
        if thorough or i % 2 == 0:
            cases.append(dict(cases[i], via="setter"))
    # fitness configurations
    for func in FUNCS:
        for ntargets in (1, 2, 3):
            for weights in ("none", "scalar", "file"):
                for dims in (2, 3):
                    for rk in ("full", "sub", "shifted", "time-sub"):
                        if rk == "time-sub" and dims == 2:
                            continue
                        # shifted ranges x weight files: the weight files are aligned with the *target* files (both the
                        # single-readout and the time-domain path slice them with the target range) - see ASSUMPTIONS
                        cases.append({"fam": "fit", "func": func, "ntargets": ntargets, "weights": weights, "dims": dims,
                                      "range": rk, "rtype": ("pixel", "signal")[(ntargets + dims + len(rk)) % 2]})
    # target frames stored as integers (int32 / uint16 .npy files) next to fractional weights
    for func in FUNCS:
        for weights in ("none", "scalar", "file"):
            for dims, tdtype in ((2, "int32"), (3, "uint16"), (2, "uint16")):
                cases.append({"fam": "fit", "func": func, "ntargets": 2, "weights": weights, "dims": dims,
                              "range": "sub", "rtype": "pixel", "tdtype": tdtype})
    # target frames with masked (NaN) pixels inside the fitted region
    for func in FUNCS:
        for weights in ("none", "scalar"):
            for dims in (2, 3):
                cases.append({"fam": "fit", "func": func, "ntargets": 2, "weights": weights, "dims": dims,
                              "range": "sub", "rtype": "pixel", "tmask": True})
    # input arguments: the same value for two consecutive targets
    for func in FUNCS:
        for ntargets in (2, 3):
            cases.append({"fam": "fit", "func": func, "ntargets": ntargets, "weights": "none", "dims": 2, "range": "full",
                          "rtype": "pixel", "bdup": True})
    # histories: a second calibration in the same process, target / weight files REWRITTEN under the same names
    for dims in (2, 3):
        for weights in ("none", "file"):
            for ntargets in (1, 2):
                cases.append({"fam": "hist", "dims": dims, "weights": weights, "ntargets": ntargets, "func": FUNCS[dims % 2]})
    # archipelago runs (multi-readout: 6-value result range + 4-value target range; one 4-value/4-value case)
    algos = ("sade", "sga", "nlopt")
    for u, algo in enumerate(algos):
        for ps in (1, 2):
            for isl in (1, 2):
                for ntargets in (1, 2):
                    for npar in (1, 2):
                        if not thorough and (ps + isl + ntargets + npar + u) % 2:
                            continue
                        for dims in (2, 3):
                            if dims == 3 and not (thorough or isl == 1):
                                continue
                            cases.append({"fam": "run", "algo": algo, "pygmo_seed": ps, "islands": isl, "ntargets": ntargets,
                                          "dims": dims, "func": FUNCS[(u + ps) % 2], "sub": bool((ps + isl) % 2),
                                          "npar": npar, "r3": "6+4"})
    cases.append({"fam": "run", "algo": "sade", "pygmo_seed": 1, "islands": 1, "ntargets": 1, "dims": 3, "func": FUNCS[0],
                  "sub": False, "npar": 2, "r3": "4+4"})
    # non-elitist settings: the local optimiser starts from the worst / a random individual (the population's best may
    # get worse from one evolution to the next; the reported champion may not)
    for sel in ("worst", "random"):
        for ps in (1, 2):
            cases.append({"fam": "run", "algo": "nlopt", "pygmo_seed": ps, "islands": 1 + ps % 2, "ntargets": 1, "dims": 2,
                          "func": FUNCS[0], "sub": False, "npar": 2, "r3": "6+4", "nlopt_selection": sel, "evolutions": 5})
    for dims in (2, 3):         # result and target regions of equal extent at different positions
        cases.append({"fam": "run", "algo": "sade", "pygmo_seed": 2, "islands": 2, "ntargets": 2, "dims": dims,
                      "func": FUNCS[1], "sub": "shifted", "npar": 2, "r3": "6+4"})
    # stochastic pipeline (a noise model without its own seed) under a pipeline seed, 2-3 target / input pairs: the
    # reported fitness and the returned simulated data must be reproduced by seeded standalone exposures
    for ntargets in (2, 3):
        for func in FUNCS[:2]:
            for isl in (1, 2):
                cases.append({"fam": "stoch", "ntargets": ntargets, "func": func, "islands": isl, "pipeline_seed": 5 + ntargets})
    return cases


def expected_size(tier, seed):
    """closed form of the enumeration above"""
    def nsub(n):
        return n * (n + 1) // 2

    thorough = tier == "thorough"
    rows = nsub(ROWS) ** 2
    cols = nsub(COLS) ** 2 if thorough else (5 + 3) * (5 + 4)        # result ranges starting at 0/2, target ranges at 0/1
    tsize = sum(nsub(r + 2) + nsub(c + 2) for r, c in (((3, 4), (6, 7)) if thorough else ((3, 4),)))
    over = [(a, b) for a, b in subranges(ROWS + 2) if b > ROWS or thorough]
    rsize = sum(1 if a == 0 else 2 for a, b in over)
    time = sum((1 + nsub(3) + 2) * (1 + nsub(nf) + 1) for nf in ((3, 2, 4) if thorough else (3,)))
    if not thorough:
        time += 2 * 3 * 2
    fit = len(FUNCS) * 3 * ((3 + 4) + (3 + 4) + (3 + 4)) + len(FUNCS) * 2 + len(FUNCS) * 3 * 3 + len(FUNCS) * 2 * 2
    combos = 3 * 2 * 2 * 2 * 2
    runs = (combos * 2 if thorough else combos // 2 + combos // 4) + 1 + 2 + 4
    nrange = rows + cols + tsize + rsize + time
    return nrange + (nrange if thorough else (nrange + 1) // 2) + fit + runs + 8 + 8


# ---------------------------------------------------------------- construction

def build(td, seed, *, res, tgt, tshape, times=None, func="sum_of_abs_residuals", ntargets=1, weights="none",
          rtype="pixel", algo="sade", npar=1, content_seed=None, **calkw):
    from pyxel.calibration import Algorithm, Calibration
    from pyxel.exposure import Readout
    from pyxel.observation import ParameterValues
    from pyxel.pipelines import FitnessFunction, Processor

    td = Path(td)
    targets, tfiles, wfiles, wvals = [], [], [], []
    cs = seed if content_seed is None else content_seed      # file NAMES depend on `seed`, file CONTENT on `cs`
    tdtype = calkw.pop("tdtype", None)
    tmask = calkw.pop("tmask", False)
    for i in range(ntargets):
        arr = target_array(i, tuple(tshape), cs)
        if tmask:
            # masked pixels (NaN) in the target frames, inside the fitted region: they take no part in the figure of merit
            arr[..., 1, 2] = np.nan
            arr[..., 2, 4 - i % 2] = np.nan
        p = td / f"target{i}_{seed}.npy"
        if tdtype:
            # target frames stored with an integer type (raw ADU frames): the fitness is computed on their values
            stored = np.round(arr).astype(tdtype)
            np.save(p, stored)
            arr = stored.astype(float)
        else:
            np.save(p, arr)
        targets.append(arr)
        tfiles.append(p)
        if weights == "file":
            w = weight_array(i, tuple(tshape), cs)
            pw = td / f"weight{i}_{seed}.npy"
            np.save(pw, w)
            wfiles.append(pw)
            wvals.append(w)
        elif weights == "scalar":
            wvals.append(1.5 + i + 0.25 * (seed % 3))
    bvals = [2.0 * i + 0.5 for i in range(ntargets)]
    if calkw.pop("bdup", False) and ntargets > 1:
        bvals[1] = bvals[0]            # two consecutive targets with the SAME input value (other than the pipeline's own)
    det = mk.detector("ccd", ROWS, COLS)
    pipe = mk.pipeline({"charge_collection": [("props.c11_calib_fitness.probe", "pm",
                                               {"a": 1.0, "b": 0.0, "c": 0.0, "noise": calkw.pop("noise", 0.0)})]})
    params = [ParameterValues(key="pipeline.charge_collection.pm.arguments.a", values="_", boundaries=(0.5, 8.0))]
    if npar == 2:
        params.append(ParameterValues(key="pipeline.charge_collection.pm.arguments.c", values="_", boundaries=(0.0, 2.0)))
    kw = dict(calkw)
    if ntargets > 1 or kw.pop("force_input", False):
        kw["result_input_arguments"] = [ParameterValues(key="pipeline.charge_collection.pm.arguments.b", values=list(bvals))]
    else:
        bvals = [0.0]
    if weights == "file":
        kw["weights_from_file"] = wfiles
    elif weights == "scalar":
        kw["weights"] = list(wvals)
    fargs = {"free_parameters": 1} if func == "reduced_chi_squared" else None
    gen = kw.pop("generations", 1)
    algokw = {"maxeval": 10} if algo == "nlopt" else {}
    if kw.get("nlopt_selection"):
        algokw.update(nlopt_selection=kw.pop("nlopt_selection"), replacement="best", maxeval=3)
    kw.pop("nlopt_selection", None)
    cal = Calibration(
        target_data_path=tfiles,
        fitness_function=FitnessFunction(func=f"pyxel.calibration.fitness.{func}", arguments=fargs),
        algorithm=Algorithm(type=algo, generations=gen, population_size=8, **algokw),
        parameters=params,
        result_type=rtype,
        result_fit_range=tuple(res),
        target_fit_range=tuple(tgt),
        readout=Readout(times=[float(t + 1) for t in range(times)]) if times else None,
        **kw,
    )
    return cal, Processor(detector=det, pipeline=pipe), {"targets": targets, "weights": wvals, "b": bvals}


def expected_fitness(a, info, res, tgt, nsteps, func, rtype, weights, c=0.0):
    r = norm_range(res, nsteps)
    tot = 0.0
    for i, T in enumerate(info["targets"]):
        T3 = T if T.ndim == 3 else T[None]
        t = norm_range(tgt, T3.shape[0])
        sim = sim_cube(a, info["b"][i], nsteps, rtype, c)[r[0]:r[1], r[2]:r[3], r[4]:r[5]]
        tg = T3[t[0]:t[1], t[2]:t[3], t[4]:t[5]]
        if weights == "none":
            w = np.ones_like(tg)
        elif weights == "scalar":
            w = np.full_like(tg, info["weights"][i])
        else:
            W = info["weights"][i]
            W3 = W if W.ndim == 3 else W[None]
            w = W3[t[0]:t[1], t[2]:t[3], t[4]:t[5]]
        tot += ref_fitness(func, sim, tg, w)
    return tot


DVS = (0.5, 1.0, 2.75, 4.0, 8.0)


def feq(a, b, rtol=RTOL):
    return bool(np.isfinite(a) and abs(a - b) <= rtol * max(abs(a), abs(b)) + 1e-12)


def run_case(case):
    seed = int(os.environ.get("VERIF_SEED", "0") or 0)
    td = tempfile.mkdtemp(prefix="vp_c11_")
    try:
        if case["fam"] == "run":
            return _run_optim(case, seed, td)
        if case["fam"] == "hist":
            return _run_history(case, seed, td)
        if case["fam"] == "stoch":
            return _run_stoch(case, seed, td)
        return _run_problem(case, seed, td)
    finally:
        shutil.rmtree(td, ignore_errors=True)


def _run_history(case, seed, td):
    """two calibrations in one process on the same file names; the files are rewritten in between: each problem must
    fit the content its files hold when it is built"""
    viol = []
    times = 3 if case["dims"] == 3 else None
    tshape = [3, ROWS, COLS] if times else [ROWS, COLS]
    res = [0, ROWS, 0, COLS] if not times else [0, 3, 0, ROWS, 0, COLS]
    tgt = [0, ROWS, 0, COLS]
    nsteps = times or 1
    values = []
    for phase, cs in (("first", seed), ("second", seed + 11)):
        try:
            cal, proc, info = build(td, seed, res=res, tgt=tgt, tshape=tshape, times=times, func=case["func"],
                                    ntargets=case["ntargets"], weights=case["weights"], content_seed=cs, pygmo_seed=1)
            problem, _ = calib.real_problem(cal, proc)
            for a in (1.0, 2.75):
                want = expected_fitness(a, info, res, tgt, nsteps, case["func"], "pixel", case["weights"])
                got = float(np.ravel(problem.fitness(np.array([a])))[0])
                values.append(round(want, 9))
                if not feq(got, want):
                    stale = ""
                    if phase == "second":
                        old = dict(info, targets=[target_array(i, tuple(tshape), seed) for i in range(case["ntargets"])])
                        if case["weights"] == "file":
                            old["weights"] = [weight_array(i, tuple(tshape), seed) for i in range(case["ntargets"])]
                        if feq(got, expected_fitness(a, old, res, tgt, nsteps, case["func"], "pixel", case["weights"])):
                            stale = " (it equals the value for the files' PREVIOUS content)"
                    viol.append(({"fam": "hist", "code": "stale-files" if stale else "fitness-value", "phase": phase,
                                  "weights": case["weights"], "dims": case["dims"]},
                                 f"history {case}: {phase} calibration: fitness([{a}]) = {got!r}, the independent "
                                 f"evaluation on the files' current content gives {want!r}{stale}"))
                    break
        except Exception as e:  # noqa: BLE001
            viol.append(({"fam": "hist", "code": "raised", "phase": phase}, f"history {case}: {phase} calibration raised "
                         f"{type(e).__name__}: {str(e)[:200]}"))
        if viol:
            break
    return {"viol": viol, "sig": cfgx.sig(["hist", case, values]), "nontrivial": len(values) >= 4, "n": max(1, len(values)),
            "outcome": {"fitness": values[:4]}}


def _fit_ranges(case):
    rk, dims = case["range"], case["dims"]
    if rk == "full":
        return [0, ROWS, 0, COLS], [0, ROWS, 0, COLS]
    if rk == "sub":
        return [1, 3, 2, 5], [1, 3, 2, 5]
    if rk == "shifted":
        return [0, 2, 1, 4], [2, 4, 2, 5]
    return [1, 3, 1, 3, 2, 5], [1, 3, 1, 3, 2, 5]          # time-sub


def _run_problem(case, seed, td):
    fam = case["fam"]
    viol = []
    if fam == "range":
        res, tgt, tshape = case["res"], case["tgt"], case["tshape"]
        times = case.get("times")
        func, ntargets, weights, rtype = "sum_of_abs_residuals", 1, "none", "pixel"
        label = f"range[{case['sub']}] result {res} target {tgt} target shape {tshape}"
    else:
        res, tgt = _fit_ranges(case)
        times = 3 if case["dims"] == 3 else None
        tshape = [3, ROWS, COLS] if times else [ROWS, COLS]
        func, ntargets, weights, rtype = case["func"], case["ntargets"], case["weights"], case["rtype"]
        label = (f"fit {func} targets={ntargets} weights={weights} dims={case['dims']} result_type={rtype} "
                 f"result range {res} target range {tgt}")
    nsteps = times or 1
    tshape3 = tshape if len(tshape) == 3 else [1, *tshape]
    decision, why = classify(res, tgt, [nsteps, ROWS, COLS], tshape3)

    def bad(code, what, **extra):
        key = {"fam": fam, "code": code}
        if case.get("via"):
            key["via"] = case["via"]
        key.update(extra)
        viol.append((key, f"{label}{' (ranges assigned through the attributes)' if case.get('via') else ''}: {what}"))

    CALLS[0] = 0
    problem, exc = None, None
    try:
        if case.get("via") == "setter":
            first = [0, 1, 0, 1] if len(res) == 4 else [0, 1, 0, 1, 0, 1]
            first_t = [0, 1, 0, 1] if len(tgt) == 4 else [0, 1, 0, 1, 0, 1]
            cal, proc, info = build(td, seed, res=first, tgt=first_t, tshape=tshape, times=times, func=func,
                                    ntargets=ntargets, weights=weights, rtype=rtype, pygmo_seed=1)
            cal.result_fit_range = tuple(res)
            cal.target_fit_range = tuple(tgt)
        else:
            cal, proc, info = build(td, seed, res=res, tgt=tgt, tshape=tshape, times=times, func=func, ntargets=ntargets,
                                    weights=weights, rtype=rtype, pygmo_seed=1, bdup=bool(case.get("bdup")),
                                    tdtype=case.get("tdtype"), tmask=bool(case.get("tmask")))
        problem, _ = calib.real_problem(cal, proc)
    except Exception as e:  # noqa: BLE001
        exc = e
    calls_at_construction = CALLS[0]
    sig_base = [fam, decision, why, case.get("via"), case.get("bdup")]
    if decision == "either":
        return {"viol": viol, "sig": cfgx.sig(sig_base), "nontrivial": False, "n": 1, "outcome": {"decision": "either"}}
    if decision == "reject":
        if exc is not None:
            if calls_at_construction:
                bad("rejected-late", f"rejected ({type(exc).__name__}) only after {calls_at_construction} model call(s)", why=why)
            return {"viol": viol, "sig": cfgx.sig(sig_base + [exc is not None]), "nontrivial": True, "n": 1,
                    "outcome": {"decision": "reject", "why": why}}
        # accepted although invalid: does it at least fail at the first evaluation?
        late = None
        try:
            f = problem.fitness(np.array([2.0]))
            late = f"fitness([2.0]) returned {np.ravel(f).tolist()}"
        except Exception as e2:  # noqa: BLE001
            late = f"the first fitness evaluation then raised {type(e2).__name__}"
        bad("invalid-accepted", f"invalid range pair ({why}) was accepted at construction; {late}", why=why)
        return {"viol": viol, "sig": cfgx.sig(sig_base + [exc is not None]), "nontrivial": True, "n": 1,
                "outcome": {"decision": "reject", "why": why}}
    # valid configuration
    if exc is not None:
        bad("valid-rejected", f"valid configuration rejected with {type(exc).__name__}: {str(exc)[:200]}",
            dims=3 if times else 2, **valid_why(res, tgt))
        return {"viol": viol, "sig": cfgx.sig(sig_base + ["rejected", valid_why(res, tgt)]), "nontrivial": True, "n": 1,
                "outcome": {"decision": "accept"}}
    if calls_at_construction:
        pass        # running the model while constructing is not forbidden by the statement
    values = []
    for a in DVS:
        want = expected_fitness(a, info, res, tgt, nsteps, func, rtype, weights)
        CALLS[0] = 0
        try:
            got = float(np.ravel(problem.fitness(np.array([a])))[0])
        except Exception as e:  # noqa: BLE001
            bad("fitness-raised", f"fitness([{a}]) raised {type(e).__name__}: {str(e)[:200]}", weights=weights,
                dims=3 if times else 2, func=func, range=case.get("range", case.get("sub")))
            break
        values.append(want)
        if not feq(got, want):
            code, alt = "fitness-value", ""
            if weights != "none":
                unw = expected_fitness(a, info, res, tgt, nsteps, func, rtype, "none")
                if feq(got, unw):
                    code, alt = "weights-ignored", " (equals the un-weighted value)"
            if ntargets > 1 and code == "fitness-value":
                rev = dict(info, b=info["b"][::-1])
                if feq(got, expected_fitness(a, rev, res, tgt, nsteps, func, rtype, weights)):
                    code, alt = "targets-mispaired", " (equals the value with input arguments paired in reverse order)"
            bad(code, f"fitness([{a}]) = {got!r} but the independent evaluation gives {want!r}{alt}", weights=weights,
                dims=3 if times else 2)
            break
    return {"viol": viol, "sig": cfgx.sig(sig_base + [[round(v, 9) for v in values]]), "nontrivial": bool(values),
            "n": max(1, len(values)), "outcome": {"decision": "accept", "fitness": values[:2]}}


# ---------------------------------------------------------------- archipelago runs

def _run_stoch(case, seed, td):
    import pyxel

    ntargets, func, isl, pseed = int(case["ntargets"]), case["func"], int(case["islands"]), int(case["pipeline_seed"]) + seed % 5
    res = tgt = [0, ROWS, 0, COLS]
    noise = 3.0
    viol = []
    label = f"stochastic pipeline, pipeline_seed={pseed}, targets={ntargets}, islands={isl}, {func}"

    def bad(code, what, **extra):
        key = {"fam": "stoch", "code": code}
        key.update(extra)
        viol.append((key, f"{label}: {what}"))

    sig = cfgx.sig(["stoch", ntargets, func, isl])

    def resim(a, b):
        det = mk.detector("ccd", ROWS, COLS)
        pipe = mk.pipeline({"charge_collection": [("props.c11_calib_fitness.probe", "pm",
                                                   {"a": float(a), "b": float(b), "c": 0.0, "noise": noise})]})
        out = pyxel.run_mode(mk.exposure([1.0], pipeline_seed=pseed), det, pipe, with_inherited_coords=True)
        return np.asarray(out["/bucket/pixel"].values, dtype=float)

    def ref_total(a, info):
        tot, sims = 0.0, []
        for i, T in enumerate(info["targets"]):
            sim = resim(a, info["b"][i])
            sims.append(sim)
            tot += ref_fitness(func, sim, T[None], np.ones_like(T[None]))
        return tot, sims

    try:
        cal, proc, info = build(td, seed, res=res, tgt=tgt, tshape=[ROWS, COLS], func=func, ntargets=ntargets, weights="none",
                                rtype="pixel", algo="sade", npar=1, pygmo_seed=3 + seed % 5, pipeline_seed=pseed, noise=noise)
        problem, _ = calib.real_problem(cal, proc)
        n = 0
        # (1) non-vacuity: the pipeline really is stochastic (another seed gives other data)
        if np.array_equal(resim(2.0, 0.5), sim_pixel(2.0, 0.5, 0)[None]):
            raise RuntimeError("harness: the noise model has no effect")
        # (2) candidates: fitness(x) == figure of merit of the seeded re-simulations, whatever was evaluated before
        for a in (1.0, 4.0, 2.75, 1.0):
            got = float(problem.fitness(np.array([a]))[0])
            want, _ = ref_total(a, info)
            n += 1
            if not feq(got, want, 1e-9):
                bad("fitness-not-reproduced", f"fitness([{a}]) = {got!r} but seeded re-simulations of the {ntargets} target/input "
                    f"pairs give {want!r}")
                break
        # (3) a small optimisation: champion fitness / returned simulated data versus re-simulation
        cal, proc, info = build(td, seed, res=res, tgt=tgt, tshape=[ROWS, COLS], func=func, ntargets=ntargets, weights="none",
                                rtype="pixel", algo="sade", npar=1, pygmo_seed=3 + seed % 5, pipeline_seed=pseed, noise=noise,
                                num_islands=isl, num_evolutions=2, num_best_decisions=2)
        result = pyxel.run_mode(cal, proc.detector, proc.pipeline, with_inherited_coords=True)
        fit = np.asarray(result["/champion/fitness"].transpose("island", "evolution").values, dtype=float)
        par = np.asarray(result["/champion/parameters"].transpose("island", "evolution", "param_id").values, dtype=float)
        for i in range(isl):
            a = float(par[i, -1, 0])
            want, sims = ref_total(a, info)
            n += 1
            if not feq(fit[i, -1], want, 1e-9):
                bad("champion-fitness-not-reproduced", f"island {i}: reported champion fitness {fit[i, -1]!r} for parameters "
                    f"[{a!r}], the seeded re-simulation gives {want!r}")
            for pidx in range(ntargets):
                got = np.asarray(result["/simulated/pixel"].isel(island=i, processor=pidx).compute()
                                 .transpose("readout_time", "y", "x").values, dtype=float)
                n += 1
                if not np.array_equal(got, sims[pidx]):
                    bad("simulated-data-not-reproduced", f"island {i} processor {pidx}: /simulated/pixel differs from the seeded "
                        f"re-simulation of the champion (max abs difference {float(np.max(np.abs(got - sims[pidx])))!r})")
                    break
    except Exception as e:  # noqa: BLE001
        if isinstance(e, RuntimeError) and str(e).startswith("harness"):
            raise
        bad("run-raised", f"raised {type(e).__name__}: {str(e)[:300]}")
        return {"viol": viol, "sig": sig, "nontrivial": False}
    return {"viol": viol, "sig": sig, "nontrivial": True, "n": n, "outcome": {"champion": [float(x) for x in fit[:, -1]]}}


def _exposure(a, b, nsteps, c=0.0):
    """standalone exposure with the probe model at (a, b): dict bucket -> (time, y, x) float array"""
    import pyxel

    det = mk.detector("ccd", ROWS, COLS)
    pipe = mk.pipeline({"charge_collection": [("props.c11_calib_fitness.probe", "pm", {"a": float(a), "b": float(b), "c": float(c)})]})
    expo = mk.exposure([float(t + 1) for t in range(nsteps)])
    out = pyxel.run_mode(expo, det, pipe, with_inherited_coords=True)
    return {k: np.asarray(out[f"/bucket/{k}"].values, dtype=float) for k in ("photon", "pixel", "signal", "image")}


def _run_optim(case, seed, td):
    import pyxel

    algo, isl, ntargets, dims, func = case["algo"], int(case["islands"]), int(case["ntargets"]), case["dims"], case["func"]
    pygmo_seed = int(case["pygmo_seed"]) + 10 * (seed % 7)
    times = 3 if dims == 3 else None
    nsteps = times or 1
    tshape = [3, ROWS, COLS] if times else [ROWS, COLS]
    res = tgt = [1, 4, 0, 4] if case["sub"] else [0, ROWS, 0, COLS]
    if case["sub"] == "shifted":
        res, tgt = [0, 2, 1, 4], [2, 4, 2, 5]
    if dims == 3 and case["r3"] == "6+4":
        res = [0, 3, *res]
    npar = int(case["npar"])
    rtype = "pixel" if (isl + ntargets) % 2 else "signal"
    nevo = int(case.get("evolutions", 3))
    label = (f"run {algo} pygmo_seed={pygmo_seed} islands={isl} targets={ntargets} calibrated parameters={npar} dims={dims} "
             f"{func} result_type={rtype} result range {res} target range {tgt}")
    viol = []

    def bad(code, what, **extra):
        key = {"fam": "run", "code": code}
        key.update(extra)
        viol.append((key, f"{label}: {what}"))

    sig = cfgx.sig(["run", algo, case["pygmo_seed"], isl, ntargets, dims, func, npar, case["r3"], case["sub"],
                    case.get("nlopt_selection")])
    try:        # a valid configuration must be accepted
        cal, proc, info = build(td, seed, res=res, tgt=tgt, tshape=tshape, times=times, func=func, ntargets=ntargets,
                                weights="none", rtype=rtype, algo=algo, npar=npar, pygmo_seed=pygmo_seed)
        calib.real_problem(cal, proc)
    except Exception as e:  # noqa: BLE001
        bad("valid-rejected", f"valid configuration rejected with {type(e).__name__}: {str(e)[:200]}",
            dims=dims, **valid_why(res, tgt))
        return {"viol": viol, "sig": sig, "nontrivial": True}
    try:
        cal, proc, info = build(td, seed, res=res, tgt=tgt, tshape=tshape, times=times, func=func, ntargets=ntargets,
                                weights="none", rtype=rtype, algo=algo, npar=npar, pygmo_seed=pygmo_seed, num_islands=isl,
                                num_evolutions=nevo, num_best_decisions=2, generations=2 if algo != "nlopt" else 1,
                                nlopt_selection=case.get("nlopt_selection"))
        result = pyxel.run_mode(cal, proc.detector, proc.pipeline, with_inherited_coords=True)
        fit = np.asarray(result["/champion/fitness"].transpose("island", "evolution").values, dtype=float)
        par = np.asarray(result["/champion/parameters"].transpose("island", "evolution", "param_id").values, dtype=float)
    except Exception as e:  # noqa: BLE001
        bad("run-raised", f"raised {type(e).__name__}: {str(e)[:300]}", dims=dims, ranges=case["r3"] if dims == 3 else "4+4")
        return {"viol": viol, "sig": sig, "nontrivial": False}
    n = 0

    def cpar(v):
        return float(v[1]) if npar == 2 else 0.0

    if fit.shape != (isl, nevo):
        bad("result-shape", f"/champion/fitness has shape {fit.shape}, expected ({isl}, {nevo})")
        return {"viol": viol, "sig": sig, "nontrivial": False}
    # champions never get worse
    for i in range(isl):
        for e in range(1, nevo):
            if fit[i, e] > fit[i, e - 1]:
                bad("champion-got-worse", f"island {i}: champion fitness after evolution {e} is {fit[i, e]!r} > "
                    f"{fit[i, e - 1]!r} after evolution {e - 1}")
                break
    # reported fitness is the fitness of the reported parameters
    for i in range(isl):
        for e in range(nevo):
            a = float(par[i, e, 0])
            want = expected_fitness(a, info, res, tgt, nsteps, func, rtype, "none", cpar(par[i, e]))
            n += 1
            if not feq(fit[i, e], want, 1e-9):
                other = [j for j in range(isl) if j != i and feq(fit[i, e], expected_fitness(
                    float(par[j, e, 0]), info, res, tgt, nsteps, func, rtype, "none", cpar(par[j, e])), 1e-9)]
                bad("fitness-not-of-parameters", f"island {i} evolution {e}: reported champion fitness {fit[i, e]!r} but "
                    f"the reported parameters {par[i, e].tolist()} have fitness {want!r}"
                    + (f" (it is the fitness of island {other[0]}'s parameters)" if other else ""))
                break
    # best individuals: fitness of their parameters as well
    try:
        bf = np.asarray(result["/best/fitness"].transpose("island", "evolution", "individual").values, dtype=float)
        bp = np.asarray(result["/best/parameters"].transpose("island", "evolution", "individual", "param_id").values, dtype=float)
        done = False
        for i in range(isl):
            for e in range(nevo):
                for k in range(bf.shape[2]):
                    want = expected_fitness(float(bp[i, e, k, 0]), info, res, tgt, nsteps, func, rtype, "none", cpar(bp[i, e, k]))
                    n += 1
                    if not feq(bf[i, e, k], want, 1e-9) and not done:
                        bad("best-fitness-not-of-parameters", f"island {i} evolution {e} individual {k}: reported fitness "
                            f"{bf[i, e, k]!r}, parameters {bp[i, e, k].tolist()} have fitness {want!r}")
                        done = True
                if bf.shape[2] and not feq(bf[i, e, 0], fit[i, e], 1e-9) and bf[i, e, 0] < fit[i, e] and not done:
                    bad("champion-not-best", f"island {i} evolution {e}: champion fitness {fit[i, e]!r} is worse than the "
                        f"best individual {bf[i, e, 0]!r}")
                    done = True
    except Exception as e:  # noqa: BLE001
        bad("result-missing", f"cannot read /best: {type(e).__name__}: {e}")
    # re-simulation of the last champions by a standalone exposure
    r = norm_range(res, nsteps)
    uncomputable = False
    for i in range(isl):
        a, c = float(par[i, -1, 0]), cpar(par[i, -1])
        for p in range(ntargets):
            expo = _exposure(a, info["b"][p], nsteps, c)
            if not np.array_equal(expo["pixel"], sim_cube(a, info["b"][p], nsteps, "pixel", c)):
                raise RuntimeError("harness: the standalone exposure does not reproduce the probe's closed form")
            for grp, names, cut in (("simulated", ("photon", "pixel", "signal", "image"), True),
                                    ("full_size", ("simulated_photon", "simulated_pixel", "simulated_signal",
                                                   "simulated_image"), False)):
                for nm in names:
                    bucket = nm.replace("simulated_", "")
                    want = expo[bucket]
                    if cut:
                        want = want[r[0]:r[1], r[2]:r[3], r[4]:r[5]]
                    try:
                        node = result[f"/{grp}/{nm}"]
                        got = node.isel(island=i, processor=p).compute()
                        got = np.asarray(got.transpose("readout_time", "y", "x").values, dtype=float)
                    except Exception as e:  # noqa: BLE001
                        if not uncomputable:
                            bad("simulated-uncomputable", f"/{grp}/{nm} of island {i} processor {p} cannot be computed: "
                                f"{type(e).__name__}: {str(e)[:200]}", npar=npar)
                        uncomputable = True
                        break
                    n += 1
                    if got.shape != want.shape or not np.array_equal(got, want):
                        bad("simulated-differs", f"/{grp}/{nm} island {i} processor {p} differs from a standalone exposure "
                            f"with the reported champion parameters a={a!r}, c={c!r}, b={info['b'][p]}: got "
                            f"{got.tolist() if got.size <= 20 else got.shape}, expected {want.tolist() if want.size <= 20 else want.shape}",
                            group=grp, bucket=bucket)
                        break
                if uncomputable:
                    break
            if uncomputable:
                break
        if uncomputable:
            break
    # the targets returned with the result
    try:
        for p, T in enumerate(info["targets"]):
            T3 = T if T.ndim == 3 else T[None]
            t = norm_range(tgt, T3.shape[0])
            got_full = np.asarray(result["/full_size/target"].isel(processor=p).values, dtype=float)
            got_cut = np.asarray(result["/simulated/target"].isel(processor=p).values, dtype=float)
            if not np.array_equal(np.squeeze(got_full), np.squeeze(T3)):
                bad("target-differs", f"/full_size/target of processor {p} is not target file {p}", group="full_size", dims=dims)
            if not np.array_equal(np.squeeze(got_cut), np.squeeze(T3[t[0]:t[1], t[2]:t[3], t[4]:t[5]])):
                bad("target-differs", f"/simulated/target of processor {p} is not target file {p} restricted to {tgt}: "
                    f"got {np.squeeze(got_cut)[..., 0, :].tolist()} (first row of each frame)", group="simulated", dims=dims)
    except Exception as e:  # noqa: BLE001
        bad("result-missing", f"cannot read the returned targets: {type(e).__name__}: {str(e)[:200]}")
    return {"viol": viol, "sig": sig, "nontrivial": True, "n": n,
            "counts": {"optim_runs": 1}, "outcome": {"champion_fitness": fit.tolist()}}


cfgx.install(__import__("sys").modules[__name__])
