"""C14 - charge is accounted identically as arrays and as positioned clusters.

Explicit-state BFS (vp.seqx) over interleavings of array additions, cluster additions (pixel centres,
borders, corners, detector edges, outside, negative, non-finite positions), reads, removals and resets on
a real `Charge` of a 2 x 3 detector with pixels of 2.0 x 0.5, compared at every transition with an
accumulator `pixel -> sum` that bins positions with exact rational arithmetic.

Parts (shard["part"]):
  deep   small sub-alphabet (base operations + the cluster operations of ONE special position), deep search
  wide   the complete alphabet, shallow search, sliced over shards by the first operation
  jit    shallow search (numba JIT disabled, as in the other parts) that collects every distinct
         frame -> array conversion met, then ONE subprocess with the JIT enabled and NUMBA_BOUNDSCHECK=1
         re-executes all of them on the compiled kernel and compares with the exact binning
The workers run with NUMBA_DISABLE_JIT=1: an index outside the buffer then raises instead of writing
to foreign memory (in the compiled kernel that write is unchecked).
"""
from __future__ import annotations

import copy
import json
import math
import os
import subprocess
import sys
import time
from fractions import Fraction

import numpy as np

from vp import mk, seqx

ID = "C14"
LEVEL = "model_checking"
ENGINE = "seqx"
ENV = {"NUMBA_DISABLE_JIT": "1"}
TIMEOUT = 1500
TECHNIQUE = ("explicit-state BFS over operation sequences on a real Charge object (array adds, cluster adds at "
             "border/edge/outside/negative/non-finite positions, reads, removals, resets) against an exact-rational "
             "accumulator, with a read-free twin object for the 'reads are pure' rule and a compiled-kernel "
             "conformance pass (NUMBA_BOUNDSCHECK=1) over every distinct frame met")
LEVEL_TEXT = ("Every operation sequence up to the stated depth over (a) 26 sub-alphabets (9 base operations + the "
              "cluster operations of one special position) and (b) the complete alphabet is executed on the real "
              "Charge; after every transition the reported array must equal the accumulator, the frame binned "
              "exactly must equal it too, a reset must give zero, clusters outside the sensitive area must not be "
              "credited nor make the report fail, and the object that additionally received the read operations of "
              "the history must be observationally equal to its twin that did not. States are merged on the full "
              "observation (array, ordered frame rows, array after removing all clusters) of both twins.")
LEVEL_NOTE = ("Bounded: depth, one geometry (2x3, 2.0x0.5), palette of 4 arrays, 28 positions, 2 cluster sizes. The "
              "array reported after a removal that leaves no cluster is not defined by the statement: only its "
              "independence from earlier reads is demanded there. Trusted: numpy indexing semantics with the JIT "
              "disabled (an out-of-range index raises), numba's bounds check in the conformance pass, pandas.")
DESIGN_REF = "DESIGN.md section 4, C14"
ASSUMPTIONS = [
    "single geometry 2 rows x 3 columns, pixel 2.0 (vertical) x 0.5 (horizontal): all borders are dyadic numbers",
    "cluster sizes and array values are small non-negative integers (sums exact in float64)",
    "after a removal that leaves the frame empty only read-independence of the report is checked",
    "the compiled kernel is only executed with NUMBA_BOUNDSCHECK=1 (never unchecked)",
]

ROWS, COLS, PV, PH = 2, 3, 2.0, 0.5
_TINY = 5e-324
NAN, INF = float("nan"), float("inf")

# name -> (vertical position, horizontal position)
POSITIONS = {
    # inside
    "c00": (1.0, 0.25), "c01": (1.0, 0.75), "c12": (3.0, 1.25),
    "vborder": (1.0, 0.5), "vborder2": (3.0, 1.0), "hborder": (2.0, 0.25), "corner": (2.0, 0.5),
    "origin": (0.0, 0.0), "negzero": (-0.0, -0.0),
    "lastin": (math.nextafter(ROWS * PV, 0.0), math.nextafter(COLS * PH, 0.0)),
    # first position outside at each of the four edges
    "edge_top": (-_TINY, 0.25), "edge_left": (1.0, -_TINY), "edge_bottom": (ROWS * PV, 0.25),
    "edge_right": (1.0, COLS * PH), "edge_right_last": (3.0, COLS * PH),
    # negative
    "neg_ver": (-1.0, 0.25), "neg_hor": (3.0, -0.25), "neg_both": (-1.0, -0.25), "neg2_ver": (-3.0, 0.75),
    "neg3_ver": (-5.0, 0.25),
    # far outside
    "far_ver": (1e6, 0.25), "far_hor": (1.0, 1e6), "far_neg": (-1e6, 0.25), "huge": (1e300, 0.25),
    # not finite
    "nan_ver": (NAN, 0.25), "nan_hor": (1.0, NAN), "inf_ver": (INF, 0.25), "ninf_hor": (1.0, -INF),
}
INSIDE_NAMES = ("c00", "c01", "c12", "vborder", "vborder2", "hborder", "corner", "origin", "negzero", "lastin")
SPECIAL = [n for n in POSITIONS if n not in ("c00", "c12")]          # one deep shard each
PAIRS = [["c00", "c00"], ["c00", "corner"], ["lastin", "origin"], ["c00", "edge_right"], ["neg_ver", "c12"],
         ["edge_bottom", "edge_top"], ["nan_ver", "c01"], ["vborder", "hborder"]]


def _seed():
    return int(os.environ.get("VERIF_SEED", "0") or 0)


def _numbers():
    s = _seed() % 3
    return {"n1": float(1 + s), "n7": float(7 + 2 * s)}


def make_array(name):
    s = _seed()
    b = float(1 + s % 4)
    if name == "zeros":
        return np.zeros((ROWS, COLS))
    if name == "ones":
        return np.full((ROWS, COLS), b)
    if name == "single":
        a = np.zeros((ROWS, COLS))
        a[s % ROWS, (s + 1) % COLS] = 2 * b + 1
        return np.asfortranarray(a)          # same values, column-major memory layout
    if name == "hole":
        a = np.full((ROWS, COLS), b + 2)
        a[(s + 1) % ROWS, s % COLS] = 0.0
        return np.ascontiguousarray(a.T).T   # same values, a transposed view (not C-contiguous)
    raise KeyError(name)


# ------------------------------------------------------------------ reference (exact)

def pixel_of(ver, hor):
    """(row, col) of the pixel whose area contains the position, None if outside the sensitive area."""
    if not (math.isfinite(ver) and math.isfinite(hor)):
        return None
    r = math.floor(Fraction(ver) / Fraction(PV))
    c = math.floor(Fraction(hor) / Fraction(PH))
    if 0 <= r < ROWS and 0 <= c < COLS:
        return (r, c)
    return None


def pos_class(ver, hor):
    if math.isnan(ver) or math.isnan(hor) or math.isinf(ver) or math.isinf(hor):
        return "nonfinite"
    if ver < 0:
        return "neg-ver"
    if ver >= ROWS * PV:
        return "beyond-ver"
    if hor < 0:
        return "neg-hor"
    if hor >= COLS * PH:
        return "beyond-hor"
    return "inside"


def bin_rows(rows):
    """exact per-pixel sum of the clusters (number, ver, hor) that lie inside the sensitive area"""
    acc = np.zeros((ROWS, COLS))
    for n, v, h in rows:
        p = pixel_of(v, h)
        if p is not None:
            acc[p] += n
    return acc


def _rk(rows):
    """comparable form of frame rows (index label dropped; NaN compares equal to itself)"""
    return [tuple(float(x).hex() for x in r[-3:]) for r in rows]


def rows_class(rows):
    for _, v, h in rows:
        c = pos_class(v, h)
        if c != "inside":
            return c
    return "inside"


# ------------------------------------------------------------------ real object access (public API only)

_WARM = [False]


def _warm_up():
    """Process history: before anything else a Charge of ANOTHER geometry (same rows x cols, other pixel sizes) does an
    array <-> cluster conversion in this process.  Anything memoised per shape instead of per geometry (seeded variant
    C14_4: pixel-centre positions cached by (rows, cols)) then corrupts the search on the real geometry."""
    if _WARM[0]:
        return
    _WARM[0] = True
    from pyxel.data_structure import Charge

    for pv, ph in ((PV * 4.0, PH * 8.0), (PV / 4.0, PH / 2.0)):
        c = Charge(mk.geometry("ccd", ROWS, COLS, pixel_vert_size=pv, pixel_horz_size=ph))
        c.add_charge_array(np.ones((ROWS, COLS)))
        add_clusters(c, [(1.0, pv * 0.5, ph * 0.5)])
        np.asarray(c.array)
        c.frame


def new_charge():
    from pyxel.data_structure import Charge

    _warm_up()
    return Charge(mk.geometry("ccd", ROWS, COLS, pixel_vert_size=PV, pixel_horz_size=PH))


def add_clusters(charge, rows, as_frame=False):
    k = len(rows)
    z = np.zeros(k)
    if as_frame:
        # the clusters handed over as a DataFrame whose columns are in another order (only the SET of columns is part
        # of the interface): e.g. a table that went through a CSV file
        from pyxel.data_structure import Charge

        df = Charge.create_charges(particle_type="e",
                                   particles_per_cluster=np.array([r[0] for r in rows], dtype=float),
                                   init_energy=z.copy(),
                                   init_ver_position=np.array([r[1] for r in rows], dtype=float),
                                   init_hor_position=np.array([r[2] for r in rows], dtype=float),
                                   init_z_position=z.copy(), init_ver_velocity=z.copy(), init_hor_velocity=z.copy(),
                                   init_z_velocity=z.copy())
        charge.add_charge_dataframe(df[list(df.columns[::-1])])
        return
    charge.add_charge(particle_type="e",
                      particles_per_cluster=np.array([r[0] for r in rows], dtype=float),
                      init_energy=z.copy(),
                      init_ver_position=np.array([r[1] for r in rows], dtype=float),
                      init_hor_position=np.array([r[2] for r in rows], dtype=float),
                      init_z_position=z.copy(), init_ver_velocity=z.copy(), init_hor_velocity=z.copy(),
                      init_z_velocity=z.copy())


def frame_rows(frame):
    """[(index label, number, ver, hor)] in index order"""
    idx = [int(i) for i in frame.index]
    n = np.asarray(frame["number"].values, dtype=float)
    v = np.asarray(frame["position_ver"].values, dtype=float)
    h = np.asarray(frame["position_hor"].values, dtype=float)
    return [(idx[i], float(n[i]), float(v[i]), float(h[i])) for i in range(len(idx))]


class Obs:
    """what the property can see of a Charge: reported array (or the exception), ordered frame rows, and the
    array reported after all clusters were removed (distinguishes otherwise hidden cached state)"""
    __slots__ = ("arr", "err", "rows", "probe", "key")

    def __init__(self, charge):
        c = copy.deepcopy(charge)
        self.rows = frame_rows(c.frame)
        self.err = None
        try:
            self.arr = np.array(c.array, dtype=float, copy=True)
        except Exception as e:  # noqa: BLE001
            self.arr, self.err = None, e
        c2 = copy.deepcopy(charge)
        try:
            c2.remove_from_frame()
            self.probe = np.array(c2.array, dtype=float, copy=True).tobytes()
        except Exception as e:  # noqa: BLE001
            self.probe = "EXC:" + type(e).__name__
        self.key = (None if self.arr is None else (self.arr.shape, self.arr.tobytes()),
                    tuple((float(n).hex(), float(v).hex(), float(h).hex()) for _, n, v, h in self.rows),
                    self.probe)

    def visible(self):
        return self.key[:2]

    def describe(self):
        a = f"raises {type(self.err).__name__}: {self.err}" if self.arr is None else self.arr.tolist()
        return f"array={a} frame(number,ver,hor)={[(n, v, h) for _, n, v, h in self.rows]}"


class State:
    __slots__ = ("real", "twin", "acc", "obs", "tobs", "n", "rsw", "flags")

    def __init__(self, real, twin, acc, obs, tobs, n, rsw=False, flags=()):
        self.real, self.twin, self.acc, self.obs, self.tobs, self.n = real, twin, acc, obs, tobs, n
        self.rsw = rsw              # "read since the last write": abstraction of hidden cache state (see canon)
        self.flags = flags          # which kinds of operation happened since the last reset (hidden counters, see canon)


BASE_OPS = [["read", "array"], ["read", "frame"], ["arr", "ones"], ["empty"], ["rm", "all"], ["arr", "single"],
            ["rm", "first"], ["arr", "hole"], ["arr", "zeros"], ["upd", "number"], ["upd", "move"]]


def cl(*items):
    return ["cl", [[n, p] for n, p in items]]


def deep_alphabet(pos):
    return BASE_OPS + [cl(("n1", pos)), cl(("n7", "c00")), cl(("n7", pos)), cl(("n1", pos), ("n7", "c12"))]


REPR_POSITIONS = ("c00", "corner", "lastin", "edge_top", "edge_left", "edge_bottom", "edge_right", "edge_right_last",
                  "neg2_ver", "nan_ver", "far_ver")


def repr_alphabet():
    """small alphabet with one cluster operation per position class (deeper compiled-kernel conformance)"""
    return [["arr", "ones"], ["rm", "first"], ["empty"]] + [cl(("n1", p)) for p in REPR_POSITIONS]


def alphabet_by_name(name):
    return {"wide": wide_alphabet, "small": lambda: wide_alphabet(small=True), "repr": repr_alphabet}[name]()


def wide_alphabet(small=False):
    ops = list(BASE_OPS) + [["read", "xarray"], ["read", "numpy"], ["rm", "last"]]
    for p in POSITIONS:
        ops.append(cl(("n1", p)))
    if not small:
        for p in POSITIONS:
            ops.append(cl(("n7", p)))
    for a, b in PAIRS:
        ops.append(cl(("n1", a), ("n7", b)))
    return ops


class Model:
    def __init__(self, alphabet, first_ops=None, collect=None):
        self.alphabet = alphabet
        self.first_ops = first_ops
        self.collect = collect            # dict frame-key -> rows, filled with every non-empty frame met
        self.numbers = _numbers()
        self.counts = {"outside_adds_not_credited": 0, "read_forks": 0, "removals_to_empty_frame": 0,
                       "array_folded_into_clusters": 0, "resets": 0, "rejected_adds": 0}

    # -- seqx interface
    def initial(self):
        c = new_charge()
        o = Obs(c)
        return State(c, None, np.zeros((ROWS, COLS)), o, None, 0)

    def ops(self, st):
        if st.n == 0 and self.first_ops is not None:
            return self.first_ops
        return self.alphabet

    def canon(self, st):
        # The observable state alone is NOT a sound key: an implementation may cache the converted array, so two
        # histories with the same observable state but a different "was it read since the last modification" have
        # different futures (seeded variant C14_1: read, then partial removal).  That bit is part of the key.
        # ... and so is the set of operation kinds applied since the last reset: an emptied frame that once held
        # clusters is not the initial state (seeded variant C14_3 used the id counter as "never had clusters").
        return (st.obs.key, None if st.tobs is None else st.tobs.key, st.rsw, st.flags)

    def cluster_rows(self, op):
        return [(self.numbers[n], POSITIONS[p][0], POSITIONS[p][1]) for n, p in op[1]]

    def _do(self, charge, op, ids):
        """execute the operation on a real Charge; returns the value of a read"""
        name = op[0]
        if name == "read":
            if op[1] == "array":
                return np.array(charge.array, dtype=float, copy=True)
            if op[1] == "frame":
                return frame_rows(charge.frame)
            if op[1] == "numpy":                # the numpy protocol: np.asarray(detector.charge), as writers of files use it
                return np.array(np.asarray(charge), dtype=float, copy=True)
            return np.array(charge.to_xarray().values, dtype=float, copy=True)
        if name == "arr":
            a = make_array(op[1])
            charge.add_charge_array(a)
            a[...] = 777.0          # the caller re-uses its work buffer: the stored charge must not follow
        elif name == "cl":
            # single "n7" clusters arrive as a DataFrame with reversed column order, everything else through add_charge
            add_clusters(charge, self.cluster_rows(op), as_frame=(len(op[1]) == 1 and op[1][0][0] == "n7"))
        elif name == "empty":
            charge.empty()
        elif name == "rm":
            if op[1] == "all":
                charge.remove_from_frame()
            else:
                charge.remove_from_frame(id_list=list(ids))
        elif name == "upd":
            # in-place update of the existing clusters through the public API (as transport models do)
            rows = frame_rows(charge.frame)
            if rows:
                labels = [r[0] for r in rows]
                if op[1] == "number":
                    charge.set_frame_values("number", [2.0 * r[1] for r in rows], id_list=labels)
                else:       # move the first cluster to the centre of pixel (1, 2)
                    charge.set_frame_values("position_ver", [1.5 * PV], id_list=labels[:1])
                    charge.set_frame_values("position_hor", [2.5 * PH], id_list=labels[:1])
        else:
            raise KeyError(name)
        return None

    def apply(self, st, op):
        name = op[0]
        before = st.obs
        viols = []
        pcls = rows_class(self.cluster_rows(op)) if name == "cl" else "-"

        def bad(code, what, pos=None):
            viols.append(({"part": "bulk", "code": code, "op": name if name != "read" else "read-" + op[1],
                           "pos": pos if pos is not None else pcls},
                          f"{what} [last op={op}; state before: {before.describe()}]"))

        ids = []
        if name == "rm" and op[1] != "all":
            labels = [r[0] for r in before.rows]
            ids = [0] if not labels else [min(labels) if op[1] == "first" else max(labels)]

        real = copy.deepcopy(st.real)
        twin = copy.deepcopy(st.twin) if st.twin is not None else None
        if name == "read" and twin is None:
            twin = copy.deepcopy(st.real)           # from now on: same history without the reads
            self.counts["read_forks"] += 1
        exc, val = None, None
        try:
            val = self._do(real, op, ids)
        except Exception as e:  # noqa: BLE001
            exc = e
        if name != "read" and twin is not None:
            try:
                self._do(twin, op, ids)
            except Exception:  # noqa: BLE001
                pass                                # a difference shows up in the observation below
        obs = Obs(real)
        tobs = Obs(twin) if twin is not None else None
        acc = st.acc.copy()
        acc_defined = True

        if self.collect is not None and obs.rows:
            self.collect.setdefault(obs.key[1], [(n, v, h) for _, n, v, h in obs.rows])

        if name == "read":
            if exc is not None:
                bad("read-raised", f"reading .{op[1]} raised {type(exc).__name__}: {exc}",
                    pos=rows_class([r[1:] for r in before.rows]))
            else:
                if obs.visible() != before.visible():
                    bad("read-changed", f"reading .{op[1]} changed the observable state to {obs.describe()}")
                if op[1] in ("array", "xarray", "numpy") and not (val.shape == acc.shape and np.array_equal(val, acc)):
                    bad("read-value", f".{op[1]} returned {val.tolist()} but the accumulated charge is {acc.tolist()}")
                if op[1] == "xarray":
                    # an exported report is a record of the charge at the time of the call: charge added afterwards must
                    # not appear in it (checked on a copy of the object, array additions and - if clusters are held -
                    # a doubling of the clusters)
                    probe = copy.deepcopy(st.real)
                    try:
                        rep = probe.to_xarray()
                        snap = np.array(rep.values, dtype=float, copy=True)
                        probe.add_charge_array(make_array("ones"))
                        self._do(probe, ["upd", "number"], [])
                        probe.add_charge_array(make_array("single"))
                        if not np.array_equal(np.asarray(rep.values, dtype=float), snap):
                            bad("report-follows-later-additions", f"the DataArray returned by to_xarray() was {snap.tolist()} "
                                f"when it was returned and reads {np.asarray(rep.values).tolist()} after charge was added "
                                "to the container afterwards")
                    except Exception:  # noqa: BLE001  (failures of these operations are judged by their own transitions)
                        pass
                if op[1] == "frame" and _rk(val) != _rk(before.rows):
                    bad("read-value", f".frame returned {val} for {before.describe()}")
        elif name == "empty":
            self.counts["resets"] += 1
            if exc is not None:
                bad("reset-raised", f"empty() raised {type(exc).__name__}: {exc}")
            acc[:] = 0.0
            if exc is None and obs.rows:
                bad("reset-nonzero", f"after empty() the frame still holds {obs.describe()}")
        elif name == "arr":
            if exc is not None:
                bad("valid-rejected", f"adding the array {make_array(op[1]).tolist()} raised {type(exc).__name__}: {exc}")
            else:
                acc += make_array(op[1])
        elif name == "cl":
            rows = self.cluster_rows(op)
            if exc is not None:
                self.counts["rejected_adds"] += 1
                if pcls == "inside":
                    bad("valid-rejected", f"adding clusters {rows} (all inside) raised {type(exc).__name__}: {exc}")
                elif obs.visible() != before.visible():
                    bad("raised-but-changed", f"adding clusters {rows} raised {type(exc).__name__} but the state "
                        f"changed to {obs.describe()}")
            else:
                acc += bin_rows(rows)
                if not before.rows and before.arr is not None and bool(np.any(before.arr != 0)):
                    self.counts["array_folded_into_clusters"] += 1
        elif name == "rm":
            if exc is not None and not before.rows and op[1] != "all":
                # removing an id that does not exist may be refused; the state must then be untouched
                if obs.visible() != before.visible():
                    bad("raised-but-changed", f"remove_from_frame({ids}) raised {type(exc).__name__} but the state "
                        f"changed to {obs.describe()}")
            elif exc is not None:
                bad("remove-raised", f"remove_from_frame({'' if op[1] == 'all' else ids}) raised "
                    f"{type(exc).__name__}: {exc}")
            elif before.rows:
                remaining = [] if op[1] == "all" else [r for r in before.rows if r[0] not in ids]
                if _rk(obs.rows) != _rk(remaining):
                    bad("remove-wrong", f"after removing {'all' if op[1] == 'all' else ids} the frame holds "
                        f"{[r[1:] for r in obs.rows]}, expected {[r[1:] for r in remaining]}")
                if remaining:
                    acc = bin_rows([r[1:] for r in remaining])
                else:
                    acc_defined = False         # the statement does not define the report here; see twin check
                    self.counts["removals_to_empty_frame"] += 1

        elif name == "upd":
            if exc is not None:
                bad("update-raised", f"set_frame_values raised {type(exc).__name__}: {exc}")
            elif before.rows:
                if op[1] == "number":
                    want = [(r[0], 2.0 * r[1], r[2], r[3]) for r in before.rows]
                else:
                    want = [(before.rows[0][0], before.rows[0][1], 1.5 * PV, 2.5 * PH)] + list(before.rows[1:])
                if _rk(obs.rows) != _rk(want):
                    bad("update-wrong", f"after the in-place update the frame holds {[r[1:] for r in obs.rows]}, expected "
                        f"{[r[1:] for r in want]}")
                acc = bin_rows([r[1:] for r in want])

        if name != "read" and not viols:
            fcls = rows_class([r[1:] for r in obs.rows])
            if obs.arr is None:
                code = "outside-read-raised" if fcls != "inside" else "array-read-raised"
                bad(code, f"after the operation reading .array raises {type(obs.err).__name__}: {obs.err} "
                    f"(with the JIT enabled this index is an unchecked write); frame={[r[1:] for r in obs.rows]}",
                    pos=fcls)
            elif obs.arr.shape != (ROWS, COLS):
                bad("array-shape", f"reported array has shape {obs.arr.shape}")
            else:
                if obs.rows:
                    fsum = bin_rows([r[1:] for r in obs.rows])
                    if not np.array_equal(obs.arr, fsum):
                        code = "outside-credited" if fcls != "inside" else "binning-wrong"
                        bad(code, f"reported array {obs.arr.tolist()} is not the per-pixel sum {fsum.tolist()} of the "
                            f"clusters {[r[1:] for r in obs.rows]} binned with row=floor(ver/{PV}), col=floor(hor/{PH})"
                            f"{' - a cluster outside the sensitive area was credited to a pixel' if fcls != 'inside' else ''}",
                            pos=fcls)
                    elif acc_defined and not np.array_equal(fsum, acc):
                        bad("frame-accounting", f"clusters in the frame sum to {fsum.tolist()} per pixel but the charge "
                            f"added since the last reset is {acc.tolist()}", pos=fcls)
                    elif fcls != "inside":
                        self.counts["outside_adds_not_credited"] += 1
                elif acc_defined and not np.array_equal(obs.arr, acc):
                    code = "reset-nonzero" if name == "empty" else "array-accounting"
                    bad(code, f"reported array {obs.arr.tolist()} but the charge added since the last reset is "
                        f"{acc.tolist()}")
        if tobs is not None and not viols and tobs.visible() != obs.visible():
            bad("read-dependent", f"the same operations give {obs.describe()} when .array/.frame were read in between, "
                f"but {tobs.describe()} when they were not")
        if not acc_defined and obs.arr is not None:
            acc = obs.arr.copy()
        flags = () if name == "empty" else (st.flags if name == "read" else tuple(sorted(set(st.flags) | {name})))
        return State(real, twin, acc, obs, tobs, st.n + 1, rsw=(name == "read"), flags=flags), viols


# ------------------------------------------------------------------ JIT conformance (separate interpreter)

def _hexrows(rows):
    return [[float(x).hex() for x in r] for r in rows]


def _unhex(rows):
    return [tuple(float.fromhex(x) for x in r) for r in rows]


def jit_conformance(frames):
    """frames: list of hex-encoded row lists.  One subprocess with the JIT on and bounds checking; returns per
    frame {"arr": [[..]] | None, "err": str | None}."""
    env = dict(os.environ)
    env.pop("NUMBA_DISABLE_JIT", None)
    env["NUMBA_DISABLE_JIT"] = "0"
    env["NUMBA_BOUNDSCHECK"] = "1"
    root = os.path.dirname(os.path.dirname(os.path.abspath(__file__)))
    env["PYTHONPATH"] = f"{root}:{os.environ.get('VP_REPO', '/repo')}"
    p = subprocess.run(["/venv/bin/python", "-m", "props.c14_charge_accounting", "--jit-child"],
                       input=json.dumps(frames), capture_output=True, text=True, env=env, cwd=root,
                       timeout=TIMEOUT - 60)
    if p.returncode != 0:
        raise RuntimeError(f"JIT conformance child failed ({p.returncode}): {p.stderr[-2000:]}")
    line = [ln for ln in p.stdout.splitlines() if ln.startswith("RESULT ")][-1]
    return json.loads(line[7:])


def _jit_child():
    import numba

    assert not numba.config.DISABLE_JIT and numba.config.BOUNDSCHECK, "JIT conformance needs JIT + bounds check"
    frames = json.loads(sys.stdin.read())
    out = []
    for fr in frames:
        rows = _unhex(fr)
        c = new_charge()
        try:
            add_clusters(c, rows)
            a = np.array(c.array, dtype=float)
            out.append({"arr": a.tolist(), "err": None})
        except Exception as e:  # noqa: BLE001
            out.append({"arr": None, "err": f"{type(e).__name__}: {e}"})
    print("RESULT " + json.dumps(out))


def jit_check(frames):
    """-> list of (key, what, frame) for frames (hex rows) whose compiled conversion is wrong"""
    res = jit_conformance(frames)
    if len(res) != len(frames):
        raise RuntimeError("JIT child answered a different number of frames")
    out = []
    sigs = set()
    for fr, r in zip(frames, res):
        rows = _unhex(fr)
        exp = bin_rows(rows)
        fcls = rows_class(rows)
        sigs.add(json.dumps(r["arr"]))
        if r["arr"] is None:
            code = "outside-read-raised" if fcls != "inside" else "array-read-raised"
            out.append(({"part": "jit", "code": code, "op": "convert", "pos": fcls},
                        f"compiled kernel (NUMBA_BOUNDSCHECK=1): reading .array of a Charge holding clusters {rows} "
                        f"raises {r['err']} - without the bounds check this is a write outside the buffer", fr))
        elif not np.array_equal(np.asarray(r["arr"], dtype=float), exp):
            code = "outside-credited" if fcls != "inside" else "binning-wrong"
            out.append(({"part": "jit", "code": code, "op": "convert", "pos": fcls},
                        f"compiled kernel: clusters {rows} are reported as {r['arr']}, exact binning gives "
                        f"{exp.tolist()}", fr))
    return out, len(sigs)


# ------------------------------------------------------------------ module interface

def _slices(ops, k):
    return [ops[i::k] for i in range(k) if ops[i::k]]


def shards(tier, seed):
    thorough = tier == "thorough"
    out = []
    for p in SPECIAL:
        out.append({"part": "deep", "pos": p, "depth": 5 if thorough else 4, "seed": seed})
    wide = wide_alphabet()
    nw = 16 if thorough else 4
    for i in range(len(_slices(wide, nw))):
        out.append({"part": "wide", "slice": [i, nw], "depth": 3 if thorough else 2, "seed": seed})
    # compiled-kernel conformance: (alphabet, depth, number of slices)
    for alpha, depth, nj in ((("wide", 2, 12), ("repr", 3, 7)) if thorough else (("small", 2, 8),)):
        for i in range(len(_slices(alphabet_by_name(alpha), nj))):
            out.append({"part": "jit", "alpha": alpha, "slice": [i, nj], "depth": depth, "seed": seed})
    out.append({"part": "pitch", "seed": seed})
    # longest first
    out.sort(key=lambda s: {"jit": 0, "wide": 1, "deep": 2, "pitch": 3}[s["part"]])
    return out


def _model_for(shard, collect=None):
    if shard["part"] == "deep":
        return Model(deep_alphabet(shard["pos"]), collect=collect)
    alpha = alphabet_by_name(shard.get("alpha", "wide"))
    i, k = shard["slice"]
    return Model(alpha, first_ops=_slices(alpha, k)[i], collect=collect)


# ------------------------------------------------------------------ part pitch: the pixel sizes change after the detector exists

PITCHES = [(2.0 * PV, PH), (PV, 2.0 * PH), (0.5 * PV, 0.5 * PH), (3.0 * PV, 4.0 * PH)]
PITCH_POS = ["c00", "c12", "lastin", "corner", "vborder", "hborder", "edge_bottom", "edge_right"]


def pitch_cases():
    out = []
    for way in ("attribute", "procset", "copy-procset"):
        for pi in range(len(PITCHES)):
            for order in ("add-change-read", "change-add-read", "add-read-change-read"):
                out.append({"part": "pitch", "way": way, "pitch": pi, "order": order})
    return out


def run_pitch_case(case):
    """all clusters of the position palette on one detector; the geometry's pixel sizes are changed (attribute / Processor.set
    on the processor or on a deep copy of it, as a sweep does); the reported array must bin the clusters with the CURRENT
    sizes: row = floor(ver / pixel_vert_size), col = floor(hor / pixel_horz_size)"""
    from pyxel.pipelines import Processor

    nv, nh = PITCHES[case["pitch"]]
    det = mk.detector("ccd", ROWS, COLS, geo_kw={"pixel_vert_size": PV, "pixel_horz_size": PH})
    proc = Processor(detector=det, pipeline=mk.pipeline({}))
    rows = [(float(i + 1), POSITIONS[p][0], POSITIONS[p][1]) for i, p in enumerate(PITCH_POS)]
    viol = []

    def change(pr):
        if case["way"] == "attribute":
            pr.detector.geometry.pixel_vert_size = nv
            pr.detector.geometry.pixel_horz_size = nh
        else:
            pr.set("detector.geometry.pixel_vert_size", nv)
            pr.set("detector.geometry.pixel_horz_size", nh)

    def expected(v_size, h_size):
        acc = np.zeros((ROWS, COLS))
        for n, v, h in rows:
            r, c = math.floor(Fraction(v) / Fraction(v_size)), math.floor(Fraction(h) / Fraction(h_size))
            if 0 <= r < ROWS and 0 <= c < COLS:
                acc[r, c] += n
        return acc

    try:
        target = proc
        if case["order"].startswith("add"):
            add_clusters(proc.detector.charge, rows)
            if case["order"] == "add-read-change-read":
                np.array(proc.detector.charge.array)
        if case["way"] == "copy-procset":
            target = copy.deepcopy(proc)
        change(target)
        if case["order"] == "change-add-read":
            add_clusters(target.detector.charge, rows)
        got = np.array(target.detector.charge.array, dtype=float)
        want = expected(nv, nh)
        if not np.array_equal(got, want):
            viol.append({"key": {"part": "pitch", "code": "binned-with-stale-pixel-size", "way": case["way"], "order": case["order"]},
                         "what": f"[pixel sizes changed from ({PV}, {PH}) to ({nv}, {nh}) via {case['way']}, {case['order']}] "
                                 f"reported {got.tolist()}, the clusters {rows} binned with the current sizes give {want.tolist()}",
                         "case": dict(case)})
        if case["way"] == "copy-procset":
            # the processor the copy was made from keeps its own sizes
            got0 = np.array(proc.detector.charge.array, dtype=float)
            want0 = expected(PV, PH) if case["order"].startswith("add") else np.zeros((ROWS, COLS))
            if not np.array_equal(got0, want0):
                viol.append({"key": {"part": "pitch", "code": "original-changed", "way": case["way"], "order": case["order"]},
                             "what": f"[pixel sizes changed on a COPY of the processor] the original reports {got0.tolist()}, "
                                     f"expected {want0.tolist()}", "case": dict(case)})
    except Exception as e:  # noqa: BLE001
        viol.append({"key": {"part": "pitch", "code": "raised", "way": case["way"]},
                     "what": f"[pitch {case}] raised {type(e).__name__}: {str(e)[:200]}", "case": dict(case)})
    return viol


def run_shard(shard):
    os.environ["VERIF_SEED"] = str(shard.get("seed", 0))
    if shard["part"] == "pitch":
        viols, n = [], 0
        for c in pitch_cases():
            viols += [dict(v, case=dict(v["case"], seed=shard.get("seed", 0))) for v in run_pitch_case(c)]
            n += 1
        seen, out = set(), []
        for v in viols:
            kk = json.dumps(v["key"], sort_keys=True)
            if kk not in seen:
                seen.add(kk)
                out.append(v)
        return {"violations": out, "counts": {"transitions": n, "states": n, "pitch_cases": n},
                "sets": {"explored": [f"pitch:{n} cases"]}, "samples": []}
    t0 = time.time()
    frames = {} if shard["part"] == "jit" else None
    m = _model_for(shard, collect=frames)
    stats, viols = seqx.bfs(m, shard["depth"], max_violations=200)
    out = []
    for v in viols:
        v = _minimise(v)
        out.append({"key": v["key"], "what": v["what"],
                    "case": {"part": "bulk", "ops": v["ops"], "seed": shard.get("seed", 0)}})
    counts = {"states": stats["states"], "transitions": stats["transitions"], "cap_hit": int(stats["cap_hit"]),
              "cpu_s_" + shard["part"]: int(round(time.time() - t0))}
    counts.update(m.counts)
    what = shard["pos"] if shard["part"] == "deep" else f"{shard.get('alpha', 'wide')}-alphabet first-op slice {shard['slice'][0] + 1}/{shard['slice'][1]}"
    sets = {"explored": [f"{shard['part']}:{what}@depth{stats['depth_completed']}"]}
    if frames is not None:
        flist = [_hexrows(rows) for rows in frames.values()]
        jv, nsig = jit_check(flist) if flist else ([], 0)
        counts["jit_frames"] = len(flist)
        counts["jit_distinct_arrays"] = nsig
        seen = set()
        for key, what, fr in jv:
            kk = json.dumps(key, sort_keys=True)
            if kk in seen:
                continue
            seen.add(kk)
            out.append({"key": key, "what": what, "case": {"part": "jit", "frame": fr, "seed": shard.get("seed", 0)}})
    return {"violations": out, "counts": counts, "sets": sets,
            "samples": [{"part": shard["part"], "ops": stats["sample"]}]}


def _minimise(v):
    """drop operations that are not needed for the same violation key (greedy, re-executed each time)"""
    ops = list(v["ops"])
    best = v
    i = 0
    while i < len(ops) - 1:
        cand = ops[:i] + ops[i + 1:]
        got = [x for x in seqx.run_sequence(Model(BASE_OPS), cand) if x["key"] == v["key"] and len(x["ops"]) == len(cand)]
        if got:
            ops, best = cand, got[0]
        else:
            i += 1
    return best


def replay(case):
    os.environ["VERIF_SEED"] = str(case.get("seed", "0"))
    if case["part"] == "jit":
        jv, _ = jit_check([case["frame"]])
        return [{"key": k, "what": w, "case": case} for k, w, _ in jv]
    if case["part"] == "pitch":
        return [dict(v, case=case) for v in run_pitch_case({k: v for k, v in case.items() if k != "seed"})]
    m = Model(wide_alphabet())
    out = []
    for v in seqx.run_sequence(m, case["ops"]):
        out.append({"key": v["key"], "what": v["what"], "case": dict(case, ops=v["ops"])})
    return out


def coverage(tier, seed, agg):
    c = agg["counts"]
    cov = {
        "states": c.get("states", 0),
        "transitions": c.get("transitions", 0),
        "traces_validated_against_impl": c.get("transitions", 0) + c.get("jit_frames", 0),
        "exhaustive": c.get("cap_hit", 0) == 0,
        "caps_hit": c.get("cap_hit", 0),
        "bound": "all operation sequences up to the depth given per sub-alphabet in `explored`",
        "explored": agg["sets"].get("explored", []),
        "rule": "BFS over operation sequences on a real Charge; states merged on (reported array, ordered frame rows, "
                "array after removing all clusters) of the object and of its read-free twin; every transition executed "
                "on the implementation and compared with an exact-rational accumulator; every distinct frame met in the "
                "'jit' shards re-executed on the compiled kernel with bounds checking; `states` is the sum over the "
                "shards (sub-alphabets) of their distinct states",
    }
    for k in ("jit_frames", "jit_distinct_arrays", "outside_adds_not_credited", "read_forks",
              "removals_to_empty_frame", "array_folded_into_clusters", "resets", "rejected_adds",
              "cpu_s_deep", "cpu_s_wide", "cpu_s_jit"):
        cov[k] = c.get(k, 0)
    return cov


if __name__ == "__main__":
    if "--jit-child" in sys.argv:
        _jit_child()
