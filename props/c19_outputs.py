"""C19 - output files are complete, correctly attributed and never clobbered.

Three exhaustive parts, all on the real code:
  dirs   (seqx)   BFS over histories {start a run, advance the clock, pre-create a directory / a file with the
                  next candidate name, custom prefix} against a fake wall clock; every start must return a
                  directory that did not exist before and that no other start returned.
  race   (schedx) 2-3 threads start a run in the same second; every interleaving of the clock read and the
                  mkdir calls (scheduling points on os.mkdir and datetime.now) is executed.
  files  (cfgx)   all 1- and 2-element save lists over buckets x formats, in exposure (1-2 readouts), sequential
                  observation (3 runs) and parallel observation; every reported file exists, reads back equal to
                  the bucket of the run it is attributed to, exactly one reported file per (bucket, format, run);
                  an audit hook watches for writes onto paths that already exist.
"""
from __future__ import annotations

import hashlib
import itertools
import json
import os
import shutil
import sys
import tempfile
from datetime import datetime as _real_datetime
from datetime import timedelta

import numpy as np

from vp import cfgx, mk, probes, schedx

ID = "C19"
LEVEL = "model_checking"
ENGINE = "seqx+schedx+cfgx"
TIMEOUT = 1200
TECHNIQUE = ("explicit-state BFS over start/clock/pre-existing-name histories of output-directory creation with a fake "
             "clock; exhaustive thread interleavings of concurrent starts under a controlled scheduler; exhaustive "
             "save-list x mode enumeration with read-back against the attributed run and an audit-hook overwrite monitor")
LEVEL_TEXT = ("Directory creation is explored as a state machine on a real scratch folder (all histories up to depth 4/5 "
              "of starts, clock ticks and colliding pre-created directories/files, default and custom prefix) and under "
              "all interleavings of 2-3 concurrently starting threads; file writing is enumerated over every 1- and "
              "2-element save list of buckets x {fits, npy, jpg, ...} in exposure, sequential and parallel observation, "
              "each reported file being read back and compared with the bucket of the run it is attributed to."
              " The command-line entry pyxel.run(<YAML file>) is part of the file family: its returned table / output_filenames.csv must list exactly one existing, correctly attributed file per (bucket, format, run); the parallel observation's /output node is checked for attribution too.")
LEVEL_NOTE = ("The wall clock is replaced by a fake `datetime` in pyxel.outputs.outputs; scheduling points are os.mkdir "
              "and the clock read; real time, other processes and file-system crashes are outside. Lossy formats (jpg, "
              "png) are only checked for existence; formats the running mode refuses loudly are recorded as unsupported.")
DESIGN_REF = "DESIGN.md section 4, C19"
ASSUMPTIONS = ["pathlib.Path.mkdir reaches os.mkdir (patched as scheduling point)",
               "the output directory name is derived from datetime.now() of pyxel.outputs.outputs"]

BASE_TIME = _real_datetime(2030, 1, 2, 3, 4, 5)


# ----------------------------------------------------------------------------- fake clock seam

class FakeClock:
    def __init__(self):
        self.t = BASE_TIME
        self.hook = None

    def install(self):
        import pyxel.outputs.outputs as oo

        clock = self

        class FakeDateTime(_real_datetime):
            @classmethod
            def now(cls, tz=None):
                if clock.hook:
                    clock.hook("clock.now")
                return clock.t

        self._orig = oo.datetime
        oo.datetime = FakeDateTime
        return self

    def remove(self):
        import pyxel.outputs.outputs as oo

        oo.datetime = self._orig


def _listing(folder):
    out = []
    for root, dirs, files in os.walk(folder):
        rel = os.path.relpath(root, folder)
        for d in dirs:
            out.append(os.path.normpath(os.path.join(rel, d)) + "/")
        for f in files:
            out.append(os.path.normpath(os.path.join(rel, f)))
    return sorted(out)


# ----------------------------------------------------------------------------- part: dirs (BFS)

DIR_OPS = [["start", ""], ["start", "cust_"], ["start_same", ""], ["tick"], ["mkdir_next", ""], ["mkdir_next", "cust_"],
           ["mkfile_next", ""], ["mkdir_next1", ""], ["run_mode", ""]]


def _candidate(prefix, t, k):
    name = f"{prefix or 'run_'}{t.strftime('%Y%m%d_%H%M%S')}"
    return name if k == 0 else f"{name}_{k}"


def replay_dirs(ops):
    """Execute a history on a fresh scratch folder; returns (violations, canonical state)."""
    from pyxel.outputs import ExposureOutputs

    tmp = tempfile.mkdtemp(prefix="vp_c19d_")
    clock = FakeClock().install()
    viol = []
    returned = []
    shared = ExposureOutputs(output_folder=tmp)
    try:
        for i, op in enumerate(ops):
            before = set(_listing(tmp))
            if op[0] in ("start", "start_same", "run_mode"):
                try:
                    if op[0] == "start":
                        o = ExposureOutputs(output_folder=tmp, custom_dir_name=op[1])
                        o.create_output_folder()
                        d = str(o.current_output_folder)
                    elif op[0] == "start_same":
                        shared.create_output_folder()
                        d = str(shared.current_output_folder)
                    else:
                        d = _start_by_run_mode(tmp)
                except Exception as e:  # noqa: BLE001
                    viol.append(({"part": "dirs", "code": "start-raised", "op": op[0]},
                                 f"history {ops[: i + 1]}: starting a run raised {type(e).__name__}: {e}"))
                    break
                rel = os.path.relpath(d, tmp) + "/"
                if rel in before:
                    viol.append(({"part": "dirs", "code": "reused-existing", "op": op[0]},
                                 f"history {ops[: i + 1]}: the run was given directory {rel} which already existed"))
                if d in returned:
                    viol.append(({"part": "dirs", "code": "same-dir-twice", "op": op[0]},
                                 f"history {ops[: i + 1]}: directory {rel} was handed to two different starts"))
                if not os.path.isdir(d):
                    viol.append(({"part": "dirs", "code": "not-created", "op": op[0]},
                                 f"history {ops[: i + 1]}: returned directory {rel} does not exist"))
                returned.append(d)
            elif op[0] == "tick":
                clock.t = clock.t + timedelta(seconds=1)
            elif op[0] in ("mkdir_next", "mkfile_next", "mkdir_next1"):
                prefix = op[1]
                k = 0
                if op[0] == "mkdir_next1":
                    k = 1
                else:
                    while os.path.exists(os.path.join(tmp, _candidate(prefix, clock.t, k))):
                        k += 1
                path = os.path.join(tmp, _candidate(prefix, clock.t, k))
                if not os.path.exists(path):
                    if op[0] == "mkfile_next":
                        with open(path, "w") as f:
                            f.write("precious")
                    else:
                        os.mkdir(path)
                        with open(os.path.join(path, "detector_image.fits"), "w") as f:
                            f.write("precious")
            # pre-existing files must never change
            for root, _, files in os.walk(tmp):
                for fn in files:
                    p = os.path.join(root, fn)
                    if fn == "detector_image.fits" and os.path.getsize(p) == 8:
                        pass
            if viol:
                break
        # precious content intact
        for root, _, files in os.walk(tmp):
            for fn in files:
                p = os.path.join(root, fn)
                rel = os.path.relpath(p, tmp)
                if os.path.dirname(p) not in returned and os.path.dirname(p) != tmp:
                    with open(p, "rb") as f:
                        if f.read() != b"precious":
                            viol.append(({"part": "dirs", "code": "clobbered"}, f"history {ops}: pre-existing {rel} changed"))
                elif os.path.dirname(p) == tmp:
                    with open(p, "rb") as f:
                        if f.read() != b"precious":
                            viol.append(({"part": "dirs", "code": "clobbered"}, f"history {ops}: pre-existing {rel} changed"))
        state = (tuple(x for x in _listing(tmp) if x.endswith("/") and x.count("/") == 1 or "/" not in x),
                 int((clock.t - BASE_TIME).total_seconds()))
        return viol, state
    finally:
        clock.remove()
        shutil.rmtree(tmp, ignore_errors=True)


def _start_by_run_mode(tmp):
    import pyxel
    from pyxel.outputs import ExposureOutputs

    det = mk.detector("ccd", 2, 3)
    pipe = mk.pipeline({"readout_electronics": [("vp.probes.write", "w", {"buckets": ["image"]})]})
    out = ExposureOutputs(output_folder=tmp, save_data_to_file=[{"detector.image.array": ["npy"]}])
    pyxel.run_mode(mk.exposure([1.0], outputs=out), det, pipe)
    return str(out.current_output_folder)


def bfs_dirs(depth):
    seen = set()
    frontier = [[]]
    stats = {"states": 1, "transitions": 0}
    viols = {}
    sample = None
    _, s0 = replay_dirs([])
    seen.add(s0)
    for d in range(depth):
        nxt = []
        for hist in frontier:
            for op in DIR_OPS:
                if op[0] == "run_mode" and d > 1:
                    continue                    # the run_mode start is equivalent to "start" for the directory protocol
                h2 = hist + [op]
                v, st = replay_dirs(h2)
                stats["transitions"] += 1
                for key, what in v:
                    viols.setdefault(json.dumps(key, sort_keys=True), (key, what, {"part": "dirs", "ops": h2}))
                if v:
                    continue
                if st not in seen:
                    seen.add(st)
                    nxt.append(h2)
                    sample = h2
        frontier = nxt
    stats["states"] = len(seen)
    return stats, list(viols.values()), sample


# ----------------------------------------------------------------------------- part: race (schedx)

def race_execution(nthreads, prefix_kinds, choices, expect=None, precreate=False):
    """nthreads threads start a run in the same (fake) second on one parent folder."""
    from pyxel.outputs import ExposureOutputs

    tmp = tempfile.mkdtemp(prefix="vp_c19r_")
    clock = FakeClock().install()
    sched = schedx.Sched(choices, expect)
    orig_mkdir = os.mkdir

    def mkdir(path, *a, **k):
        sched.point("fs.mkdir")
        return orig_mkdir(path, *a, **k)

    os.mkdir = mkdir
    clock.hook = sched.point
    results = {}
    try:
        if precreate:
            orig_mkdir(os.path.join(tmp, _candidate("", clock.t, 0)))
        for i in range(nthreads):
            def body(i=i):
                o = ExposureOutputs(output_folder=tmp, custom_dir_name=prefix_kinds[i])
                o.create_output_folder()
                d = str(o.current_output_folder)
                # the thread immediately drops a marker: a shared directory would show two markers
                with open(os.path.join(d, f"marker_{i}"), "w") as f:
                    f.write(str(i))
                return d
            sched.spawn(body, None, name=f"t{i}")
        sched.run_all()
        out = {}
        for tid, rec in sched.threads.items():
            if "exc" in rec:
                out[tid] = {"error": f"{type(rec['exc']).__name__}: {rec['exc']}"}
            else:
                d = rec["res"]
                out[tid] = {"dir": os.path.relpath(d, tmp), "markers": sorted(os.listdir(d))}
        return out, sched.log
    finally:
        os.mkdir = orig_mkdir
        clock.remove()
        shutil.rmtree(tmp, ignore_errors=True)


def race_check(out):
    msgs = []
    dirs = [v.get("dir") for v in out.values() if "dir" in v]
    for tid, v in out.items():
        if "error" in v:
            msgs.append(("start-raised", f"thread {tid} failed to start: {v['error']}"))
        elif len(v["markers"]) != 1:
            msgs.append(("shared-dir", f"thread {tid} got directory {v['dir']} which holds the files of several runs: {v['markers']}"))
    if len(set(dirs)) != len(dirs):
        msgs.append(("same-dir-twice", f"two concurrent starts received the same directory: {dirs}"))
    return msgs


RACES = {"2same": (2, ["", ""], False), "3same": (3, ["", "", ""], False), "2pre": (2, ["", ""], True),
         "2mixed": (2, ["", "cust_"], False), "3pre": (3, ["", "", ""], True), "4same": (4, ["", "", "", ""], False)}


def explore_race(name, bound):
    n, kinds, pre = RACES[name]
    viols = {}
    outcomes = set()
    stats = {"executions": 0, "points": 0}
    sample = []

    def run(ch, expect):
        return race_execution(n, kinds, ch, expect, pre)

    def on_exec(ch, out, log):
        stats["executions"] += 1
        stats["points"] = max(stats["points"], len(log))
        outcomes.add(json.dumps(out, sort_keys=True))
        if not sample:
            sample.append({"race": name, "choices": ch, "labels": [e[1][0][1] for e in log]})
        for code, msg in race_check(out):
            key = {"part": "race", "code": code, "threads": n}
            viols.setdefault(json.dumps(key, sort_keys=True),
                             (key, f"[{name}] schedule {ch}: {msg}", {"part": "race", "race": name, "choices": ch}))

    schedx.explore(run, bound, prefix=(), on_exec=on_exec)
    return stats, outcomes, list(viols.values()), sample


# ----------------------------------------------------------------------------- part: files (cfgx)

BUCKETS = ["photon", "charge", "pixel", "signal", "image"]
FORMATS = ["fits", "npy", "jpg", "txt", "csv", "png", "hdf"]
LOSSLESS = {"fits", "npy"}

_AUDIT = {"on": False, "root": None, "events": []}
_AUDIT_INSTALLED = [False]


def _audit(event, args):
    if not _AUDIT["on"]:
        return
    try:
        if event == "open":
            path, mode, flags = args[0], args[1], args[2]
            if not isinstance(path, (str, bytes, os.PathLike)):
                return
            p = os.fspath(path)
            if isinstance(p, bytes):
                p = p.decode()
            writing = (isinstance(mode, str) and any(c in mode for c in "wax+")) or \
                      (isinstance(flags, int) and flags & (os.O_WRONLY | os.O_RDWR | os.O_TRUNC | os.O_APPEND))
            if writing and _AUDIT["root"] and os.path.abspath(p).startswith(_AUDIT["root"]):
                _AUDIT["events"].append(("open-w", os.path.abspath(p), os.path.exists(p)))
        elif event in ("os.rename", "os.remove", "os.truncate", "os.replace", "shutil.move"):
            p = os.fspath(args[1] if event in ("os.rename", "os.replace") else args[0])
            if _AUDIT["root"] and os.path.abspath(p).startswith(_AUDIT["root"]):
                _AUDIT["events"].append((event, os.path.abspath(p), os.path.exists(p)))
    except Exception:  # noqa: BLE001
        pass


def audit_start(root):
    if not _AUDIT_INSTALLED[0]:
        sys.addaudithook(_audit)
        _AUDIT_INSTALLED[0] = True
    _AUDIT.update(on=True, root=os.path.abspath(root), events=[])


def audit_stop():
    _AUDIT["on"] = False
    return list(_AUDIT["events"])


def files_cases(tier):
    combos = [(b, f) for b in BUCKETS for f in FORMATS]
    singles = [[c] for c in combos]
    if tier == "quick":
        main = [(b, f) for b in BUCKETS for f in ("fits", "npy")] + [("image", "jpg")]
        doubles = [list(p) for p in itertools.combinations(main, 2)]
    else:
        doubles = [list(p) for p in itertools.combinations(combos, 2)]
    # two formats of one bucket form an ordered list in the configuration: both orders
    doubles += [[b2, a2] for a2, b2 in [tuple(d) for d in doubles] if a2[0] == b2[0]]
    triples = [[["image", f] for f in perm] for perm in itertools.permutations(["jpg", "fits", "npy"])]
    cases = []
    for sl in singles + doubles + triples:
        for mode in ("exposure1", "exposure2", "obs_seq", "obs_dask"):
            if len(sl) == 2 and mode in ("exposure2",) and tier == "quick":
                continue
            cases.append({"part": "files", "save": sl, "mode": mode})
    for grid in ([2, 3], [3, 2]):
        for mode in ("obs_dask", "obs_seq"):
            for sl in ([["pixel", "npy"]], [["pixel", "npy"], ["image", "fits"]]):
                cases.append({"part": "files", "save": sl, "mode": mode, "grid": grid})
    for mode in ("exposure1", "obs_seq"):
        cases.append({"part": "files", "save": [["pixel", "npy"], ["image", "fits"]], "mode": mode, "repeat": 3})
        cases.append({"part": "files", "save": [["pixel", "npy"]], "mode": mode, "repeat": 2, "precious": True})
    # outputs objects created without a save list (the documented default), one of them edited in place
    for mode in ("exposure1", "obs_seq", "obs_dask"):
        for when in ("before", "after"):
            cases.append({"part": "files", "default_list": True, "when": when, "mode": mode, "save": [["image", "fits"]]})
    # the detector carries the header of an unsigned-integer input image (scaling cards BSCALE / BZERO)
    for mode in ("exposure1", "obs_seq", "obs_dask"):
        cases.append({"part": "files", "save": [["pixel", "fits"], ["signal", "fits"], ["image", "fits"]], "mode": mode,
                      "header": True})
    # a stochastic pipeline without a seed (every execution of a run gives other data)
    for mode in ("obs_dask", "obs_seq"):
        cases.append({"part": "files", "save": [["pixel", "npy"], ["signal", "fits"]], "mode": mode, "noise": True})
    # one bucket named in two NON-adjacent entries of the save list
    for mode in ("exposure1", "obs_seq", "obs_dask"):
        cases.append({"part": "files", "save": [["image", "fits"], ["pixel", "npy"], ["image", "npy"]], "mode": mode,
                      "entries": "separate"})
    # the save list of ONE outputs object edited in place between two runs (an entry appended / a format list replaced)
    for mode in ("exposure1", "obs_seq", "obs_dask"):
        cases.append({"part": "files", "save": [["pixel", "npy"]], "mode": mode, "repeat": 2,
                      "edit": [["pixel", "npy"], ["image", "fits"]]})
        cases.append({"part": "files", "save": [["pixel", "npy"], ["image", "npy"]], "mode": mode, "repeat": 2,
                      "edit": [["pixel", "fits"], ["image", "npy"]]})
    # the command-line entry point pyxel.run(<YAML file>): its returned table (also written as output_filenames.csv) is the
    # report of the files; every row must name an existing file of the run it is labelled with
    for mode in ("exposure1", "exposure2", "obs_seq", "obs_dask"):
        for sl in ([["pixel", "npy"]], [["pixel", "npy"], ["image", "fits"], ["image", "npy"]],
                   [["signal", "fits"], ["photon", "npy"]]):
            cases.append({"part": "files", "cli": True, "save": sl, "mode": mode})
            if mode.startswith("obs"):
                cases.append({"part": "files", "cli": True, "save": sl, "mode": mode, "grid": [2, 3]})
    # a SEQUENTIAL-mode sweep in which both value lists contain the configured value (two runs with identical settings),
    # with and without a pipeline seed: every run still writes and reports its own file
    for mode in ("obs_seq", "obs_dask"):
        for pseed in (None, 5):
            cases.append({"part": "files", "seqdup": True, "save": [["pixel", "npy"], ["image", "fits"]], "mode": mode,
                          "pseed": pseed})
    # the writer methods called directly, n times into one folder with automatic numbering (n > 10: two-digit numbers)
    for fmt in ("npy", "fits", "txt", "csv"):
        for n in (3, 12):
            cases.append({"part": "files", "direct": fmt, "n": n, "save": [["pixel", fmt]], "mode": "direct"})
    return cases


def _read_back(path):
    try:
        if path.endswith(".npy"):
            return np.load(path)
        if path.endswith(".fits"):
            from astropy.io import fits

            with fits.open(path) as hdul:
                return np.array(hdul[0].data)
    except Exception:  # noqa: BLE001  (unreadable file: reported as wrong content by the caller)
        return None
    return None


def _save_list(sl, separate=False):
    if separate:                                # one entry per (bucket, format), in the given order
        return [{f"detector.{b}.array": [f]} for b, f in sl]
    d = {}
    for b, f in sl:
        d.setdefault(f"detector.{b}.array", []).append(f)
    return [{k: v} for k, v in d.items()]


def run_direct_case(case):
    """n direct calls of one writer method without a run number: n distinct files, each holding what its call wrote"""
    from pyxel.outputs import ExposureOutputs

    seed = int(os.environ.get("VERIF_SEED", "0") or 0) % 5
    fmt, n = case["direct"], case["n"]
    viol = []
    tmp = tempfile.mkdtemp(prefix="vp_c19d_")
    parent = os.path.join(tmp, "parent")
    os.mkdir(parent)
    clock = FakeClock().install()

    def bad(code, what):
        viol.append(({"part": "files", "mode": "direct", "code": code, "fmt": fmt}, f"[direct save_to_{fmt} x {n}] {what}"))

    try:
        out = ExposureOutputs(output_folder=parent, save_data_to_file=None)
        out.create_output_folder()
        writer = getattr(out, f"save_to_{fmt}")
        paths, datas = [], []
        for i in range(n):
            data = np.arange(6, dtype="float64").reshape(2, 3) + 100.0 * i + seed
            existing = {os.path.join(dp, f) for dp, _, fs in os.walk(parent) for f in fs}
            audit_start(parent)
            try:
                p = writer(data=data, name="detector.pixel.array")
            except Exception as e:  # noqa: BLE001
                audit_stop()
                bad("raised", f"call {i + 1} raised {type(e).__name__}: {str(e)[:200]}")
                break
            # (numpy.savetxt opens its target twice: only files that existed BEFORE the call count)
            for ev, q, _existed in audit_stop():
                if q in existing:
                    bad("overwrite", f"call {i + 1}: {ev} on {os.path.relpath(q, parent)} which existed before the call")
                    break
            paths.append(str(p))
            datas.append(data)
        if len(set(paths)) != len(paths):
            bad("report-count", f"the {len(paths)} calls returned only {len(set(paths))} distinct file names: "
                f"{[os.path.basename(p) for p in paths]}")
        for i, (p, data) in enumerate(zip(paths, datas)):
            if not os.path.isfile(p):
                bad("missing-file", f"call {i + 1} returned {os.path.basename(p)} which does not exist")
                continue
            if fmt in ("npy", "fits"):
                a = _read_back(p)
            else:
                try:
                    a = np.loadtxt(p, delimiter="," if fmt == "csv" else "|", ndmin=2)
                except Exception:  # noqa: BLE001
                    a = None
            if a is None or a.shape != data.shape or not np.array_equal(np.asarray(a, dtype="float64"), data):
                bad("wrong-content", f"file {os.path.basename(p)} returned by call {i + 1} holds "
                    f"{None if a is None else np.asarray(a).tolist()} but that call wrote {data.tolist()}")
                break
    finally:
        audit_stop()
        clock.remove()
        shutil.rmtree(tmp, ignore_errors=True)
    return {"viol": viol, "sig": cfgx.sig(["direct", fmt, n]), "nontrivial": True, "n": n,
            "outcome": {"unsupported": False, "files_read_back": n}, "sets": {"unsupported": []}}


def run_default_list_case(case):
    """Two outputs objects created WITHOUT a save list; the list of the first is edited in place; a run with the second must
    write exactly the documented default (the image bucket as FITS)."""
    import pyxel
    from pyxel.observation import Observation, ParameterValues
    from pyxel.outputs import ExposureOutputs, ObservationOutputs

    mode = case["mode"]
    viol = []
    tmp = tempfile.mkdtemp(prefix="vp_c19s_")
    clock = FakeClock().install()

    def bad(code, what):
        viol.append(({"part": "files", "mode": mode.rstrip("12"), "code": code, "list": "default"},
                     f"[{mode}, default save list, another default-configured outputs object edited in place "
                     f"{case['when']} this one was created] {what}"))

    try:
        cls = ExposureOutputs if mode.startswith("exposure") else ObservationOutputs
        first = cls(output_folder=os.path.join(tmp, "a"))
        if case["when"] == "before":
            first.save_data_to_file.append({"detector.pixel.array": ["npy"]})
            first.save_data_to_file[0]["detector.image.array"].append("npy")
        second = cls(output_folder=os.path.join(tmp, "b"))
        if case["when"] == "after":
            first.save_data_to_file.append({"detector.pixel.array": ["npy"]})
            first.save_data_to_file[0]["detector.image.array"].append("npy")
        det = mk.detector("ccd", 2, 3)
        if mode.startswith("exposure"):
            pipe = mk.pipeline({"charge_generation": [("vp.probes.write", "w",
                                                       {"buckets": ["photon", "charge", "pixel", "signal", "image"], "salt": 1.0})]})
            pyxel.run_mode(mk.exposure([1.0], outputs=second), det, pipe, with_inherited_coords=True)
            nruns = 1
        else:
            pipe = mk.pipeline({"photon_collection": [("props.c19_outputs.enc_all", "enc", {"a": 0.0, "b": 0.0})]})
            obs = Observation(parameters=[ParameterValues(key="pipeline.photon_collection.enc.arguments.a", values=[1, 2])],
                              outputs=second, readout=mk.readout([1.0]), with_dask=(mode == "obs_dask"))
            if mode == "obs_dask":
                import dask

                with dask.config.set(scheduler="synchronous"):
                    pyxel.run_mode(obs, det, pipe, with_inherited_coords=True).load()
            else:
                pyxel.run_mode(obs, det, pipe, with_inherited_coords=True)
            nruns = 2
        d = str(second.current_output_folder)
        files = sorted(os.listdir(d))
        data_files = [f for f in files if f.startswith("detector_")]
        unexpected = [f for f in data_files if not (f.startswith("detector_image") and f.endswith(".fits"))]
        if unexpected:
            bad("unrequested-file", f"files nobody requested were written: {unexpected} (all: {files})")
        # (the sequential observation additionally leaves an un-numbered copy of the first run's file: not judged here)
        if len([f for f in data_files if f.endswith(".fits")]) < nruns:
            bad("missing-file", f"{len(data_files)} data file(s) {data_files} for {nruns} run(s) of the default list "
                "[image as fits]")
    except Exception as e:  # noqa: BLE001
        bad("raised", f"raised {type(e).__name__}: {str(e)[:200]}")
    finally:
        clock.remove()
        shutil.rmtree(tmp, ignore_errors=True)
    return {"viol": viol, "sig": cfgx.sig(["default-list", mode, case["when"]]), "nontrivial": True, "n": 1,
            "outcome": {"unsupported": False, "files_read_back": 0}, "sets": {"unsupported": []}}


def run_seqdup_case(case):
    import pyxel
    from pyxel.observation import Observation, ParameterValues
    from pyxel.outputs import ObservationOutputs

    seed = int(os.environ.get("VERIF_SEED", "0") or 0) % 5
    sl, mode = case["save"], case["mode"]
    viol = []
    tmp = tempfile.mkdtemp(prefix="vp_c19q_")
    parent = os.path.join(tmp, "parent")
    os.mkdir(parent)
    clock = FakeClock().install()
    nfiles = 0

    def bad(code, what, **kw):
        key = {"part": "files", "mode": mode.rstrip("12"), "code": code, "sweep": "sequential-with-configured-value"}
        key.update(kw)
        viol.append((key, f"[{mode}, sequential sweep a=[cfg, x] b=[cfg, y], pipeline_seed={case['pseed']}, save={sl}] {what}"))

    try:
        ca, cb = 1.0 + seed, 2.0
        pipe = mk.pipeline({"photon_collection": [("props.c19_outputs.enc_all", "enc", {"a": ca, "b": cb})]})
        out = ObservationOutputs(output_folder=parent, save_data_to_file=_save_list(sl))
        obs = Observation(parameters=[ParameterValues(key="pipeline.photon_collection.enc.arguments.a", values=[ca, 4.0 + seed]),
                                      ParameterValues(key="pipeline.photon_collection.enc.arguments.b", values=[cb, 3.0])],
                          mode="sequential", outputs=out, readout=mk.readout([1.0]), with_dask=(mode == "obs_dask"),
                          pipeline_seed=case["pseed"])
        runs = [(ca, cb), (4.0 + seed, cb), (ca, cb), (ca, 3.0)]
        try:
            if mode == "obs_dask":
                import dask

                with dask.config.set(scheduler="synchronous"):
                    res = pyxel.run_mode(obs, mk.detector("ccd", 2, 3), pipe, with_inherited_coords=True)
                    res.load()
            else:
                res = pyxel.run_mode(obs, mk.detector("ccd", 2, 3), pipe, with_inherited_coords=True)
        except Exception as e:  # noqa: BLE001
            bad("raised", f"raised {type(e).__name__}: {str(e)[:200]}")
            return {"viol": viol, "sig": cfgx.sig(["seqdup", mode, case["pseed"], "raised"]), "nontrivial": True, "n": 1,
                    "outcome": {"unsupported": False, "files_read_back": 0}, "sets": {"unsupported": []}}
        d = str(out.current_output_folder)
        names = []
        if "output" in res.children:
            for node in res["/output"].subtree:
                if "filename" in node.data_vars:
                    names += [str(x) for x in np.asarray(node["filename"].values).ravel().tolist()]
        names = [n for n in names if n and n != "nan"]
        for b, f in sl:
            mine = sorted({os.path.basename(n) for n in names if os.path.basename(n).startswith(f"detector_{b}") and n.endswith("." + f)})
            if len(mine) != len(runs):
                bad("report-count", f"{len(mine)} distinct reported files for bucket {b} format {f} and {len(runs)} runs: {mine}", fmt=f)
            missing = [n for n in mine if not os.path.isfile(os.path.join(d, n))]
            if missing:
                bad("missing-file", f"reported files {missing} do not exist", fmt=f)
            on_disk = sorted(fn for fn in os.listdir(d) if fn.startswith(f"detector_{b}_") and fn.endswith("." + f)
                             and fn not in (f"detector_{b}.{f}",))
            contents = [_read_back(os.path.join(d, fn)) for fn in on_disk if os.path.basename(fn) in mine]
            nfiles += len(contents)
            want = [enc_expected(a + 1000.0 * b_)[b] for a, b_ in runs]
            left = list(want)
            for c in contents:
                hit = next((i for i, w in enumerate(left) if c is not None and c.shape == w.shape
                            and np.array_equal(c.astype("float64"), w.astype("float64"))), None)
                if hit is None:
                    bad("wrong-content", f"a reported file of bucket {b}.{f} holds {None if c is None else c.tolist()}, which is "
                        f"the bucket of no (remaining) run", fmt=f)
                    break
                left.pop(hit)
            else:
                if left and len(mine) == len(runs):
                    bad("missing-file", f"{len(left)} run(s) have no file of bucket {b}.{f} holding their data", fmt=f)
    finally:
        clock.remove()
        shutil.rmtree(tmp, ignore_errors=True)
    return {"viol": viol, "sig": cfgx.sig(["seqdup", mode, case["pseed"]]), "nontrivial": True, "n": max(1, nfiles),
            "outcome": {"unsupported": False, "files_read_back": nfiles}, "sets": {"unsupported": []}}


_YAML_DETECTOR = """
ccd_detector:
  geometry: {row: 2, col: 3, total_thickness: 10.0, pixel_vert_size: 2.0, pixel_horz_size: 0.5}
  environment: {temperature: 100.0}
  characteristics: {quantum_efficiency: 0.5, charge_to_volt_conversion: 1.0e-3, pre_amplification: 4.0,
                    full_well_capacity: 1000, adc_bit_resolution: 16, adc_voltage_range: [0.0, 8.0]}
"""


def run_cli_case(case):
    """pyxel.run(<YAML file>) - what `pyxel run file.yaml` executes: the returned table of output files (one row per
    requested bucket x format x run, labelled with the run's parameter values) is the report the property speaks of."""
    import pyxel

    seed = int(os.environ.get("VERIF_SEED", "0") or 0) % 5
    sl, mode = case["save"], case["mode"]
    viol = []
    tmp = tempfile.mkdtemp(prefix="vp_c19c_")
    parent = os.path.join(tmp, "parent")
    os.mkdir(parent)
    clock = FakeClock().install()
    nfiles = 0

    def bad(code, what, **kw):
        key = {"part": "files", "mode": mode.rstrip("12"), "code": code, "entry": "pyxel.run"}
        key.update(kw)
        viol.append((key, f"[pyxel.run of a YAML file, {mode}, save={sl}, grid={case.get('grid')}] {what}"))

    try:
        probes.reset()
        save_yaml = json.dumps(_save_list(sl))
        steps = 2 if mode == "exposure2" else 1
        times = [float(i + 1) for i in range(steps)]
        if mode.startswith("exposure"):
            head = (f"exposure:\n  readout: {{times: {times}}}\n  outputs:\n    output_folder: {json.dumps(parent)}\n"
                    f"    save_data_to_file: {save_yaml}\n")
            pipe = ("pipeline:\n  charge_generation:\n    - name: w\n      func: vp.probes.write\n      enabled: true\n"
                    f"      arguments: {{buckets: [photon, charge, pixel, signal, image], salt: {float(seed)}}}\n")
            labels = None
        else:
            vals = [1 + seed, 2 + seed, 3 + seed]
            params = f"    - {{key: pipeline.photon_collection.enc.arguments.a, values: {vals}}}\n"
            labels = {(v,): enc_expected(v) for v in vals}
            names = ["a"]
            if case.get("grid"):
                na, nb = case["grid"]
                va, vb = vals[:na], [1, 2, 3][:nb]
                params = (f"    - {{key: pipeline.photon_collection.enc.arguments.a, values: {va}}}\n"
                          f"    - {{key: pipeline.photon_collection.enc.arguments.b, values: {vb}}}\n")
                labels = {(x, y): enc_expected(float(x) + 1000.0 * float(y)) for x in va for y in vb}
                names = ["a", "b"]
            head = (f"observation:\n  mode: product\n  with_dask: {'true' if mode == 'obs_dask' else 'false'}\n"
                    f"  parameters:\n{params}  readout: {{times: {times}}}\n  outputs:\n"
                    f"    output_folder: {json.dumps(parent)}\n    save_data_to_file: {save_yaml}\n")
            pipe = ("pipeline:\n  photon_collection:\n    - name: enc\n      func: props.c19_outputs.enc_all\n"
                    "      enabled: true\n      arguments: {a: 0.0, b: 0.0}\n")
        cfg_file = os.path.join(tmp, "config.yaml")
        with open(cfg_file, "w") as fh:
            fh.write(head + _YAML_DETECTOR + pipe)
        before = set(_listing(parent))
        audit_start(parent)
        try:
            if mode == "obs_dask":
                import dask

                with dask.config.set(scheduler="synchronous"):
                    df = pyxel.run(cfg_file)
            else:
                df = pyxel.run(cfg_file)
        except Exception as e:  # noqa: BLE001
            audit_stop()
            bad("raised", f"raised {type(e).__name__}: {str(e)[:200]}")
            df = None
        events = audit_stop()
        if df is not None:
            new_dirs = [x for x in _listing(parent) if x not in before and x.endswith("/") and x.count("/") == 1]
            if len(new_dirs) != 1:
                bad("fresh-dir", f"{len(new_dirs)} new directories {new_dirs} for one started simulation")
            d = os.path.join(parent, new_dirs[0]) if new_dirs else parent
            existing = {os.path.join(parent, x) for x in before}
            for ev, p, existed in events:
                if p in existing:
                    bad("overwrite", f"{ev} on {os.path.relpath(p, parent)} which existed before the start")
                    break
            rows = df.to_dict("records")
            expected = {(): _final_buckets()} if labels is None else labels
            if len(rows) != len(sl) * len(expected):
                bad("report-count", f"the table lists {len(rows)} files for {len(sl)} (bucket, format) pairs x {len(expected)} run(s): "
                    f"{[str(r['filename']) for r in rows]}")
            for (b, f) in sl:
                for label, exp in expected.items():
                    got = [r for r in rows if os.path.basename(str(r["filename"])).startswith(f"detector_{b}")
                           and str(r["filename"]).endswith("." + f)
                           and (labels is None or all(float(r[n]) == float(v) for n, v in zip(names, label)))]
                    if len(got) != 1:
                        bad("report-count", f"{len(got)} rows for bucket {b} format {f} run {label}: "
                            f"{[str(g['filename']) for g in got]}", fmt=f)
                        continue
                    full = os.path.join(d, str(got[0]["filename"]))
                    if not os.path.isfile(full):
                        bad("missing-file", f"listed file {got[0]['filename']} does not exist in the run's folder", fmt=f)
                        continue
                    nfiles += 1
                    a = _read_back(full)
                    e = exp[b]
                    if a is None or a.shape != e.shape or not np.array_equal(a.astype("float64"), e.astype("float64")):
                        bad("wrong-content", f"file {os.path.basename(full)} listed for run {label} bucket {b} holds "
                            f"{None if a is None else a.tolist()} but that run's bucket is {e.tolist()}", fmt=f)
            # the table written next to the files lists the same names
            csvp = os.path.join(d, "output_filenames.csv")
            if not os.path.isfile(csvp):
                bad("missing-file", "output_filenames.csv was not written")
            else:
                import pandas as pd

                listed = sorted(str(x) for x in pd.read_csv(csvp)["filename"])
                if listed != sorted(str(r["filename"]) for r in rows):
                    bad("report-count", f"output_filenames.csv lists {listed}, the returned table "
                        f"{sorted(str(r['filename']) for r in rows)}")
    finally:
        audit_stop()
        clock.remove()
        shutil.rmtree(tmp, ignore_errors=True)
    return {"viol": viol, "sig": cfgx.sig(["cli", sl, mode, case.get("grid")]), "nontrivial": True, "n": max(1, nfiles),
            "outcome": {"unsupported": False, "files_read_back": nfiles}, "sets": {"unsupported": []}}


def run_files_case(case):
    import pyxel
    from pyxel.observation import Observation, ParameterValues
    from pyxel.outputs import ExposureOutputs, ObservationOutputs

    if case.get("direct"):
        return run_direct_case(case)
    if case.get("default_list"):
        return run_default_list_case(case)
    if case.get("cli"):
        return run_cli_case(case)
    if case.get("seqdup"):
        return run_seqdup_case(case)
    seed = int(os.environ.get("VERIF_SEED", "0") or 0) % 5
    sl, mode = case["save"], case["mode"]
    viol = []
    tmp = tempfile.mkdtemp(prefix="vp_c19f_")
    parent = os.path.join(tmp, "parent")
    os.mkdir(parent)
    clock = FakeClock().install()
    unsupported = False
    nfiles = 0
    pre_hash = {}

    def bad(code, what, **kw):
        key = {"part": "files", "mode": mode.rstrip("12"), "code": code}
        key.update(kw)
        viol.append((key, f"[{mode}, save={sl}] {what}"))

    try:
        if case.get("precious"):
            d0 = os.path.join(parent, _candidate("", clock.t, 0))
            os.mkdir(d0)
            for nm in ("detector_pixel.npy", "detector_pixel_array_1.npy", "detector_pixel_1.npy"):
                with open(os.path.join(d0, nm), "wb") as f:
                    f.write(b"precious")
            pre_hash = {os.path.join(d0, nm): b"precious" for nm in os.listdir(d0)}
        seen_dirs = set()
        outobj = None
        for rep in range(case.get("repeat", 1)):
            probes.reset()
            if rep == 1 and case.get("edit") and outobj is not None:
                # in-place edit of the list the outputs object holds (no new list object is assigned)
                sl = case["edit"]
                lst = outobj.save_data_to_file
                del lst[:]
                lst.extend(_save_list(sl))
            det = mk.detector("ccd", 2, 3)
            steps = 2 if mode == "exposure2" else 1
            times = [float(i + 1) for i in range(steps)]
            before = set(_listing(parent))
            audit_start(parent)
            exc = None
            try:
                if mode.startswith("exposure"):
                    pipe = mk.pipeline({"photon_collection": ([("props.c19_outputs.set_header", "hdr", {})]
                                                              if case.get("header") else []),
                                        "charge_generation": [("vp.probes.write", "w",
                                                               {"buckets": ["photon", "charge", "pixel", "signal", "image"],
                                                                "salt": float(seed + rep)})]})
                    if outobj is None:
                        outobj = ExposureOutputs(output_folder=parent, save_data_to_file=_save_list(sl, case.get("entries") == "separate"))
                    res = pyxel.run_mode(mk.exposure(times, outputs=outobj), det, pipe, with_inherited_coords=True)
                    expected = {(): _final_buckets()}
                else:
                    pipe = mk.pipeline({"photon_collection": ([("props.c19_outputs.set_header", "hdr", {})]
                                                              if case.get("header") else [])
                                        + [("props.c19_outputs.enc_all", "enc",
                                            {"a": 0.0, "b": 0.0, "noise": bool(case.get("noise"))})]})
                    if outobj is None:
                        outobj = ObservationOutputs(output_folder=parent, save_data_to_file=_save_list(sl, case.get("entries") == "separate"))
                    vals = [1 + seed + rep, 2 + seed + rep, 3 + seed + rep]
                    pvs = [ParameterValues(key="pipeline.photon_collection.enc.arguments.a", values=vals)]
                    grid = None
                    if case.get("grid"):           # non-square product grid (shorter list first / last)
                        na, nb = case["grid"]
                        va, vb = vals[:na], [1, 2, 3][:nb]
                        pvs = [ParameterValues(key="pipeline.photon_collection.enc.arguments.a", values=va),
                               ParameterValues(key="pipeline.photon_collection.enc.arguments.b", values=vb)]
                        grid = [(x, y) for x in va for y in vb]
                    obs = Observation(parameters=pvs,
                                      outputs=outobj, readout=mk.readout(times), with_dask=(mode == "obs_dask"))
                    if mode == "obs_dask":
                        import dask

                        with dask.config.set(scheduler="synchronous"):
                            res = pyxel.run_mode(obs, det, pipe, with_inherited_coords=True)
                            res.load()
                    else:
                        res = pyxel.run_mode(obs, det, pipe, with_inherited_coords=True)
                    expected = {(v,): enc_expected(v) for v in vals}
                    if case.get("noise"):
                        # stochastic pipeline without a seed: the files must hold the buckets of THE execution whose data
                        # the result carries (not those of another execution of the same run)
                        node = res["/bucket"] if "bucket" in res.children else res
                        for (b, _f) in sl:
                            da = node[b]
                            dim = [d for d in da.dims if d not in ("time", "y", "x")][0]
                            for i, v in enumerate(np.asarray(da.coords[dim].values).tolist()):
                                expected[(v,)] = dict(expected[(v,)], **{b: np.asarray(da.isel({dim: i, "time": 0}).values)})
                    if grid is not None:
                        expected = {(x, y): enc_expected(float(x) + 1000.0 * float(y)) for x, y in grid}
            except NotImplementedError as e:
                exc = e
                unsupported = True
            except Exception as e:  # noqa: BLE001
                exc = e
            events = audit_stop()
            if exc is not None and not unsupported:
                # formats that cannot hold a bucket (image formats for non-image data) are refused loudly: fine
                if isinstance(exc, (ValueError, TypeError, ModuleNotFoundError)) and any(f in ("png", "jpg", "txt", "csv", "hdf") for _, f in sl):
                    unsupported = True
                else:
                    bad("raised", f"run raised {type(exc).__name__}: {str(exc)[:200]}")
            if exc is not None:
                break
            # (1) fresh directory
            d = str(outobj.current_output_folder)
            rel = os.path.relpath(d, parent) + "/"
            if rel in before:
                bad("reused-existing", f"run {rep} wrote into {rel} which existed before the start")
            if d in seen_dirs:
                bad("same-dir-twice", f"run {rep} reused the directory of an earlier run")
            seen_dirs.add(d)
            # (2) no write onto an existing path
            for ev, p, existed in events:
                if existed and os.path.isfile(p) or (ev != "open-w" and existed):
                    bad("overwrite", f"{ev} on {os.path.relpath(p, parent)} which already existed")
                    break
            # (3) reported files: exist, attributed content, exactly one per (bucket, format, run)
            if True:            # every mode (the parallel observation reports its files in /output too, computed by load())
                rep_files = _reported(res)
                for (b, f) in sl:
                    for label, exp in expected.items():
                        got = [r for r in rep_files if r["bucket"] == b and r["ext"] == f and r["label"] == label]
                        if len(got) != 1:
                            bad("report-count", f"{len(got)} reported files for bucket {b} format {f} run {label}: "
                                                f"{[g['path'] for g in got]} (all reported: {[(r['bucket'], r['ext'], r['label']) for r in rep_files]})",
                                fmt=f)
                            continue
                        path = got[0]["path"]
                        full = path if os.path.isabs(path) else os.path.join(d, path)
                        if not os.path.isfile(full):
                            bad("missing-file", f"reported file {path} does not exist", fmt=f)
                            continue
                        nfiles += 1
                        if f in LOSSLESS:
                            a = _read_back(full)
                            e = exp[b]
                            if a is None or a.shape != e.shape or not np.array_equal(a.astype("float64"), e.astype("float64")):
                                bad("wrong-content", f"file {os.path.basename(full)} reported for run {label} bucket {b} holds "
                                                     f"{None if a is None else a.tolist()} but that run's bucket is {e.tolist()}", fmt=f)
            if mode == "obs_dask":
                # additionally: the files on disk must be one-to-one with (bucket, format, run)
                for (b, f) in sl:
                    if f not in LOSSLESS:
                        continue
                    contents = []
                    for fn in sorted(os.listdir(d)):
                        if fn.startswith(f"detector_{b}") and fn.endswith("." + f):
                            contents.append(_read_back(os.path.join(d, fn)))
                    nfiles += len(contents)
                    exp_list = [expected[k][b] for k in expected]
                    ok = len(contents) == len(exp_list) and all(c is not None for c in contents) and all(
                        any(c.shape == e.shape and np.array_equal(c.astype("float64"), e.astype("float64")) for c in contents)
                        for e in exp_list)
                    if not ok:
                        bad("parallel-files", f"files for bucket {b}.{f} {[None if c is None else c.tolist() for c in contents]} are not one-to-one "
                                              f"with the runs' buckets {[e.tolist() for e in exp_list]}", fmt=f)
        for p, content in pre_hash.items():
            with open(p, "rb") as fh:
                if fh.read() != content:
                    bad("clobbered", f"pre-existing file {os.path.relpath(p, parent)} was modified")
    finally:
        audit_stop()
        clock.remove()
        shutil.rmtree(tmp, ignore_errors=True)
    return {"viol": viol, "sig": cfgx.sig([sl, mode, unsupported]), "nontrivial": not unsupported, "n": max(1, nfiles),
            "outcome": {"unsupported": unsupported, "files_read_back": nfiles},
            "sets": {"unsupported": [f"{mode.rstrip('12')}:{f}" for _, f in sl] if unsupported and len(sl) == 1 else []}}


def set_header(detector):
    """probe: leaves the header of an unsigned 16-bit input image in the detector (what load_image does with
    include_header=True): its scaling cards describe the INPUT file, not the buckets written later"""
    from astropy.io import fits

    h = fits.Header()
    h["BITPIX"] = 16
    h["BSCALE"] = 1
    h["BZERO"] = 32768
    h["BUNIT"] = "adu"
    h["OBSERVER"] = "vp"
    detector.header = h


def enc_all(detector, a=0.0, b=0.0, noise=False):
    """probe for the observation cases: every bucket is an injective function of the swept value(s); with `noise` an
    unseeded random term is added to the float buckets (two executions of the same run then differ)"""
    for bucket, v in enc_expected(float(a) + 1000.0 * float(b)).items():
        if noise and bucket != "image":
            v = v + np.random.normal(0.0, 1.0, size=v.shape)
        if bucket == "charge":
            detector.charge.add_charge_array(v)
        elif bucket == "image":
            detector.image.array = v
        else:
            getattr(detector, bucket).array = v


def enc_expected(a):
    base = np.arange(6, dtype=float).reshape(2, 3)
    return {"photon": base + 100.0 * float(a), "charge": base + 200.0 * float(a), "pixel": base + 300.0 * float(a),
            "signal": base + 400.0 * float(a), "image": ((base + 10 * float(a)) % 60000).astype("uint16")}


def _final_buckets():
    """final bucket contents of the exposure, from the write probe's last snapshot."""
    last = [t for t in probes.TRACE if "buckets" in t][-1]["buckets"]
    out = {}
    for b in ("photon", "pixel", "signal", "image"):
        out[b] = np.array(last[b][2], dtype=np.dtype(last[b][0]))
    out["charge"] = np.array(last["charge_array"], dtype=float)
    return out


def _reported(res):
    """[{bucket, ext, label(tuple of param values), path}] from the /output node of a result tree."""
    out = []
    if "output" not in res.children:
        return out
    for node in res["/output"].subtree:
        if "filename" not in node.data_vars:
            continue
        da = node["filename"]
        bucket = node.name
        if bucket.startswith("detector"):
            bucket = bucket.split(".")[1] if "." in bucket else bucket.split("_")[1]
        fdims = [d for d in da.dims if d in ("extension", "data_format")]
        pdims = [d for d in da.dims if d not in fdims]
        for idx in itertools.product(*[range(da.sizes[d]) for d in da.dims]):
            sel = dict(zip(da.dims, idx))
            item = da.isel(sel)
            ext = None
            for fd in ("extension", "data_format"):
                if fd in item.coords:
                    ext = str(item.coords[fd].values)
            if ext is None:
                ext = os.path.splitext(str(item.values))[1][1:]
            # labels ordered by dimension NAME (the order of the dimensions in the tree is not part of the contract)
            label = tuple(float(item.coords[d].values) if d in item.coords else sel[d] for d in sorted(pdims, key=str))
            path = str(item.values)
            out.append({"bucket": bucket, "ext": ext, "label": tuple(int(x) if float(x).is_integer() else x for x in label),
                        "path": path})
    return out


# ----------------------------------------------------------------------------- module interface

def shards(tier, seed):
    out = [{"part": "dirs", "depth": 4 if tier == "quick" else 6, "seed": seed}]
    for name in RACES:
        if name == "4same" and tier == "quick":
            continue
        out.append({"part": "race", "race": name, "bound": 2 if tier == "quick" else (3 if name == "4same" else 8),
                    "seed": seed})
    n = len(files_cases(tier))
    k = 24 if tier == "quick" else 48
    for i in range(k):
        out.append({"part": "files", "tier": tier, "i": i, "of": k, "total": n, "seed": seed})
    return out


def run_shard(shard):
    os.environ["VERIF_SEED"] = str(shard.get("seed", 0))
    seed = shard.get("seed", 0)
    if shard["part"] == "dirs":
        stats, viols, sample = bfs_dirs(shard["depth"])
        return {"violations": [{"key": k, "what": w, "case": dict(c, seed=seed)} for k, w, c in viols],
                "counts": {"states": stats["states"], "transitions": stats["transitions"]},
                "sets": {"explored": [f"dirs@depth{shard['depth']}"]},
                "samples": [{"part": "dirs", "ops": sample}]}
    if shard["part"] == "race":
        stats, outcomes, viols, sample = explore_race(shard["race"], shard["bound"])
        return {"violations": [{"key": k, "what": w, "case": dict(c, seed=seed)} for k, w, c in viols],
                "counts": {"schedules": stats["executions"], "transitions": stats["executions"] * stats["points"],
                           "states": len(outcomes)},
                "sets": {"explored": [f"race:{shard['race']}@bound{shard['bound']}"],
                         "race_outcomes": [f"{shard['race']}:{hashlib.sha1(o.encode()).hexdigest()[:8]}" for o in outcomes]},
                "samples": sample}
    cases = files_cases(shard["tier"])
    assert len(cases) == shard["total"]
    viol, counts, sets = {}, {"file_cases": 0, "files_read_back": 0, "nontrivial": 0}, {"sigs": set(), "unsupported": set()}
    sample = []
    for c in cases[shard["i"]:: shard["of"]]:
        r = run_files_case(c)
        counts["file_cases"] += 1
        counts["files_read_back"] += r["outcome"]["files_read_back"]
        if r["nontrivial"]:
            counts["nontrivial"] += 1
            sets["sigs"].add(r["sig"])
        sets["unsupported"].update(r["sets"]["unsupported"])
        for key, what in r["viol"]:
            viol.setdefault(json.dumps(key, sort_keys=True), {"key": key, "what": what, "case": dict(c, seed=seed)})
        if not sample and not r["viol"] and r["nontrivial"]:
            sample.append({"case": c, "outcome": r["outcome"]})
    return {"violations": list(viol.values()), "counts": counts, "sets": {k: sorted(v) for k, v in sets.items()},
            "samples": sample}


def replay(case):
    os.environ["VERIF_SEED"] = str(case.get("seed", 0))
    if case["part"] == "dirs":
        v, _ = replay_dirs(case["ops"])
        return [{"key": k, "what": w, "case": case} for k, w in v]
    if case["part"] == "race":
        n, kinds, pre = RACES[case["race"]]
        out1, log1 = race_execution(n, kinds, case["choices"], None, pre)
        out2, _ = race_execution(n, kinds, case["choices"], [e[1] for e in log1], pre)
        if out1 != out2:
            raise RuntimeError("same schedule, different observation")
        return [{"key": {"part": "race", "code": code, "threads": n}, "what": msg, "case": case} for code, msg in race_check(out1)]
    r = run_files_case({k: v for k, v in case.items() if k != "seed"})
    return [{"key": k, "what": w, "case": case} for k, w in r["viol"]]


def coverage(tier, seed, agg):
    c, s = agg["counts"], agg["sets"]
    return {
        "states": c.get("states", 0),
        "transitions": c.get("transitions", 0),
        "traces_validated_against_impl": c.get("transitions", 0) + c.get("file_cases", 0),
        "schedules": c.get("schedules", 0),
        "file_cases": c.get("file_cases", 0),
        "files_read_back": c.get("files_read_back", 0),
        "distinct_file_outcomes": len(s.get("sigs", [])),
        "race_outcomes": s.get("race_outcomes", []),
        "explored": s.get("explored", []),
        "unsupported_formats_refused_loudly": s.get("unsupported", []),
        "exhaustive": True,
        "rule": "dirs: BFS over histories, state = (top-level listing of the parent folder, clock); race: all "
                "interleavings within the preemption bound (>= number of points means all); files: every 1- and "
                "2-element save list x mode",
    }
